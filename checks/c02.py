"""C02 — Concurrent logging is exactly-once, mutually exclusive and order-preserving."""
import concurrent.futures, json, os, re, subprocess
import vlib

META = {
    'id': 'C02',
    'level': 'proof',
    'technique': 'Coq proof over ALL interleavings of a lock-skeleton interpreter (generic in the skeleton translated from '
                 'the source) + extracted trace acceptor run on ticketed traces of the real library under seeded schedule perturbation',
    'text': 'Properties_C02.v proves, for every skeleton satisfying the decidable predicate `bracketed`, any thread count, any '
            'per-thread message count and any schedule: mutual exclusion of the pipeline, serialisability in lock-acquisition order, '
            'exactly-once, per-thread order, consecutive sequence numbers, no lost counter update (counter++ modelled as read+write), '
            'and that removing the locks loses an update. The skeletons of Logger::processMessage / OwnThreadHandler::process are '
            're-translated from /repo on every run and must pass `bracketed` by computation. Partial tie: the real code is connected '
            'by the translated skeleton and by recorded traces (N producer threads through qInfo/qWarning and through a bare handler) '
            'that must be accepted by the extracted acceptor (every model trace is accepted - proved) and satisfy the extracted oracle.',
    'note': 'Trusted: Coq 8.16.1 kernel (vm_compute only on closed terms: bracketed src_*, the refutation witness, the examples); '
            'no axioms; tools/s2c/conc.py (textual, brace-aware skeleton translation; unknown protocol-touching statements abort it); '
            'extraction (ExtrOcamlBasic) + ocaml/drv_conc.ml; harness/h_conc.cpp (global atomic ticket taken only inside the '
            "harness's own handlers and hook). Modelled, not verified: QMutex/QRecursiveMutex, the C++ memory model (data races "
            'below the granularity of the model are sampled by a TSan run in the thorough tier, supporting evidence only), '
            'g_activeLogger publication (installed before producers start), recursion of the logger mutex.',
    'design_ref': 'DESIGN.md section 4, C02',
    'engine': 'coq+extraction+harness',
}

NS = [2, 4, 8, 16, 32, 64]


def parse_run(out):
    """-> (header, [tokens]) of the single run in the harness output"""
    lines = out.splitlines()
    hdr = next((l for l in lines if l.startswith('RUN ')), None)
    if hdr is None:
        return None, []
    k = lines.index(hdr)
    toks = lines[k + 1].split() if k + 1 < len(lines) else []
    return hdr, toks


def classify(toks, n, per):
    """direct boolean oracles on the ticketed trace; returns list of (kind, detail, position)"""
    bad = []
    inside = None
    delivered = {}
    nxt = [0] * n
    k_seq = 0
    locked_m = []
    order = []
    for pos, t in enumerate(toks):
        f = t.split('.')
        kind = f[0]
        if kind == '?':
            bad.append(('torn_trace', 'unwritten event slot', pos)); continue
        p, i = int(f[1]), int(f[2])
        if kind == 'E':
            if inside is not None:
                if inside[0] == 'flush':
                    bad.append(('overlap', 'producer %d entered the pipeline with message %d while producer %d was inside Sink::flush() (fatal message %d)' % (p, i, inside[1], inside[2]), pos))
                else:
                    bad.append(('overlap', 'producer %d entered the pipeline with message %d while producer %d was inside with message %d' % (p, i, inside[0], inside[1]), pos))
            inside = (p, i)
        elif kind == 'X':
            sq = int(f[3])
            if inside != (p, i):
                bad.append(('overlap', 'sink received message %d of producer %d while %s was the last to enter' % (i, p, inside), pos))
                if inside is not None and inside[0] == 'flush':
                    continue        # keep the flush interval open: its own exit reports
            inside = None
            if (p, i) in delivered:
                bad.append(('duplicate', 'message %d of producer %d delivered twice' % (i, p), pos))
            delivered[(p, i)] = pos
            if 0 <= p < n:
                if i != nxt[p]:
                    bad.append(('reorder', 'producer %d: message %d delivered where %d was due' % (p, i, nxt[p]), pos))
                nxt[p] = max(nxt[p], i + 1)
            else:
                bad.append(('foreign', 'delivery of an unknown producer %d' % p, pos))
            if sq != k_seq:
                bad.append(('seq_gap', 'delivery #%d carries sequence number %d' % (k_seq, sq), pos))
            k_seq += 1
            order.append((p, i))
        elif kind == 'M':
            if i >= 0:
                locked_m.append((p, i))
        elif kind == 'F':        # Sink::flush entered (fatal path): a sink entry point like send()
            if inside is not None:
                bad.append(('overlap', 'producer %d entered Sink::flush() (fatal message %d) while %s was inside the pipeline' % (p, i, inside), pos))
            inside = ('flush', p, i)
        elif kind == 'G':
            if inside != ('flush', p, i):
                bad.append(('overlap', 'Sink::flush() of producer %d (fatal message %d) ran concurrently with %s' % (p, i, inside), pos))
            inside = None
    for p in range(n):
        for i in range(per):
            if (p, i) not in delivered:
                bad.append(('lost', 'message %d of producer %d never reached the sink' % (i, p), len(toks)))
                break
    # only meaningful when the schedule point inside the critical section fired once per message (it is a hook of the
    # code under test: a rewrite may bypass it, which by itself says nothing about the property)
    if not bad and len(locked_m) == len(order) and locked_m != order:
        bad.append(('acq_order', 'delivery order differs from the order in which the handler mutex was acquired', 0))
    return bad


def run_one(impl, cfg, timeout=120):
    line = '%s %d %d %d %d %d %d' % (cfg['mode'], cfg['n'], cfg['per'], cfg['seed'], cfg['perturb'], cfg['dup'], cfg.get('stall', 0))
    rc, out, err = vlib.sh([impl], inp=(line + '\n').encode(), timeout=timeout)
    hdr, toks = parse_run(out)
    return rc, hdr, toks, err


def model_verdict(model, cfg, toks):
    line = '%d %s %s' % (cfg['n'], ','.join([str(cfg['per'])] * cfg['n']), ' '.join(t for t in toks if t[0] in 'EX'))
    rc, out, _ = vlib.run_lines(model, [line])
    try:
        a, o, pre, tot = (int(x) for x in out[0].split())
    except Exception:
        return None
    return {'accept': a, 'oracle': o, 'prefix': pre, 'events': tot}


def gen_configs(chk, reps, total, heavy=False):
    cfgs = []
    for rep in range(reps):
        for mode in ('logger', 'bare'):
            for n in NS:
                cfgs.append({'mode': mode, 'n': n, 'per': max(1, total // n), 'seed': chk.rng.randrange(1, 2 ** 31),
                             'perturb': 3 if heavy else chk.rng.choice([0, 1, 1, 2, 2, 3]), 'dup': chk.rng.choice([0, 0, 1]), 'stall': 0})
    return cfgs


def entry_configs(chk, reps, total):
    """mixed entry points (Qt macros + direct process() on the same installed Logger) and fatal-level messages (flush)"""
    cfgs = []
    for _ in range(reps):
        for mode, ns in (('mixed', (2, 4, 8, 16)), ('fatal', (2, 4, 8))):
            for n in ns:
                cfgs.append({'mode': mode, 'n': n, 'per': max(3, total // n), 'seed': chk.rng.randrange(1, 2 ** 31),
                             'perturb': chk.rng.choice([1, 2, 3]), 'dup': 0, 'stall': 0})
    return cfgs


def mixed_fatal_configs(chk, reps, total):
    """NOT in the default tiers (enable with VERIF_C02_MIXED_FATAL=1; awaiting the coordinator's decision): direct process()
    callers and fatal-level macro callers on the same installed synchronous Logger.  The translated family
    {direct process(), fatal macro} is not guarded by one mutex (static.direct_and_fatal_guarded = false, theorem
    C02_direct_call_vs_fatal_flush_refuted): Sink::flush() runs under the Logger mutex only, Sink::send() of a direct
    caller under the handler mutex only."""
    return [{'mode': 'mixed+fatal', 'n': n, 'per': max(3, total // n), 'seed': chk.rng.randrange(1, 2 ** 31),
             'perturb': chk.rng.choice([0, 1, 2]), 'dup': 0, 'stall': 0} for _ in range(reps) for n in (2, 4, 8)]


def special_configs(chk, reps, total):
    """a user handler that throws once (the caller catches), a fluent-built pipeline with a level filter in front of the
    sequence number (a third of the messages do not qualify), two pipelines under different locks with pattern formatters"""
    cfgs = []
    for _ in range(reps):
        for mode, n, per in (('throw', 4, 100), ('throwlogger', 4, 100), ('filtered', 4, total // 4), ('filtered', 16, total // 16),
                             ('pattern', 4, 1500), ('pattern', 8, 750)):
            cfgs.append({'mode': mode, 'n': n, 'per': per, 'seed': chk.rng.randrange(1, 2 ** 31),
                         'perturb': chk.rng.choice([0, 1, 2]), 'dup': 0, 'stall': 0})
    return cfgs


def stall_configs(chk, reps, ms):
    """a handler of long duration: one message keeps the pipeline busy for `ms` while the other producers keep logging"""
    return [{'mode': mode, 'n': 4, 'per': 60, 'seed': chk.rng.randrange(1, 2 ** 31), 'perturb': 1, 'dup': 0, 'stall': ms}
            for _ in range(reps) for mode in ('logger', 'bare')]


def build_tsan():
    """thorough tier only: the same harness under -fsanitize=thread against the single header"""
    exe = os.path.join(vlib.BUILD, 'h_conc.tsan')
    qtcf = subprocess.check_output(['pkg-config', '--cflags', 'Qt5Core'], text=True).split()
    qtld = subprocess.check_output(['pkg-config', '--libs', 'Qt5Core'], text=True).split()
    cmd = ['g++', '-std=c++17', '-O1', '-g', '-fPIC', '-w', '-fsanitize=thread', '-DQTLOGGER_VERIF', '-DVERIF_HEADER_ONLY',
           '-I' + vlib.REPO] + qtcf + [os.path.join(vlib.VERIF, 'harness', 'h_conc.cpp'), '-o', exe] + qtld + ['-lpthread']
    rc, out, err = vlib.sh(cmd, timeout=600)
    return exe if rc == 0 else None, (out + err)[-800:]


def run():
    chk = vlib.Check('C02')
    chk.trusted = ['Coq 8.16.1 kernel; vm_compute only on closed terms (bracketed src_logger_sk / src_handler_sk, refutation witness, examples)',
                   'axioms: none (every Print Assumptions: Closed under the global context)',
                   'tools/s2c/conc.py (logger.cpp, ownthreadhandler.h -> SrcConc.v; aborts on unrecognised protocol statements)',
                   'extraction ExtrOcamlBasic, ocaml/drv_conc.ml; harness/h_conc.cpp (tickets taken only in harness code)',
                   'QMutex / QRecursiveMutex semantics, qInstallMessageHandler dispatch and the C++ memory model are modelled, not verified']
    chk.assumptions = ['the logger is installed before the producers start and outlives them (g_activeLogger races are outside C02)',
                       'handlers do not log recursively; synchronous mode (no worker thread)',
                       'lock steps are atomic and mutexes are exclusive (QMutex correctness)']
    proof_ok = chk.proof(vlib.proof_leg('Properties_C02', ['conc']))
    model = vlib.build_model('conc')
    impl = vlib.build_harness('conc')
    thorough = chk.tier == 'thorough'
    total = 2000
    cfgs = stall_configs(chk, 1, 1300) + special_configs(chk, 3 if thorough else 1, total) + entry_configs(chk, 6 if thorough else 2, total) + gen_configs(chk, 17 if thorough else 4, total)
    mixed_fatal = os.environ.get('VERIF_C02_MIXED_FATAL') == '1'
    if mixed_fatal:
        cfgs += mixed_fatal_configs(chk, 2, total)
    rcs, static_out, _ = vlib.sh([model, 'static'], inp=b'', timeout=30)
    static = dict(kv.split('=') for kv in static_out.split()) if rcs == 0 else {'error': 'model static report failed'}
    if not proof_ok:
        # the skeleton no longer satisfies the obligation (or a proof broke): widen the schedule search
        cfgs += gen_configs(chk, 5, total, heavy=True) + entry_configs(chk, 4, total) + stall_configs(chk, 1, 2600) + special_configs(chk, 2, total)
    results = []
    with concurrent.futures.ThreadPoolExecutor(max_workers=4) as ex:
        futs = [(c, ex.submit(run_one, impl, c)) for c in cfgs]
        for c, f in futs:
            results.append((c,) + f.result())
    n_events = n_deliv = 0
    kinds = {}
    switches = 0
    reported = 0
    disagreements = 0
    fmt_checked = 0
    for cfg, rc, hdr, toks, err in results:
        if rc != 0 or hdr is None:
            kind = 'hang' if rc == 124 else 'crash'
            kinds[kind] = kinds.get(kind, 0) + 1
            if reported < 3:
                chk.fail('harness %s under concurrent logging (%s, %d threads): memory corruption or deadlock' % (kind, cfg['mode'], cfg['n']),
                         dict(cfg, kind=kind, rc=rc, stderr=err[-600:]), kind=kind)
                reported += 1
            continue
        if ' HANG' in hdr:
            kinds['hang'] = kinds.get('hang', 0) + 1
            if reported < 3:
                done = sum(1 for t in toks if t[0] == 'X')
                chk.fail('hang: after a user handler threw on one message (the caller caught the exception) the logger never delivered '
                         'again: %d of %d messages delivered within 8 s, every later call blocks (mode %s)' % (done, cfg['n'] * cfg['per'], cfg['mode']),
                         dict(cfg, kind='hang', delivered=done, expected=cfg['n'] * cfg['per'], last_events=toks[-8:], header=hdr), kind='hang')
                reported += 1
            continue
        if cfg['mode'] == 'pattern':
            mf = re.search(r'fmt_checked=(\d+) fmt_bad=(\d+) first_bad=(\S+)', hdr)
            fmt_checked += int(mf.group(1)) if mf else 0
            if not mf or int(mf.group(2)) > 0 or int(mf.group(1)) != cfg['n'] * cfg['per']:
                kinds['format_corrupt'] = kinds.get('format_corrupt', 0) + 1
                if reported < 3:
                    fb = (mf.group(3) if mf else '-').split(':')
                    dec = lambda h: bytes.fromhex(h).decode('utf-8', 'replace')
                    det = ({'pipeline': {'L': 'installed Logger, pattern <%{user?1,1}> %{message}', 'A': 'bare handler, pattern [audit] %{message}'}.get(fb[0], fb[0]),
                            'producer': int(fb[1]), 'index': int(fb[2]), 'formatted': dec(fb[3]), 'single_threaded_expectation': dec(fb[4])} if len(fb) == 5 else {})
                    chk.fail('format_corrupt: two pipelines under different locks, each with a PatternFormatter: %s of %s formatted texts differ from '
                             'the single-threaded result, e.g. %r instead of %r' % (mf.group(2) if mf else '?', mf.group(1) if mf else '?',
                                                                                    det.get('formatted'), det.get('single_threaded_expectation')),
                             dict(cfg, kind='format_corrupt', header=hdr[:300], **det), kind='format_corrupt')
                    reported += 1
            continue
        n_events += len(toks)
        xs = [t for t in toks if t[0] == 'X']
        n_deliv += len(xs)
        switches += sum(1 for a, b in zip(xs, xs[1:]) if a.split('.')[1] != b.split('.')[1])
        bad = classify(toks, cfg['n'], cfg['per'])
        mv = model_verdict(model, cfg, toks)
        if mv is None:
            chk.broke('model driver produced no verdict', dict(cfg, kind='driver')); continue
        if 'OVERFLOW' in hdr:
            bad.append(('duplicate', 'more events than messages allow', len(toks)))
        ex_bad = [b for b in bad if b[0] != 'acq_order']
        if mv['oracle'] == 0 or ex_bad or bad:
            b = (ex_bad or bad or [('oracle', 'extracted oracle prop_c02_b is false', mv['prefix'])])[0]
            kinds[b[0]] = kinds.get(b[0], 0) + 1
            if reported < 3:
                ex_toks = [t for t in toks if t[0] in 'EX']
                at = mv['prefix']
                chk.fail('%s: %s (mode %s, %d threads x %d messages)' % (b[0], b[1], cfg['mode'], cfg['n'], cfg['per']),
                         dict(cfg, kind=b[0], detail=b[1], violations_in_this_run=len(bad), acceptor=mv,
                              first_rejected_event=at, schedule_up_to_first_rejected_event=ex_toks[max(0, at - 30):at + 1],
                              trace_around_violation=toks[max(0, b[2] - 12):b[2] + 6],
                              full_trace_events=len(toks), header=hdr), kind=b[0])
                reported += 1
        elif mv['accept'] == 0:
            disagreements += 1
            chk.broke('acceptor rejects a trace that the boolean oracle takes (event %d)' % mv['prefix'], dict(cfg, kind='acceptor', acceptor=mv))
    tsan = None
    if thorough:
        exe, log = build_tsan()
        if exe is None:
            tsan = {'built': False, 'log': log}
        else:
            in_lib, in_code, runs, samples = 0, 0, 0, []
            for c in gen_configs(chk, 1, 400)[:8]:
                c = dict(c, dup=1)
                line = '%s %d %d %d %d %d' % (c['mode'], c['n'], c['per'], c['seed'], c['perturb'], c['dup'])
                rc, out, err = vlib.sh([exe], inp=(line + '\n').encode(), timeout=300,
                                       env={'TSAN_OPTIONS': 'halt_on_error=0 exitcode=0 report_signal_unsafe=0'})
                runs += 1
                for rep in err.split('WARNING: ThreadSanitizer')[1:]:
                    first = rep.split('\n\n')[0]
                    top = '\n'.join(re.findall(r'#[0-2] .*', first)[:3])
                    if re.search(r'libQt5Core|libc\.so|tzset', top):
                        in_lib += 1       # access inside an uninstrumented library (refcount free, tz lock): not assessable
                    else:
                        in_code += 1
                        if len(samples) < 3:
                            samples.append(top[:400])
            tsan = {'built': True, 'runs': runs, 'reports_with_both_accesses_in_instrumented_code': in_code,
                    'reports_inside_uninstrumented_libraries': in_lib, 'samples': samples,
                    'note': 'libQt5Core is not instrumented: the contended QMutex path is invisible to TSan, the harness therefore '
                            'announces the lock hand-over at the schedule points; supporting evidence only, never a verdict'}
    chk.cov.update({'evaluations': len(results), 'distinct_nontrivial': sum(1 for r in results if r[2] is not None and len(r[3]) >= 2 * r[0]['n']),
                    'rule': '%d runs = repetitions x {installed Logger via qInfo/qWarning, bare OwnThreadHandler<SimplePipeline>} x '
                            '(plus: installed Logger with mixed entry points = macros + direct process(); installed Logger with '
                            'fatal-level messages through Logger::messageHandler and a sink whose flush() takes tickets) '
                            'N in {2,4,8,16,32,64} producer threads, ~%d messages per run, seeded yields/sleeps/spins at the schedule points, '
                            'plus runs in which one handler call lasts 1.3 s while the other producers keep logging; '
                            'non-trivial = at least two deliveries per producer' % (len(results), total),
                    'events_recorded': n_events, 'deliveries': n_deliv, 'producer_switches_between_consecutive_deliveries': switches,
                    'threads_histogram': {str(n): sum(1 for r in results if r[0]['n'] == n) for n in NS},
                    'mode_histogram': {m: sum(1 for r in results if r[0]['mode'] == m) for m in ('logger', 'bare', 'mixed', 'fatal', 'mixed+fatal', 'throw', 'throwlogger', 'filtered', 'pattern')},
                    'formatted_texts_compared': fmt_checked,
                    'flush_intervals_recorded': sum(sum(1 for t in r[3] if t[0] == 'F') for r in results),
                    'perturb_histogram': {str(p): sum(1 for r in results if r[0]['perturb'] == p) for p in range(4)},
                    'dupfilter_runs': sum(1 for r in results if r[0]['dup']), 'long_handler_runs': sum(1 for r in results if r[0].get('stall')),
                    'static': static, 'mixed_plus_fatal_scenario_enabled': mixed_fatal,
                    'violation_kinds': kinds, 'acceptor_vs_oracle_disagreements': disagreements, 'tsan': tsan})
    chk.samples = [{'config': r[0], 'header': r[2], 'first_events': r[3][:12]} for r in results[:3]]
    return chk.finish()


def replay(path):
    r = json.load(open(path))['replay']
    if isinstance(r, list):
        r = r[0]
    if 'mode' not in r:
        print(json.dumps(r, indent=1)); return 0
    vlib.gen_src(['conc'])
    model = vlib.build_model('conc'); impl = vlib.build_harness('conc')
    cfg = {k: r.get(k, 0) for k in ('mode', 'n', 'per', 'seed', 'perturb', 'dup', 'stall')}
    print('recorded    ', r.get('kind'), r.get('detail'))
    print('recorded schedule (tail):', ' '.join(r.get('schedule_up_to_first_rejected_event', [])))
    for k in range(5):   # schedules are not deterministic: re-run the same configuration a few times
        rc, hdr, toks, err = run_one(impl, cfg)
        bad = classify(toks, cfg['n'], cfg['per']) if hdr else [('crash', err[-200:], 0)]
        print('re-run %d: implementation rc=%d %s; violations: %s; model: %s' % (k, rc, hdr, bad[:2], model_verdict(model, cfg, toks) if hdr else None))
    return 0
