"""C06 — Retention bounds the file count and deletes only the oldest rotated files."""
import vlib
from checks import rotate_util

META = {
    'id': 'C06',
    'level': 'proof',
    'technique': 'Coq proof (invariants over all operation histories of an executable model of RotatingFileSink, instantiated at the '
                 'decision shapes translated from the source) + differential run of the extracted model against the real sink under a '
                 'virtual wall clock + extracted boolean oracle evaluated on the implementation\'s directories',
    'text': 'Theorems (Properties_C06.v): count_bound (N >= 2: rotated + active <= N), victims_are_oldest (removed files are a prefix of the rotation order and of the (date,index) order), survivors_contiguous, no_delete (N <= 0), no_rotated_when_one (N = 1), foreign_untouched / foreign_inert (files the recogniser rejects are never touched and invisible to the sink) — for every history of write / clock advance / restart / foreign-file operations, every L, N, '
            'option set and timestamp granularity.  They are about the very definitions that are extracted and run against the real '
            'RotatingFileSink (directory listing identical after every operation); the oracle prop_c06_b, proved true on every model '
            'world, is evaluated on the implementation\'s listings with ghost data reconstructed from the written history.',
    'note': rotate_util.META_NOTE,
    'design_ref': 'DESIGN.md section 4, C05/C06/C07/C09',
    'engine': 'coq+extraction+harness',
}


def run():
    return rotate_util.run_check('C06')


def replay(path):
    return rotate_util.replay_check('C06', path)
