"""C09 — Daily rotation keeps days apart and rotated names are unique and dated."""
import vlib
from checks import rotate_util

META = {
    'id': 'C09',
    'level': 'proof',
    'technique': 'Coq proof (invariants over all operation histories of an executable model of RotatingFileSink, instantiated at the '
                 'decision shapes translated from the source) + differential run of the extracted model against the real sink under a '
                 'virtual wall clock + extracted boolean oracle evaluated on the implementation\'s directories',
    'text': 'Theorems (Properties_C09.v): days_apart_and_name_carries_day, indices_increase (per date strictly increasing in rotation order across restarts, compression, removals), never_overwritten (no (date,index) is handed out twice), keys_strictly_increase, never_rotates_empty, civil_dates_monotone — for every history of write / clock advance / restart / foreign-file operations, every L, N, '
            'option set and timestamp granularity.  They are about the very definitions that are extracted and run against the real '
            'RotatingFileSink (directory listing identical after every operation); the oracle prop_c09_b, proved true on every model '
            'world, is evaluated on the implementation\'s listings with ghost data reconstructed from the written history.  Harness-only probes (outside the model): a message object constructed before midnight and sent after it to a sink whose log is empty (never rotates an empty log, every .gz a gzip file); a zone with daylight-saving time (TZ=CET-1CEST,M3.5.0,M10.5.0/3) around the 23-hour and 25-hour local days.',
    'note': rotate_util.META_NOTE,
    'design_ref': 'DESIGN.md section 4, C05/C06/C07/C09',
    'engine': 'coq+extraction+harness',
}


def run():
    return rotate_util.run_check('C09')


def replay(path):
    return rotate_util.replay_check('C09', path)
