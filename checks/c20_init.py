"""C20 helper - "no archive member depends on being linked for its side effects".

The library build is a STATIC library: the linker takes an object out of libqtlogger.a only when the program references one of its
symbols.  In the single header every source is part of the user's translation unit.  Code that runs by itself at start-up - a
namespace-scope dynamic initialiser (Q_COREAPP_STARTUP_FUNCTION, Q_CONSTRUCTOR_FUNCTION, a registrar object, a function-local static
hoisted to namespace scope, __attribute__((constructor))) - therefore runs in every header-only program but only in those library
programs that happen to pull the object in.  Oracle: for every object of the library build, every function the object's .init_array /
.ctors entries point to is disassembled (objdump -dr) and what it refers to is listed; anything beyond the C++ runtime's own
bookkeeping (std::ios_base::Init, __cxa_atexit, __dso_handle, the object's own .bss/.data/.rodata) is a self-registering / side-effecting
initialiser and must be on KNOWN_INITIALISERS (a reason per entry).  When one is found the difference is demonstrated on a program: the
same source (harness/h_header.cpp) linked against the archive, against all objects (--whole-archive) and built header-only; nm on the
linked images (is the initialiser part of the program?) and, best effort, gdb (is the function it calls reached from a static initialiser
when the program runs?)."""
import os, re, shutil, subprocess, tempfile
import vlib

# what every C++ object may touch from its start-up function without observable effect
ALLOWED = [r'std::ios_base::Init::Init\(\)$', r'std::ios_base::Init::~Init\(\)$', r'__cxa_atexit$', r'__dso_handle$', r'std::__ioinit$',
           r'\.bss(\..*)?$', r'\.data(\..*)?$', r'\.rodata(\..*)?$', r'\.LC\d+$', r'\.text(\..*)?$', r'__stack_chk_fail$',
           r'guard variable for ', r'__cxa_guard_(acquire|release|abort)$', r'_GLOBAL_OFFSET_TABLE_$']

# (object relative to the library, regex on the demangled target) -> reason
KNOWN_INITIALISERS = [
    ('formatters/patternformatter.o', r'std::chrono::_V2::steady_clock::now\(\)$',
     'static const auto g_processStartTime = steady_clock::now(): a time stamp kept in a file-local variable that only '
     'patternformatter.cpp reads (%{time process}); it registers nothing with another component, and a program that does not link the '
     'object cannot observe it'),
]


def _demangle(names):
    if not names:
        return {}
    p = subprocess.run(['c++filt'], input='\n'.join(names), stdout=subprocess.PIPE, universal_newlines=True)
    out = p.stdout.split('\n')
    return {n: (out[i] if i < len(out) and out[i] else n) for i, n in enumerate(names)}


def startup_functions(obj):
    """-> [{'function': mangled, 'section': s, 'refers_to': [mangled...]}] for every .init_array/.ctors entry of the object"""
    rc, so, se = vlib.sh(['objdump', '-r', '-w', obj], timeout=120)
    entries, sec = [], None
    for ln in so.splitlines():
        m = re.match(r'RELOCATION RECORDS FOR \[(.*)\]:', ln)
        if m:
            sec = m.group(1)
            continue
        if sec and (sec.startswith('.init_array') or sec.startswith('.ctors') or sec.startswith('.preinit_array')):
            m = re.match(r'[0-9a-f]+\s+R_\S+\s+(\S+?)(?:([+-])0x([0-9a-f]+))?$', ln.strip())
            if m:
                entries.append((m.group(1), int(m.group(3) or '0', 16) * (-1 if m.group(2) == '-' else 1), sec))
    if not entries:
        return []
    rc, so, se = vlib.sh(['objdump', '-dr', '-w', '--no-show-raw-insn', obj], timeout=300)
    funcs, cursec, cur = [], None, None
    for ln in so.splitlines():
        m = re.match(r'Disassembly of section (.*):', ln)
        if m:
            cursec = m.group(1)
            continue
        m = re.match(r'([0-9a-f]+) <(.*)>:$', ln)
        if m:
            cur = {'section': cursec, 'addr': int(m.group(1), 16), 'function': m.group(2), 'refers_to': []}
            funcs.append(cur)
            continue
        if cur is not None:
            for m in re.finditer(r'\b[0-9a-f]+:\s+R_\S+\s+(\S+?)(?:[+-]0x[0-9a-f]+)?(?=\s|$)', ln):
                if m.group(1) not in cur['refers_to']:
                    cur['refers_to'].append(m.group(1))
    out = []
    for sym, add, sec in entries:
        f = next((f for f in funcs if f['function'] == sym), None)
        if f is None:
            f = next((f for f in funcs if f['section'] == sym and f['addr'] == add), None)
        if f is None:
            out.append({'function': '%s+%#x' % (sym, add), 'section': sec, 'refers_to': ['(could not be disassembled)']})
            continue
        # the compiler may keep the body in __static_initialization_and_destruction_0 (not inlined at -O0): follow local calls one level
        refs = list(f['refers_to'])
        for r in list(refs):
            g = next((g for g in funcs if g['function'] == r and ('static_initialization_and_destruction' in r)), None)
            if g:
                refs += [x for x in g['refers_to'] if x not in refs]
        out.append({'function': f['function'], 'section': sec, 'refers_to': refs})
    return out


def library_objects(libdir):
    return sorted(os.path.join(d, f) for d, _, fs in os.walk(libdir) for f in fs if f.endswith('.o'))


def scan_library(libdir):
    """-> (rows, flagged): rows per object with a start-up function; flagged = those that refer to something not allowed and not known"""
    rows, flagged = [], []
    objs = library_objects(libdir)
    allnames = set()
    per = {}
    for o in objs:
        fs = startup_functions(o)
        per[o] = fs
        for f in fs:
            allnames.update(f['refers_to'])
            allnames.add(f['function'])
    dm = _demangle(sorted(allnames))
    for o in objs:
        rel = o[len(libdir) + 1:]
        for f in per[o]:
            beyond, known = [], []
            for r in f['refers_to']:
                d = dm.get(r, r)
                if any(re.search(a, d) for a in ALLOWED) or 'static_initialization_and_destruction' in d:
                    continue
                k = next((kk for kk in KNOWN_INITIALISERS if kk[0] == rel and re.search(kk[1], d)), None)
                (known if k else beyond).append({'mangled': r, 'name': d, 'reason': k[2] if k else None})
            row = {'object': rel, 'startup_function': dm.get(f['function'], f['function']), 'section': f['section'],
                   'refers_to': [dm.get(r, r) for r in f['refers_to']], 'beyond_runtime_bookkeeping': [b['name'] for b in beyond],
                   'known': [{'target': k['name'], 'reason': k['reason']} for k in known]}
            rows.append(row)
            if beyond:
                flagged.append(dict(row, targets=beyond, mangled_function=f['function']))
    return objs, rows, flagged


def _gdb_hits(exe, args, mangled_target, timeout=240):
    """how often is the target reached from a static initialiser of the running program?  None = could not be observed"""
    if not shutil.which('gdb'):
        return None
    d = tempfile.mkdtemp(prefix='c20_gdb_')
    try:
        script = os.path.join(d, 'cmds')
        open(script, 'w').write('set pagination off\nset confirm off\nset breakpoint pending on\nset debuginfod enabled off\n'
                                'break %s\ncommands\nsilent\necho C20HIT\\n\nbt 8\necho C20END\\n\ncontinue\nend\nrun\nquit\n' % mangled_target)
        try:
            p = subprocess.run(['gdb', '-q', '-nx', '-batch', '-x', script, '--args', exe] + args, stdin=subprocess.DEVNULL,
                               stdout=subprocess.PIPE, stderr=subprocess.PIPE, timeout=timeout, universal_newlines=True,
                               env=dict(os.environ, LC_ALL='C', C20_DIR=os.path.join(d, 'w')))
        except subprocess.TimeoutExpired:
            return None
        if 'C20HIT' not in p.stdout and not re.search(r'exited (normally|with code)', p.stdout):
            return None
        hits = 0
        for blk in re.findall(r'C20HIT\n(.*?)C20END', p.stdout, re.S):
            if re.search(r'_GLOBAL__sub_I|__static_initialization_and_destruction|_ctor_class_', blk):
                hits += 1
        return hits
    finally:
        shutil.rmtree(d, ignore_errors=True)


def demonstrate(flag, build_dir, repo, qt_cflags, prog_src, exe_archive, exe_header):
    """the same program linked against the archive / all objects / header-only: is the flagged start-up code part of it, does it run?"""
    work = tempfile.mkdtemp(prefix='c20_init_')
    res = {'program': 'harness/h_header.cpp (QCoreApplication; gQtLogger.format(..).sendToFile(..); installMessageHandler; qInfo; flush)'}
    try:
        whole = os.path.join(work, 'h_header.whole')
        libs = vlib.sh('pkg-config --libs Qt5Core')[1].split()
        rc, so, se = vlib.sh(['g++', '-std=c++17', '-O1', '-g', '-fPIC', '-w', '-DQTLOGGER_VERIF', '-DQTLOGGER_STATIC', '-DQTLOGGER_SYSLOG',
                              '-I' + os.path.join(repo, 'src'), '-I' + os.path.join(repo, 'src', 'qtlogger')] + qt_cflags
                             + ['-rdynamic', prog_src, '-o', whole, '-Wl,--whole-archive', os.path.join(build_dir, 'libqtlogger.a'), '-Wl,--no-whole-archive']
                             + libs + ['-lpthread'], timeout=900)
        if rc != 0:
            whole = None
            res['whole_archive_link'] = 'failed: ' + (se.strip().splitlines() or [''])[-1][:200]

        def has(exe, sym):
            rc, so, se = vlib.sh(['nm', exe], timeout=120)
            return any(l.split()[-1] == sym for l in so.splitlines() if l.split())

        def refs(exe, sym):
            rc, so, se = vlib.sh(['nm', '-D', exe], timeout=120)
            rc2, so2, se2 = vlib.sh(['nm', exe], timeout=120)
            return any(l.split()[-1].split('@')[0] == sym for l in (so + so2).splitlines() if l.split())
        fn = flag['mangled_function']
        tgt = next((t for t in flag['targets'] if not t['mangled'].startswith('.')), flag['targets'][0])
        res['startup_function'] = flag['startup_function']
        res['calls'] = tgt['name']
        res['in_archive_linked_program'] = has(exe_archive, fn)
        res['in_whole_archive_program'] = has(whole, fn) if whole else None
        res['target_referenced_by_archive_linked_program'] = refs(exe_archive, tgt['mangled'])
        res['target_referenced_by_header_only_program'] = refs(exe_header, tgt['mangled'])
        logf = os.path.join(work, 'x.log')
        runs = {}
        for label, exe in (('archive', exe_archive), ('all_objects', whole), ('header_only', exe_header)):
            runs[label] = _gdb_hits(exe, [logf], tgt['mangled']) if exe else None
        res['times_target_reached_from_a_static_initialiser_at_run_time'] = runs
        return res
    finally:
        shutil.rmtree(work, ignore_errors=True)


def initialisers_leg(chk, repo, qt_cflags):
    build = vlib.BUILD
    libdir = os.path.join(build, 'lib')
    try:
        exe_archive = vlib.build_harness('header')
    except RuntimeError as e:
        chk.broke('the library / h_header do not build: ' + str(e)[-300:], {'kind': 'library-build'})
        return 0
    objs, rows, flagged = scan_library(libdir)
    chk.cov['startup_initialisers'] = {'library_objects': len(objs), 'objects_with_a_startup_function': len({r['object'] for r in rows}),
                                       'startup_functions': [{k: r[k] for k in ('object', 'startup_function', 'refers_to', 'known')} for r in rows][:40],
                                       'beyond_runtime_bookkeeping_and_not_known': len(flagged),
                                       'known_list': [{'object': k[0], 'target': k[1], 'reason': k[2]} for k in KNOWN_INITIALISERS]}
    for fl in flagged[:3]:
        demo = None
        try:
            exe_header = vlib.build_harness('header', 'hdr')
            demo = demonstrate(fl, build, repo, qt_cflags, os.path.join(vlib.VERIF, 'harness', 'h_header.cpp'), exe_archive, exe_header)
        except Exception as e:          # the demonstration is an extra; the static finding stands
            demo = {'error': str(e)[-300:]}
        names = [t['name'] for t in fl['targets']]
        rep = {'kind': 'self-registering-initialiser', 'object': fl['object'], 'source': 'src/qtlogger/' + fl['object'][:-2] + '.cpp',
               'startup_function': fl['startup_function'], 'refers_to_beyond_runtime_bookkeeping': names[:12], 'demonstration': demo,
               'how': 'objdump -r -j .init_array build/lib/%s; objdump -dr -C build/lib/%s (function %s); known list: checks/c20_init.py'
                      % (fl['object'], fl['object'], fl['startup_function'])}
        dropped = bool(demo) and demo.get('in_archive_linked_program') is False and (demo.get('in_whole_archive_program') or demo.get('target_referenced_by_header_only_program'))
        runs = (demo or {}).get('times_target_reached_from_a_static_initialiser_at_run_time') or {}
        if dropped:
            ran = ''
            if runs.get('archive') is not None and (runs.get('header_only') is not None or runs.get('all_objects') is not None):
                ran = ('; at run time (gdb, breakpoint on %s, reached from a static initialiser): archive-linked program %s x, all objects %s x, header-only %s x'
                       % (demo['calls'], runs.get('archive'), runs.get('all_objects'), runs.get('header_only')))
            chk.fail('the library object %s runs code by itself at start-up (%s refers to %s) and that depends on the link: the program %s linked against '
                     'libqtlogger.a does not contain this start-up function (the linker leaves %s out: nothing references it), the same program with all objects '
                     '(--whole-archive) contains it: %s, the header-only build refers to %s: %s%s'
                     % (fl['object'], fl['startup_function'], ', '.join(names[:4]), demo['program'].split(' ')[0], fl['object'],
                        demo.get('in_whole_archive_program'), demo['calls'], demo.get('target_referenced_by_header_only_program'), ran),
                     rep, kind='self-registering-initialiser')
        else:
            chk.broke('the library object %s has a namespace-scope dynamic initialiser with effects beyond the C++ runtime bookkeeping (%s refers to %s): whether it '
                      'runs depends on whether the linker pulls the object out of the static library, in the single header it always runs; not on the known list'
                      % (fl['object'], fl['startup_function'], ', '.join(names[:4])), rep)
    return len(objs)
