(* line driver for the C17 model.  input: one history per line, one character per call
   (A F M S P = typed insertions, R = setFormatter with the previous formatter object again, B G T Q = appendAttrHandler/appendFilter/appendSink/appendPipeline with the object most recently created for that class again, 1..5 = the typed call of class attr/filter/formatter/sink/pipeline with a NULL pointer, a f m s p = clear<Class>, x = clear()).  output: after every
   call the list as "<class><id>," items terminated by ';' — the same format as h_sorted.
   mode "model" (default): run_src (model with the source's configuration)
   mode "spec":  spec_list (the specification)
   mode "oracle": reads lists in the output format, prints 1/0 per list (prop_c17_b) *)
open Sorted_model
let rec nat_of_int n = if n <= 0 then O else S (nat_of_int (n-1))
let rec int_of_nat = function O -> 0 | S n -> 1 + int_of_nat n
let ch = function Attr -> 'A' | Filt -> 'F' | Fmt -> 'M' | Snk -> 'S' | Pipe -> 'P' | Gen -> 'H'
let cls_of = function 'A' -> Attr | 'F' -> Filt | 'M' -> Fmt | 'S' -> Snk | 'P' -> Pipe | _ -> Gen
let op_of c = match c with 'A' -> AppendAttr | 'F' -> AppendFilter | 'M' -> SetFormatter | 'R' -> SetFormatterAgain
  | 'S' -> AppendSink | 'P' -> AppendPipeline | 'a' -> Clear Attr | 'f' -> Clear Filt | 'm' -> Clear Fmt
  | 's' -> Clear Snk | 'p' -> Clear Pipe
  | 'B' -> AppendAgain Attr | 'G' -> AppendAgain Filt | 'T' -> AppendAgain Snk | 'Q' -> AppendAgain Pipe
  | '1' -> NullCall Attr | '2' -> NullCall Filt | '3' -> NullCall Fmt | '4' -> NullCall Snk | '5' -> NullCall Pipe | _ -> ClearAll
let show b r = List.iter (fun (c, i) -> Buffer.add_string b (Printf.sprintf "%c%d," (ch c) (int_of_nat i))) r; Buffer.add_char b ';'
let parse_list s =
  List.filter_map (fun it -> if it = "" then None else
    Some (cls_of it.[0], nat_of_int (int_of_string (String.sub it 1 (String.length it - 1)))))
    (String.split_on_char ',' s)
let () =
  let mode = if Array.length Sys.argv > 1 then Sys.argv.(1) else "model" in
  try while true do
    let line = input_line stdin in
    let b = Buffer.create 64 in
    if mode = "oracle" then begin
      List.iter (fun seg -> if seg <> "" || true then
        Buffer.add_char b (if prop_c17_b (parse_list seg) then '1' else '0'))
        (match List.rev (String.split_on_char ';' line) with _ :: r -> List.rev r | [] -> [])
    end else
      for k = 1 to String.length line do
        let ops = List.init k (fun i -> op_of line.[i]) in
        show b (if mode = "spec" then spec_list ops else run_src ops)
      done;
    print_endline (Buffer.contents b)
  done with End_of_file -> ()
