(* line driver for the C15 model.  Strings are hex UTF-16 code units (4 digits each), "-" = empty.
   input line:  <rules> <cat>[,<cat>...]   (mode oracle: a third field = the verdicts to judge,
                                            in the output format below)
   output line: per category five characters 1/0 (message types in QtMsgType numeric order:
                debug warning critical fatal info), categories separated by ',' — the format of
                harness/h_category.
   with a further field <ci>:<ti>[,...] (query sequence: category index, type index) the output is one
   character per query, in that order (the model's verdict does not depend on the order); in mode oracle
   the verdict field then comes fourth and holds one character per query.
   modes (argv[1]): model  = category_filter src_cfg (default)
                    spec   = spec_verdict (the specification function)
                    legacy = the model with "^...$" line semantics (classification of LF failures)
                    oracle = prop_c15_b on the given verdicts: 1 = as specified, 0 = falsified
                    rules  = the parsed rule list of the model:  <pattern hex>/<type or *>/<0|1> ...
                    srules = the parsed rule list of the specification *)
open Category_model
let rec pos_of_int n = if n = 1 then XH else if n land 1 = 1 then XI (pos_of_int (n lsr 1)) else XO (pos_of_int (n lsr 1))
let n_of_int n = if n <= 0 then N0 else Npos (pos_of_int n)
let rec int_of_pos = function XH -> 1 | XO p -> 2 * int_of_pos p | XI p -> 2 * int_of_pos p + 1
let int_of_n = function N0 -> 0 | Npos p -> int_of_pos p
let unhex s = if s = "-" then [] else List.init (String.length s / 4) (fun i -> n_of_int (int_of_string ("0x" ^ String.sub s (4*i) 4)))
let hex l = if l = [] then "-" else String.concat "" (List.map (fun c -> Printf.sprintf "%04x" (int_of_n c)) l)
let types = [Debug; Warning; Critical; Fatal; Info]
let tname = function Debug -> "debug" | Warning -> "warning" | Critical -> "critical" | Fatal -> "fatal" | Info -> "info"
let show_rules rs = String.concat " " (List.map (fun r ->
  Printf.sprintf "%s/%s/%s" (hex r.pat) (match r.rtype with None -> "*" | Some t -> tname t) (if r.enabled then "1" else "0")) rs)
let () =
  let mode = if Array.length Sys.argv > 1 then Sys.argv.(1) else "model" in
  try while true do
    let line = input_line stdin in
    (match String.split_on_char ' ' line with
     | r :: _ when mode = "rules" -> print_endline (show_rules (model_rules (unhex r)))
     | r :: _ when mode = "srules" -> print_endline (show_rules (spec_rules (unhex r)))
     | [r; cs; qs; vs] when mode = "oracle" ->
       let rules = unhex r in
       let cats = Array.of_list (List.map unhex (String.split_on_char ',' cs)) in
       let b = Buffer.create 64 in
       List.iteri (fun k q ->
         match String.split_on_char ':' q with
         | [ci; ti] ->
           let ci = int_of_string ci and ti = int_of_string ti in
           Buffer.add_char b (if ci < Array.length cats && ti < 5 && k < String.length vs
                                 && (vs.[k] = '0' || vs.[k] = '1')
                                 && prop_c15_b rules cats.(ci) (List.nth types ti) (vs.[k] = '1') then '1' else '0')
         | _ -> Buffer.add_char b '0') (String.split_on_char ',' qs);
       print_endline (Buffer.contents b)
     | [r; cs; qs] when mode <> "oracle" && String.contains qs ':' ->
       let rules = unhex r in
       let cats = Array.of_list (List.map unhex (String.split_on_char ',' cs)) in
       let f = match mode with "spec" -> spec_verdict | "legacy" -> legacy_verdict | _ -> model_verdict in
       let b = Buffer.create 64 in
       List.iter (fun q ->
         match String.split_on_char ':' q with
         | [ci; ti] ->
           let ci = int_of_string ci and ti = int_of_string ti in
           Buffer.add_char b (if ci < Array.length cats && ti < 5 then (if f rules cats.(ci) (List.nth types ti) then '1' else '0') else '?')
         | _ -> Buffer.add_char b '?') (String.split_on_char ',' qs);
       print_endline (Buffer.contents b)
     | [r; cs; vs] when mode = "oracle" ->
       let rules = unhex r in
       let cats = String.split_on_char ',' cs and vl = String.split_on_char ',' vs in
       let out = List.map2 (fun c v ->
         let cat = unhex c in
         String.concat "" (List.mapi (fun i t ->
           if i < String.length v && prop_c15_b rules cat t (v.[i] = '1') then "1" else "0") types)) cats
           (if List.length vl = List.length cats then vl else List.map (fun _ -> "") cats) in
       print_endline (String.concat "," out)
     | r :: cs :: _ ->
       let rules = unhex r in
       let f = match mode with "spec" -> spec_verdict | "legacy" -> legacy_verdict | _ -> model_verdict in
       let out = List.map (fun c ->
         let cat = unhex c in
         String.concat "" (List.map (fun t -> if f rules cat t then "1" else "0") types)) (String.split_on_char ',' cs) in
       print_endline (String.concat "," out)
     | _ -> print_endline "?")
  done with End_of_file -> ()
