(* line driver for the C15 model.  Strings are hex UTF-16 code units (4 digits each), "-" = empty.
   input line:  <rules> <cat>[,<cat>...]   (mode oracle: a third field = the verdicts to judge,
                                            in the output format below)
   output line: per category five characters 1/0 (message types in QtMsgType numeric order:
                debug warning critical fatal info), categories separated by ',' — the format of
                harness/h_category.
   with a further field [<storage>/]<ci>:<ti>[,...] (a history put to ONE filter object: category index, type
   index; <storage> = where the harness keeps the category names: none = every name at its own address,
   B S H C = one reused buffer / recycled heap blocks, see harness/h_category.cpp) the history becomes a list
   of Coq [query] records (address, name text, type; address = category index + 1 without a storage prefix,
   0 for all queries with one) and the output is one character per query, in that order, computed by
   [object_answers src_cfg] (mode model) or [spec_answers] (mode spec); in mode oracle the verdict field
   comes fourth, holds one character per query, and the output is the per-query marks of prop_c15_b
   followed by a blank and the mark of the history oracle prop_c15_seq_b on the whole answer list.
   modes (argv[1]): model  = category_filter src_cfg (default)
                    spec   = spec_verdict (the specification function)
                    legacy = the model with "^...$" line semantics (classification of LF failures)
                    oracle = prop_c15_b on the given verdicts: 1 = as specified, 0 = falsified
                    rules  = the parsed rule list of the model:  <pattern hex>/<type or *>/<0|1> ...
                    srules = the parsed rule list of the specification *)
open Category_model
let rec pos_of_int n = if n = 1 then XH else if n land 1 = 1 then XI (pos_of_int (n lsr 1)) else XO (pos_of_int (n lsr 1))
let n_of_int n = if n <= 0 then N0 else Npos (pos_of_int n)
let rec int_of_pos = function XH -> 1 | XO p -> 2 * int_of_pos p | XI p -> 2 * int_of_pos p + 1
let int_of_n = function N0 -> 0 | Npos p -> int_of_pos p
let unhex s = if s = "-" then [] else List.init (String.length s / 4) (fun i -> n_of_int (int_of_string ("0x" ^ String.sub s (4*i) 4)))
let hex l = if l = [] then "-" else String.concat "" (List.map (fun c -> Printf.sprintf "%04x" (int_of_n c)) l)
let types = [Debug; Warning; Critical; Fatal; Info]
let tname = function Debug -> "debug" | Warning -> "warning" | Critical -> "critical" | Fatal -> "fatal" | Info -> "info"
let show_rules rs = String.concat " " (List.map (fun r ->
  Printf.sprintf "%s/%s/%s" (hex r.pat) (match r.rtype with None -> "*" | Some t -> tname t) (if r.enabled then "1" else "0")) rs)
(* the query field of a history line -> Coq queries (None = index out of range / unreadable) *)
let history cats qs =
  let shared, qs =
    if String.length qs >= 2 && qs.[1] = '/' then true, String.sub qs 2 (String.length qs - 2) else false, qs in
  List.map (fun q ->
    match String.split_on_char ':' q with
    | [ci; ti] ->
      (match int_of_string_opt ci, int_of_string_opt ti with
       | Some ci, Some ti when ci >= 0 && ci < Array.length cats && ti >= 0 && ti < 5 ->
         Some { q_addr = n_of_int (if shared then 0 else ci + 1); q_cat = cats.(ci); q_type = List.nth types ti }
       | _ -> None)
    | _ -> None) (String.split_on_char ',' qs)
let () =
  let mode = if Array.length Sys.argv > 1 then Sys.argv.(1) else "model" in
  try while true do
    let line = input_line stdin in
    (match String.split_on_char ' ' line with
     | r :: _ when mode = "rules" -> print_endline (show_rules (model_rules (unhex r)))
     | r :: _ when mode = "srules" -> print_endline (show_rules (spec_rules (unhex r)))
     | [r; cs; qs; vs] when mode = "oracle" ->
       let rules = unhex r in
       let cats = Array.of_list (List.map unhex (String.split_on_char ',' cs)) in
       let hist = history cats qs in
       let b = Buffer.create 64 in
       List.iteri (fun k q ->
         Buffer.add_char b (match q with
           | Some q when k < String.length vs && (vs.[k] = '0' || vs.[k] = '1')
                         && prop_c15_b rules q.q_cat q.q_type (vs.[k] = '1') -> '1'
           | _ -> '0')) hist;
       let whole =
         List.for_all (fun q -> q <> None) hist && String.length vs = List.length hist
         && String.for_all (fun c -> c = '0' || c = '1') vs
         && prop_c15_seq_b rules (List.filter_map (fun q -> q) hist) (List.init (String.length vs) (fun k -> vs.[k] = '1')) in
       Buffer.add_char b ' '; Buffer.add_char b (if whole then '1' else '0');
       print_endline (Buffer.contents b)
     | [r; cs; qs] when mode <> "oracle" && String.contains qs ':' ->
       let rules = unhex r in
       let cats = Array.of_list (List.map unhex (String.split_on_char ',' cs)) in
       let hist = history cats qs in
       if List.for_all (fun q -> q <> None) hist && mode <> "legacy" then begin
         let f = if mode = "spec" then spec_answers else model_answers in
         print_endline (String.concat "" (List.map (fun v -> if v then "1" else "0") (f rules (List.filter_map (fun q -> q) hist))))
       end else begin
         let f = match mode with "spec" -> spec_verdict | "legacy" -> legacy_verdict | _ -> model_verdict in
         print_endline (String.concat "" (List.map (function
           | Some q -> if f rules q.q_cat q.q_type then "1" else "0"
           | None -> "?") hist))
       end
     | [r; cs; vs] when mode = "oracle" ->
       let rules = unhex r in
       let cats = String.split_on_char ',' cs and vl = String.split_on_char ',' vs in
       let out = List.map2 (fun c v ->
         let cat = unhex c in
         String.concat "" (List.mapi (fun i t ->
           if i < String.length v && prop_c15_b rules cat t (v.[i] = '1') then "1" else "0") types)) cats
           (if List.length vl = List.length cats then vl else List.map (fun _ -> "") cats) in
       print_endline (String.concat "," out)
     | r :: cs :: _ ->
       let rules = unhex r in
       let f = match mode with "spec" -> spec_verdict | "legacy" -> legacy_verdict | _ -> model_verdict in
       let out = List.map (fun c ->
         let cat = unhex c in
         String.concat "" (List.map (fun t -> if f rules cat t then "1" else "0") types)) (String.split_on_char ',' cs) in
       print_endline (String.concat "," out)
     | _ -> print_endline "?")
  done with End_of_file -> ()
