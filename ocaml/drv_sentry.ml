(* line driver for the C18 model.
   input line:  <time_ms> <tid> <qtverhex> <eventidhex> <implhex|?> <type> <msg> <fmt> <cat> <file> <fn> <line> <na> [<key> <value>]...
     strings are hex UTF-16 units; "-" = empty string; "0" = null pointer / not formatted; values as in drv_json
   output line: <hex of sentry_format src_sentry_cfg qtver eventid m> <verdict>
     verdict = 1/0 = prop_c18_b m <implhex decoded>, "-" when implhex is "?"
     optional suffix "|" + attribute steps applied (apply_ops / with_ops of the model) before formatting:
       S <n> (k v)*n = OSetAll   U <n> (k v)*n = OUpdate   A <k> <v> = OSet   R <k> = ORemove
   mode "iso": input <ms>, output <hex of iso_utc ms> <iso_decode of it, or ->
   mode "ids": input line = the event ids of a run (plain text, blank separated), output 1/0 = ids_ok_b *)
open Sentry_model
let rec pos_of_int n = if n = 1 then XH else if n land 1 = 1 then XI (pos_of_int (n lsr 1)) else XO (pos_of_int (n lsr 1))
let n_of_int n = if n = 0 then N0 else Npos (pos_of_int n)
let rec int_of_pos = function XH -> 1 | XO p -> 2 * int_of_pos p | XI p -> 2 * int_of_pos p + 1
let int_of_n = function N0 -> 0 | Npos p -> int_of_pos p
let z_of_int n = if n = 0 then Z0 else if n > 0 then Zpos (pos_of_int n) else Zneg (pos_of_int (-n))
let int_of_z = function Z0 -> 0 | Zpos p -> int_of_pos p | Zneg p -> - (int_of_pos p)
let unhex s = if s = "-" || s = "0" || s = "" then [] else List.init (String.length s / 4) (fun i -> n_of_int (int_of_string ("0x" ^ String.sub s (4*i) 4)))
let opt s = if s = "0" then None else Some (unhex s)
let hex l = let b = Buffer.create 256 in List.iter (fun c -> Buffer.add_string b (Printf.sprintf "%04x" (int_of_n c))) l; Buffer.contents b
let rec value toks = match toks with
  | t :: r -> let k = t.[0] and a = String.sub t 1 (String.length t - 1) in
    (match k with
     | 'n' -> (JNull, r) | 't' -> (JBool true, r) | 'f' -> (JBool false, r)
     | 'i' | 'I' | 'd' | 'u' | 'U' | 'F' ->
       (* the numeric QVariant type is part of the input: the model converts the integer into that type (num_value) *)
       let ty = (match k with 'I' -> TInt | 'u' -> TUInt | 'i' -> TLongLong | 'U' -> TULongLong | 'd' -> TDouble | _ -> TFloat) in
       (num_value ty (z_of_int (int_of_string a)), r)
     | 's' -> (JStr (unhex a), r)
     | 'a' -> let n = int_of_string a in
              let rec go n r acc = if n = 0 then (List.rev acc, r) else let (v, r') = value r in go (n-1) r' (v :: acc) in
              let (l, r') = go n r [] in (JArr l, r')
     | 'o' -> let n = int_of_string a in
              let rec go n r acc = if n = 0 then (List.rev acc, r) else
                (match r with kk :: r1 -> let (v, r') = value r1 in go (n-1) r' ((unhex kk, v) :: acc) | [] -> failwith "o") in
              let (l, r') = go n r [] in (JObj l, r')
     | _ -> failwith "val")
  | [] -> failwith "eof"
let () =
  let mode = if Array.length Sys.argv > 1 then Sys.argv.(1) else "model" in
  try while true do
  let line = input_line stdin in
  if mode = "iso" then begin
    let s = iso_utc (z_of_int (int_of_string line)) in
    print_endline (hex s ^ " " ^ (match iso_decode s with Some z -> string_of_int (int_of_z z) | None -> "-"))
  end else if mode = "ids" then begin
    let ids = List.filter (fun x -> x <> "") (String.split_on_char ' ' line) in
    let units x = List.init (String.length x) (fun i -> n_of_int (Char.code x.[i])) in
    print_endline (if ids_ok_b (List.map units ids) then "1" else "0")
  end else
  match String.split_on_char ' ' line with
  | ms :: tid :: qtver :: evid :: impl :: ty :: msg :: fmt :: cat :: file :: fn :: ln :: na :: rest ->
    let rec attrs n toks acc = if n = 0 then (List.rev acc, toks) else
      (match toks with k :: r -> let (v, r') = value r in attrs (n-1) r' ((unhex k, v) :: acc) | [] -> failwith "a") in
    let (base, rest') = attrs (int_of_string na) rest [] in
    let rec ops toks acc = match toks with
      | [] -> List.rev acc
      | "|" :: r -> ops r acc
      | "S" :: n :: r -> let (l, r') = attrs (int_of_string n) r [] in ops r' (OSetAll l :: acc)
      | "U" :: n :: r -> let (l, r') = attrs (int_of_string n) r [] in ops r' (OUpdate l :: acc)
      | "A" :: k :: r -> let (v, r') = value r in ops r' (OSet (unhex k, v) :: acc)
      | "R" :: k :: r -> ops r (ORemove (unhex k) :: acc)
      | _ -> failwith "op" in
    let steps = ops rest' [] in
    let lm = { mtype = n_of_int (int_of_string ty); mtext = unhex msg; mfmt = opt fmt; mfile = opt file; mfunc = opt fn;
               mcat = opt cat; mline = z_of_int (int_of_string ln); mtime = []; mtid = z_of_int (int_of_string tid);
               mattrs = base } in
    let m = with_ops { s_msg = lm; s_time_ms = z_of_int (int_of_string ms) } steps in
    let v = if impl = "?" then "-" else if prop_c18_b m (unhex impl) then "1" else "0" in
    print_endline (hex (sentry_format_src (unhex qtver) (unhex evid) m) ^ " " ^ v)
  | _ -> print_endline "? ?" done with End_of_file -> ()
