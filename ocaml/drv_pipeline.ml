(* line driver for the C01 model (extracted from PipelineDefs.v with the source's configuration).
   One case per input line:   <tree tokens> | <message tokens>
   tree tokens (space separated, fields ':'-separated, strings = hex UTF-16 units, 4 digits each):
     as:oid:k:v am:oid:k.v,k.v,... ac:oid:k ft:oid ff:oid fc:oid:s fh:oid:k fy:oid:t mt:oid:tag ma:oid:tag:k mn:oid me:oid
     s:oid p:oid gs:oid:k:v:r gr:oid:k:r gf:oid:tag:r gc:oid:r q:oid:name d:oid l:oid:t z
     (  = unscoped SimplePipeline child   (! = child made by SimplePipeline::pipeline()
     (+ = scoped plain Pipeline child     (- = unscoped plain Pipeline child      ) = end of child
     ( (+ (- may carry the suffix ~<how>: the child enters the real tree as a COPY of a built pipeline object
       (1 copy constructor, 2 operator<<(Logger *, const Pipeline &), 3 copy of the still empty original, 4 copy assignment);
       the tree is parsed into the tagged [bhandler] and evaluated as Gallina [forget_l] of it (the tag is forgotten)
   attribute VALUES (the v above and in message tokens) are typed: bare hex = QString, i~<int> = int, b~<0|1> = bool,
     f~<n> = the double n/2, y~<hex bytes, 2 digits each> = QByteArray
   message token: <type 0..4>:<text>:<n | f<fmt>>:<k.v,k.v,...>
   edit token (between message tokens; applied to the tree at that moment):  @<path>@<op>[@<arg>]
     path = entry indices joined by '/', from the root's list down to the addressed pipeline ('' = the root)
     a@<leaf token | z | ( | (- | (+ | (!>  Pipeline::append / operator<< / the fluent call (a new EMPTY child pipeline for the parens)
     n                append({nullptr}): a null entry at the end      r@<oid>  Pipeline::remove(object)     c  Pipeline::clear()
     k@<A|F|M|S|P>    SortedPipeline::clearAttrHandlers/Filters/Formatters/Sinks/Pipelines
     t@<leaf token | (+ | (->   the typed call for the class of the leaf: appendAttrHandler / appendFilter / setFormatter / appendSink / appendPipeline
   output, one line per case: per message the events joined by ';' followed by the final content
   `e.<shown>.<F|U>.<attrs>.<raw>`; messages joined by '|'.
     x<oid>.<0|1>                                  the function of a scripted/built-in leaf ran, its return value
     d<oid>.<s|p>.<shown>.<F|U>.<attrs>.<raw>      delivery to a sink / probe; attrs = sorted k=s<hex>|i<int>|b<0|1>|f<n>|y<hex>
   mode "oracle": input line <tree>|<msgs>|<trace 1>|<trace 2>...  (traces in the output format);
     prints one digit per message: 0 = prop_c01_b holds, 1 order law, 2 scoped-restore law, 3 delivery law, 4 latest-effect law
     (messages are judged against the tree of their moment: Gallina [which_steps])
   mode "inline": prints the tree with every unscoped child inlined (Gallina [inline])
   mode "after": prints the tree after all edits of the line *)
open Pipeline_model
let rec pos_of_int n = if n = 1 then XH else if n land 1 = 1 then XI (pos_of_int (n lsr 1)) else XO (pos_of_int (n lsr 1))
let n_of_int n = if n = 0 then N0 else Npos (pos_of_int n)
let rec int_of_pos = function XH -> 1 | XO p -> 2 * int_of_pos p | XI p -> 2 * int_of_pos p + 1
let int_of_n = function N0 -> 0 | Npos p -> int_of_pos p
let z_of_int n = if n = 0 then Z0 else if n > 0 then Zpos (pos_of_int n) else Zneg (pos_of_int (-n))
let int_of_z = function Z0 -> 0 | Zpos p -> int_of_pos p | Zneg p -> - (int_of_pos p)
let rec nat_of_int n = if n <= 0 then O else S (nat_of_int (n-1))
let rec int_of_nat = function O -> 0 | S n -> 1 + int_of_nat n
let unhex s = List.init (String.length s / 4) (fun i -> n_of_int (int_of_string ("0x" ^ String.sub s (4*i) 4)))
let hex l = String.concat "" (List.map (fun u -> Printf.sprintf "%04x" (int_of_n u)) l)
let mtype_of_int = function 0 -> Debug | 1 -> Warning | 2 -> Critical | 3 -> Fatal | _ -> Info
let int_of_mtype = function Debug -> 0 | Warning -> 1 | Critical -> 2 | Fatal -> 3 | Info -> 4
let oid s = nat_of_int (int_of_string s)
let unhex2 s = List.init (String.length s / 2) (fun i -> n_of_int (int_of_string ("0x" ^ String.sub s (2*i) 2)))
let hex2 l = String.concat "" (List.map (fun u -> Printf.sprintf "%02x" (int_of_n u)) l)
let parse_tval s =   (* a typed value token *)
  if String.length s >= 2 && s.[1] = '~' then
    let r = String.sub s 2 (String.length s - 2) in
    match s.[0] with
    | 'i' -> VInt (z_of_int (int_of_string r)) | 'b' -> VBool (r = "1") | 'f' -> VDbl (z_of_int (int_of_string r))
    | 'y' -> VBytes (unhex2 r) | 's' -> VStr (unhex r) | _ -> failwith ("bad value " ^ s)
  else VStr (unhex s)
let show_tval = function
  | VStr s -> hex s | VInt z -> "i~" ^ string_of_int (int_of_z z) | VBool b -> if b then "b~1" else "b~0"
  | VDbl z -> "f~" ^ string_of_int (int_of_z z) | VBytes b -> "y~" ^ hex2 b
let fluent_scoped = ref child_scoped_src   (* oracle mode: the property's value (true), not the source's *)
let parse_leaf t =   (* one non-structural token *)
  let p = String.split_on_char ':' t in
  let leaf o l = HLeaf (oid o, l) in
  match p with
      | ["as"; o; k; v] -> leaf o (LAttrSet (unhex k, parse_tval v))
      | ["ac"; o; k] -> leaf o (LAttrCopy (unhex k))
      | ["am"; o; kvs] -> leaf o (LAttrSetMany (List.map (fun kv -> match String.split_on_char '.' kv with
                            | [k; v] -> (unhex k, parse_tval v) | _ -> failwith ("bad pair " ^ kv))
                            (List.filter (fun x -> x <> "") (String.split_on_char ',' kvs))))
      | ["ft"; o] -> leaf o (LFilter PTrue) | ["ff"; o] -> leaf o (LFilter PFalse)
      | ["fc"; o; s] -> leaf o (LFilter (PContains (unhex s))) | ["fh"; o; k] -> leaf o (LFilter (PHas (unhex k)))
      | ["fy"; o; t] -> leaf o (LFilter (PType (mtype_of_int (int_of_string t))))
      | ["mt"; o; tag] -> leaf o (LFmtTag (unhex tag)) | ["ma"; o; tag; k] -> leaf o (LFmtAttr (unhex tag, unhex k))
      | ["mn"; o] -> leaf o LFmtNull | ["me"; o] -> leaf o LFmtEmpty
      | ["s"; o] -> leaf o LSink | ["p"; o] -> leaf o LProbe
      | ["gs"; o; k; v; b] -> leaf o (LGenSet (unhex k, parse_tval v, b = "1"))
      | ["gr"; o; k; b] -> leaf o (LGenRemove (unhex k, b = "1"))
      | ["gf"; o; tag; b] -> leaf o (LGenFmt (unhex tag, b = "1")) | ["gc"; o; b] -> leaf o (LGenClear (b = "1"))
      | ["q"; o; name] -> leaf o (LSeq (unhex name)) | ["d"; o] -> leaf o LDup
      | ["l"; o; t] -> leaf o (LLevel (mtype_of_int (int_of_string t)))
      | ["z"] -> HNull
      | _ -> failwith ("bad token " ^ t)
let split_how t =   (* "(+~2" -> ("(+", BCopyHelper) *)
  match String.index_opt t '~' with
  | Some i when t.[0] = '(' ->
    (String.sub t 0 i, (match String.sub t (i+1) (String.length t - i - 1) with
       | "1" -> BCopyCtor | "2" -> BCopyHelper | "3" -> BCopyEmpty | "4" -> BCopyAssign | _ -> failwith ("bad copy tag " ^ t)))
  | _ -> (t, BFresh)
let bleaf t = match parse_leaf t with HLeaf (o, l) -> BLeaf (o, l) | HNull -> BNull | HPipe _ -> failwith "leaf"
let rec parse_blist toks =   (* tagged handlers, remaining tokens after the closing paren *)
  match toks with
  | [] -> ([], [])
  | ")" :: r -> ([], r)
  | t :: r ->
    let (b, how) = split_how t in
    let (h, r') = match b with
      | "(" | "(-" -> let (hs, r2) = parse_blist r in (BPipe (how, false, hs), r2)
      | "(+" -> let (hs, r2) = parse_blist r in (BPipe (how, true, hs), r2)
      | "(!" -> if how <> BFresh then failwith "a pipeline() child is never a copy" else
                let (hs, r2) = parse_blist r in (BPipe (BFresh, !fluent_scoped, hs), r2)
      | _ -> (bleaf t, r) in
    let (hs, r'') = parse_blist r' in (h :: hs, r'')
let parse_list toks = let (bs, r) = parse_blist toks in (forget_l bs, r)
let b01 b = if b then "1" else "0"
let rec show_tree b hs = List.iter (fun h -> Buffer.add_char b ' '; match h with
  | HNull -> Buffer.add_string b "z"
  | HPipe (sc, c) -> Buffer.add_string b (if sc then "(+" else "(-"); show_tree b c; Buffer.add_string b " )"
  | HLeaf (o, l) -> let o = string_of_int (int_of_nat o) in
    Buffer.add_string b (String.concat ":" (match l with
      | LAttrSet (k, v) -> ["as"; o; hex k; show_tval v] | LAttrCopy k -> ["ac"; o; hex k]
      | LAttrSetMany kvs -> ["am"; o; String.concat "," (List.map (fun (k, v) -> hex k ^ "." ^ show_tval v) kvs)]
      | LFilter PTrue -> ["ft"; o] | LFilter PFalse -> ["ff"; o] | LFilter (PContains s) -> ["fc"; o; hex s]
      | LFilter (PHas k) -> ["fh"; o; hex k] | LFilter (PType t) -> ["fy"; o; string_of_int (int_of_mtype t)]
      | LFmtTag t -> ["mt"; o; hex t] | LFmtAttr (t, k) -> ["ma"; o; hex t; hex k] | LFmtNull -> ["mn"; o] | LFmtEmpty -> ["me"; o]
      | LSink -> ["s"; o] | LProbe -> ["p"; o]
      | LGenSet (k, v, r) -> ["gs"; o; hex k; show_tval v; b01 r] | LGenRemove (k, r) -> ["gr"; o; hex k; b01 r]
      | LGenFmt (t, r) -> ["gf"; o; hex t; b01 r] | LGenClear r -> ["gc"; o; b01 r]
      | LSeq n -> ["q"; o; hex n] | LDup -> ["d"; o] | LLevel t -> ["l"; o; string_of_int (int_of_mtype t)]))) hs
let split_nonempty c s = List.filter (fun x -> x <> "") (String.split_on_char c s)
let parse_attrs s = List.fold_left (fun a kv -> match String.split_on_char '.' kv with
    | [k; v] -> insert (unhex k) (parse_tval v) a | _ -> failwith ("bad attr " ^ kv)) [] (split_nonempty ',' s)
let parse_msg tok = match String.split_on_char ':' tok with
  | [t; text; f; a] ->
    { mt = mtype_of_int (int_of_string t); text = unhex text;
      fmt = (if f = "n" then None else Some (unhex (String.sub f 1 (String.length f - 1)))); mattrs = parse_attrs a }
  | _ -> failwith ("bad message " ^ tok)
let show_val = function VStr s -> "s" ^ hex s | VInt z -> "i" ^ string_of_int (int_of_z z)
  | VBool b -> if b then "b1" else "b0" | VDbl z -> "f" ^ string_of_int (int_of_z z) | VBytes b -> "y" ^ hex2 b
let pipe_of_tok t = let (b, how) = split_how t in match b with
  | "(" | "(-" -> forget (BPipe (how, false, [])) | "(+" -> forget (BPipe (how, true, []))
  | "(!" -> if how <> BFresh then failwith "a pipeline() child is never a copy" else HPipe (!fluent_scoped, [])
  | _ -> parse_leaf t
let class_of_tok = function "A" -> CAttr | "F" -> CFilter | "M" -> CFmt | "S" -> CSink | "P" -> CPipe
  | t -> failwith ("bad class " ^ t)
let parse_step tok =
  if tok.[0] = '@' then
    match String.split_on_char '@' tok with
    | "" :: path :: op :: args ->
      let path = List.map (fun x -> nat_of_int (int_of_string x)) (split_nonempty '/' path) in
      let op = match op, args with
        | "a", [t] -> OAppend (pipe_of_tok t) | "n", [] -> OAppendList [HNull] | "r", [o] -> ORemove (oid o)
        | "c", [] -> OClear | "k", [c] -> OClearClass (class_of_tok c) | "t", [t] -> OSorted (pipe_of_tok t)
        | _ -> failwith ("bad edit " ^ tok) in
      SEdit { e_path = path; e_op = op }
    | _ -> failwith ("bad edit " ^ tok)
  else SMsg (parse_msg tok)
let show_content c =
  let kv = List.sort compare (List.map (fun (k, v) -> hex k ^ "=" ^ show_val v) c.c_attrs) in
  Printf.sprintf "%s.%s.%s.%s" (hex c.c_text) (if c.c_formatted then "F" else "U") (String.concat "," kv) (hex c.c_raw)
let show_event = function
  | EExec (o, r) -> Printf.sprintf "x%d.%s" (int_of_nat o) (b01 r)
  | EDeliver (o, p, c) -> Printf.sprintf "d%d.%s.%s" (int_of_nat o) (if p then "p" else "s") (show_content c)
let parse_val s = let r = String.sub s 1 (String.length s - 1) in
  match s.[0] with
  | 's' -> VStr (unhex r) | 'i' -> VInt (z_of_int (int_of_string r)) | 'b' -> VBool (r = "1")
  | 'f' -> VDbl (z_of_int (int_of_string r)) | 'y' -> VBytes (unhex2 r)
  | _ -> failwith ("unknown attribute value " ^ s)
let parse_content = function
  | [t; f; a; raw] ->
    { c_text = unhex t; c_formatted = (f = "F");
      c_attrs = List.map (fun kv -> let i = String.index kv '=' in
                  (unhex (String.sub kv 0 i), parse_val (String.sub kv (i+1) (String.length kv - i - 1)))) (split_nonempty ',' a);
      c_raw = unhex raw }
  | _ -> failwith "bad content"
let parse_event s =   (* None for the final-content item *)
  match String.split_on_char '.' s with
  | x :: [r] when x.[0] = 'x' -> Some (EExec (oid (String.sub x 1 (String.length x - 1)), r = "1"))
  | d :: k :: rest when d.[0] = 'd' -> Some (EDeliver (oid (String.sub d 1 (String.length d - 1)), k = "p", parse_content rest))
  | "e" :: _ -> None
  | _ -> failwith ("bad event " ^ s)
let () =
  let mode = if Array.length Sys.argv > 1 then Sys.argv.(1) else "model" in
  if mode = "oracle" then fluent_scoped := true;
  try while true do
    let line = input_line stdin in
    (try
      let parts = String.split_on_char '|' line in
      let tree, msgs, traces = match parts with t :: m :: r -> t, m, r | _ -> failwith "bad line" in
      let (root, _) = parse_list (split_nonempty ' ' tree) in
      if mode = "inline" then begin
        let b = Buffer.create 256 in show_tree b (inline root); print_endline (Buffer.contents b)
      end else begin
      let steps = List.map parse_step (split_nonempty ' ' msgs) in
      (* input validation only: every edit must address a pipeline of the MODEL's tree of that moment *)
      let rec addressed t = function
        | [] -> true
        | i :: p -> (match List.nth_opt t (int_of_nat i) with Some (HPipe (_, c)) -> addressed c p | _ -> false) in
      ignore (List.fold_left (fun t s -> match s with
        | SEdit e -> if addressed t e.e_path then apply_edit e t else failwith "edit path does not address a pipeline of the model tree"
        | SMsg _ -> t) root steps);
      if mode = "oracle" then begin
        let trs = List.map (fun tr -> List.filter_map parse_event (split_nonempty ';' tr)) traces in
        print_endline (String.concat "" (List.map (fun n -> string_of_int (int_of_nat n)) (which_steps root steps trs)))
      end else if mode = "after" then begin
        let t = List.fold_left (fun t s -> match s with SEdit e -> apply_edit e t | SMsg _ -> t) root steps in
        let b = Buffer.create 256 in show_tree b t; print_endline (Buffer.contents b)
      end else begin
        let ((_, _), outs) = run_steps_src root [] steps in
        print_endline (String.concat "|" (List.map (fun o ->
          String.concat ";" (List.map show_event o.o_events @ ["e." ^ show_content o.o_final])) outs))
      end end
    with Failure e -> print_endline ("!ERR " ^ e) | Not_found -> print_endline "!ERR parse" | Invalid_argument e -> print_endline ("!ERR " ^ e))
  done with End_of_file -> ()
