(* line driver for the rotation model (C05 C06 C07 C09).  All strings are hex bytes ("-" = empty).
   mode "model" (default): executes op lines on the extracted [step] with the shape translated from
   the source ([src_shape]); after every line prints the directory listing
       <name hex>:<mtime ms>:<content hex>;...        (sorted by name hex)
     case <L> <N> <opts> <gran ms> <base> <suffix> <t0> <tz min east>   fresh directory, sink constructed at t0
     w <payload> [<QtMsgType 0..4, default 4 = info>] | adv <ms> | restart | put <name> <bytes>
     w <raw> <type> <fmt mode> <fmt> [<age>]   long form: fmt mode 0 = no formatted text (the raw text is shown), 1 = the
        formatted text <fmt> is set ("-" = the empty string) and shown: the record is [shown_text raw fmt] (the age of a
        message is a dimension of the harness-only probes, the model dates a record by the wall clock)
   mode "oracle": evaluates the extracted boolean oracles on a snapshot reconstructed by the check
     cfg <L> <N> <opts> <base> <suffix>                   (also clears the accumulated history)
     h <recs>                                             append records to the history, prints "ok"
     s <act_lost> <count_chk> <gone files> <rot files> <act recs> <act mtime> <fexp pairs> <fobs pairs>
        -> four characters 1/0: prop_c05_b prop_c06_b prop_c07_b prop_c09_b  ('-' = not evaluated: a second
           argument C05|C06|C07|C09 restricts the evaluation to that oracle)
     recs  = id.day.bytes,...      files = y_m_d_digits_gz_seeded_mtime_recs/...     pairs = name.bytes,...
   mode "shape": prints 1 if src_shape = std_shape else 0 *)
open Rotate_model
let rec pos_of_int n = if n = 1 then XH else if n land 1 = 1 then XI (pos_of_int (n lsr 1)) else XO (pos_of_int (n lsr 1))
let n_of_int n = if n = 0 then N0 else Npos (pos_of_int n)
let rec int_of_pos = function XH -> 1 | XO p -> 2 * int_of_pos p | XI p -> 2 * int_of_pos p + 1
let int_of_n = function N0 -> 0 | Npos p -> int_of_pos p
let z_of_int n = if n = 0 then Z0 else if n > 0 then Zpos (pos_of_int n) else Zneg (pos_of_int (-n))
let int_of_z = function Z0 -> 0 | Zpos p -> int_of_pos p | Zneg p -> - (int_of_pos p)
let rec nat_of_int n = if n <= 0 then O else S (nat_of_int (n - 1))
let tbl = Array.init 256 n_of_int
let unhex h = if h = "-" then [] else
  let n = String.length h / 2 in
  let r = ref [] in
  for i = n - 1 downto 0 do r := tbl.(int_of_string ("0x" ^ String.sub h (2 * i) 2)) :: !r done; !r
let hex l = let b = Buffer.create 64 in List.iter (fun c -> Buffer.add_string b (Printf.sprintf "%02x" (int_of_n c))) l;
  if Buffer.length b = 0 then "-" else Buffer.contents b
(* QtMsgType: QtDebugMsg 0, QtWarningMsg 1, QtCriticalMsg 2, QtFatalMsg 3, QtInfoMsg 4 *)
let mtype_of = function 0 -> TDebug | 1 -> TWarning | 2 -> TCritical | 3 -> TFatal | 4 -> TInfo | _ -> failwith "message type"
let gran_of = function 1 -> G1ms | 1000 -> G1s | 2000 -> G2s | _ -> failwith "granularity"
let mkcfg l n o g b s tz = { cL = z_of_int l; cN = z_of_int n; startup = o land 1 <> 0; daily = o land 2 <> 0;
                          compress = o land 4 <> 0; cgran = gran_of g; cbase = unhex b; csuffix = unhex s; ctz = z_of_int tz }
let dump c w =
  let items = List.map (fun ((nm, bytes), mt) -> Printf.sprintf "%s:%d:%s" (hex nm) (int_of_z mt) (hex bytes)) (listing c w) in
  print_endline (String.concat ";" (List.sort compare items))
let split ch s = if s = "-" || s = "" then [] else String.split_on_char ch s
let recs s = List.map (fun it -> match String.split_on_char '.' it with
  | [i; d; b] -> { rbytes = unhex b; rid = nat_of_int (int_of_string i); rday = z_of_int (int_of_string d) }
  | _ -> failwith ("rec " ^ it)) (split ',' s)
let files s = List.map (fun it -> match String.split_on_char '_' it with
  | [y; m; d; dg; gz; sd; mt; rs] ->
    { fday = Z0; fymd = ((z_of_int (int_of_string y), z_of_int (int_of_string m)), z_of_int (int_of_string d));
      fidx = to_int (unhex dg); fdig = unhex dg; fgz = (gz = "1"); fcont = recs rs; fmt = z_of_int (int_of_string mt);
      fseeded = (sd = "1") }
  | _ -> failwith ("file " ^ it)) (split '/' s)
let pairs s = List.map (fun it -> match String.split_on_char '.' it with
  | [n; b] -> (unhex n, unhex b) | _ -> failwith ("pair " ^ it)) (split ',' s)
let () =
  let mode = if Array.length Sys.argv > 1 then Sys.argv.(1) else "model" in
  let only = if Array.length Sys.argv > 2 then Sys.argv.(2) else "" in
  if mode = "shape" then (print_endline (if shape_eqb src_shape std_shape then "1" else "0"); exit 0);
  let cfg = ref (mkcfg 0 0 0 1 "-" "-" 0) in
  let w = ref (w0 !cfg Z0) in
  let hist = ref [] in
  try while true do
    let line = String.trim (input_line stdin) in
    let toks = String.split_on_char ' ' line in
    if mode = "oracle" then begin
      match toks with
      | ["cfg"; l; n; o; b; s] -> cfg := mkcfg (int_of_string l) (int_of_string n) (int_of_string o) 1 b s 0; hist := []; print_endline "ok"
      | ["h"; rs] -> hist := !hist @ recs rs; print_endline "ok"
      | ["s"; lost; chk; g; r; a; amt; fe; fo] ->
        let sn = { s_hist = !hist; s_gone = files g; s_rot = files r; s_act = recs a; s_act_mt = z_of_int (int_of_string amt);
                   s_act_lost = (lost = "1"); s_count_chk = (chk = "1"); s_fexp = pairs fe; s_fobs = pairs fo } in
        let bit k f = if only <> "" && only <> k then '-' else if f () then '1' else '0' in
        Printf.printf "%c%c%c%c\n" (bit "C05" (fun () -> prop_c05_b std_shape !cfg sn)) (bit "C06" (fun () -> prop_c06_b std_shape !cfg sn))
          (bit "C07" (fun () -> prop_c07_b std_shape !cfg sn)) (bit "C09" (fun () -> prop_c09_b std_shape !cfg sn))
      | _ -> print_endline "?"
    end else begin
      (match toks with
       | "case" :: l :: n :: o :: g :: b :: s :: t0 :: tz :: _ ->      (* further fields (codec, quiet) concern the harness only *)
         cfg := mkcfg (int_of_string l) (int_of_string n) (int_of_string o) (int_of_string g) b s (int_of_string tz);
         w := w0 !cfg (z_of_int (int_of_string t0))
       | ["w"; p] -> w := step src_shape !cfg !w (Write (TInfo, unhex p))
       | ["w"; p; ty] -> w := step src_shape !cfg !w (Write (mtype_of (int_of_string ty), unhex p))
       | "w" :: p :: ty :: mode :: f :: _ ->
         let fmt = if mode = "1" then Some (unhex f) else None in
         w := step src_shape !cfg !w (writeMsg (mtype_of (int_of_string ty)) (unhex p) fmt)
       | ["adv"; d] -> w := step src_shape !cfg !w (Advance (z_of_int (int_of_string d)))
       | ["restart"] -> w := step src_shape !cfg !w Restart
       | ["put"; n; b] -> w := step src_shape !cfg !w (PutForeign (unhex n, unhex b))
       | _ -> ());
      dump !cfg !w
    end
  done with End_of_file -> ()
