(* line driver for the C12 model.  One case per line, fields separated by one space, strings as
   hex UTF-16 code units (4 hex digits per unit, "-" = empty, "~" = null pointer = empty):
     pat type msg cat file fn fnclean line tid ptr nattr (key tval)* ntf (fmt rendered)* [implout [N|V [seq]]]
   seq = position of the message in a sequence formatted by ONE formatter object: 0 = the object is constructed
   (Pattern_model.construct, with a non-zero left-over pending count: what the harness's poison call would leave
   behind if format() did not reset the counter), k > 0 = the object returned by the previous call is used again;
   the formatted text is then the result of the extracted object machine (call_model), not of format_pattern
   (Properties_C12.C12_format_is_a_function_of_pattern_and_message: they are equal).
   type = Qt enum number; line = decimal int; tid/ptr = binary digits, MSB first;
   tval = s<hex> | i<decimal> | b0 | b1;  (fmt, rendered) = the environment for %{time fmt}.
   mode "check" (default): prints  <format_pattern hex> <oracle on implout: 1|0> <tokens> <active removing tokens> <documented reading hex> <1 if a time format was not in the environment> <N|V: the result must be a null / non-null string>
   mode "model":           prints  <format_pattern hex>
   mode "inband":          prints  <output of the pre-repair in-band evaluator with marker U+200B>
   mode "tokens":          prints  a rendering of the token list *)
open Pattern_model
let rec pos_of_int n = if n = 1 then XH else if n land 1 = 1 then XI (pos_of_int (n lsr 1)) else XO (pos_of_int (n lsr 1))
let n_of_int n = if n = 0 then N0 else Npos (pos_of_int n)
let z_of_int n = if n = 0 then Z0 else if n > 0 then Zpos (pos_of_int n) else Zneg (pos_of_int (-n))
let rec int_of_pos = function XH -> 1 | XO p -> 2 * int_of_pos p | XI p -> 2 * int_of_pos p + 1
let int_of_n = function N0 -> 0 | Npos p -> int_of_pos p
let rec int_of_nat = function O -> 0 | S n -> 1 + int_of_nat n
let unhex s = if s = "-" || s = "~" then [] else
  List.init (String.length s / 4) (fun i -> n_of_int (int_of_string ("0x" ^ String.sub s (4*i) 4)))
let hex l = if l = [] then "-" else (let b = Buffer.create 256 in
  List.iter (fun c -> Buffer.add_string b (Printf.sprintf "%04x" (int_of_n c))) l; Buffer.contents b)
let n_of_bits s =
  let r = ref N0 in
  String.iter (fun ch -> let b = (ch = '1') in
    r := (match !r with N0 -> if b then Npos XH else N0 | Npos p -> Npos (if b then XI p else XO p))) s; !r
let mtype_of_int = function 1 -> Warning | 2 -> Critical | 3 -> Fatal | 4 -> Info | _ -> Debug
let aval s = match s.[0] with
  | 's' -> AStr (unhex (String.sub s 1 (String.length s - 1)))
  | 'i' -> AInt (z_of_int (int_of_string (String.sub s 1 (String.length s - 1))))
  | _ -> ABool (s = "b1")
let rec qeq a b = match a, b with [], [] -> true | x :: a', y :: b' -> int_of_n x = int_of_n y && qeq a' b' | _ -> false
let env_miss = ref false
let missing_env = List.map n_of_int [0xFFFF; 0x65; 0x6e; 0x76; 0xFFFF]   (* marks a time format the environment did not supply *)
let show_spec = function None -> "" | Some s ->
  Printf.sprintf ":fill=%04x,align=%s,width=%d,mode=%s" (int_of_n s.fill)
    (match s.al with None -> "none" | Some ALeft -> "<" | Some ARight -> ">" | Some ACenter -> "^") (int_of_n s.width)
    (match s.mode with MNone -> "pad" | MTrunc -> "trunc+pad" | MOnly -> "trunc")
let show_tok t =
  let k = match t.kind with
    | KLit x -> "lit(" ^ hex x ^ ")" | KMessage -> "message" | KType -> "type" | KLine -> "line" | KFile -> "file"
    | KShortFile b -> "shortfile(" ^ hex b ^ ")" | KFunction -> "function" | KFunc -> "func" | KCategory -> "category"
    | KTime f -> "time(" ^ hex f ^ ")" | KThreadId -> "threadid" | KQThreadPtr -> "qthreadptr"
    | KAttr (n, o, rb, ra) -> Printf.sprintf "attr(%s%s)" (hex n) (if o then Printf.sprintf "?%d,%d" (int_of_n rb) (int_of_n ra) else "") in
  let c = match t.cond with None -> "" | Some Debug -> "@debug" | Some Warning -> "@warning" | Some Critical -> "@critical"
    | Some Fatal -> "@fatal" | Some Info -> "@info" in
  k ^ show_spec t.tspec ^ c
let kept : (qstr * fobj) option ref = ref None
let () =
  let mode = if Array.length Sys.argv > 1 then Sys.argv.(1) else "check" in
  try while true do
    let line = input_line stdin in
    (try
      env_miss := false;
      let f = Array.of_list (String.split_on_char ' ' line) in
      let na = int_of_string f.(10) in
      let attrs = List.init na (fun i -> (unhex f.(11 + 2*i), aval f.(12 + 2*i))) in
      let b = 11 + 2*na in
      let nt = int_of_string f.(b) in
      let env = List.init nt (fun i -> (unhex f.(b + 1 + 2*i), unhex f.(b + 2 + 2*i))) in
      let rest = b + 1 + 2*nt in
      let m = { mt = mtype_of_int (int_of_string f.(1)); text = unhex f.(2); mcat = unhex f.(3); mfile = unhex f.(4);
                mfunc = unhex f.(5); mfunc_clean = unhex f.(6); mline = z_of_int (int_of_string f.(7));
                mtid = n_of_bits f.(8); mptr = n_of_bits f.(9);
                mtime = (fun fmt -> try snd (List.find (fun (k, _) -> qeq k fmt) env) with Not_found -> (env_miss := true; missing_env));
                attrs = attrs } in
      let pat = unhex f.(0) in
      match mode with
      | "model" -> print_endline (hex (format_pattern pat m))
      | "inband" -> print_endline (hex (inband_pattern (n_of_int 0x200B) pat m))
      | "tokens" -> print_endline (String.concat " " (List.map show_tok (parse_pattern pat)))
      | _ ->
        let o = if Array.length f > rest then unhex f.(rest) else [] in
        let o_null = Array.length f > rest + 1 && f.(rest + 1) = "N" in
        let msg_null = (f.(2) = "~") in
        let seq = if Array.length f > rest + 2 then int_of_string f.(rest + 2) else -1 in
        let text =
          if seq < 0 then format_pattern pat m
          else begin
            let o = (match !kept with
              | Some (p0, o) when seq > 0 && qeq p0 pat -> o
              | _ -> construct pat (n_of_int 3)) in
            let (x, o') = call_model o m in
            kept := Some (pat, o'); x
          end in
        let a = hex text in
        let v = if oracle_pattern_null pat m msg_null o o_null then "1" else "0" in
        let full = hex (full_text pat m) in
        print_endline (String.concat " " [a; v; string_of_int (int_of_nat (n_tokens pat)); string_of_int (int_of_nat (n_removing pat m));
                                           full; (if !env_miss then "1" else "0");
                                           (if result_is_null (parse_pattern pat) msg_null then "N" else "V")])
    with Failure _ | Invalid_argument _ -> print_endline "?")
  done with End_of_file -> ()
