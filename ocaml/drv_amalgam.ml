(* driver for the C20 model: m_amalgam <repo root> <output file>
   loads every regular file below <repo root>/src into the abstract tree (path components relative to
   the repository root, bytes), runs the extracted generator model and writes the header it produces
   to <output file>.  stdout (one item per line, paths hex-encoded):
     files <n>            number of files loaded
     source <hex path>    the root sources in the order main() processes them
     emitted <hex path>   every file whose content was scanned, in order
     included <hex path>  the include set, in order of inclusion
     starved <0|1>        1 if the nesting fuel of the model ran out (proved impossible: C20_fuel_sufficient)
     directives <n>       directives the expansion stood on; unresolved <n>: those kept verbatim
     bytes <n>            size of the generated header *)
open Amalgam_model
let rec pos_of_int n = if n = 1 then XH else if n land 1 = 1 then XI (pos_of_int (n lsr 1)) else XO (pos_of_int (n lsr 1))
let n_of_int n = if n = 0 then N0 else Npos (pos_of_int n)
let rec int_of_pos = function XH -> 1 | XO p -> 2 * int_of_pos p | XI p -> 2 * int_of_pos p + 1
let int_of_n = function N0 -> 0 | Npos p -> int_of_pos p
let tbl = Array.init 256 n_of_int
let str s = let r = ref [] in for i = String.length s - 1 downto 0 do r := tbl.(Char.code s.[i]) :: !r done; !r
let read f = let ic = open_in_bin f in let n = in_channel_length ic in let s = really_input_string ic n in close_in ic; s
let rec walk dir rel acc =
  Array.fold_left (fun acc e ->
    let full = Filename.concat dir e and r = rel ^ "/" ^ e in
    if (try Sys.is_directory full with Sys_error _ -> false) then walk full r acc
    else if Sys.file_exists full then (r, full) :: acc else acc) acc (Sys.readdir dir)
let hex_of_path (p : n list list) =
  let b = Buffer.create 64 in
  List.iteri (fun i c -> if i > 0 then Buffer.add_string b "2f";
    List.iter (fun ch -> Buffer.add_string b (Printf.sprintf "%02x" (int_of_n ch))) c) p;
  Buffer.contents b
let () =
  let root = Sys.argv.(1) in
  let files = walk (Filename.concat root "src") "src" [] in
  let comps r = List.map str (String.split_on_char '/' r) in
  let tree = List.map (fun (r, full) -> (comps r, str (read full))) files in
  Printf.printf "files %d\n" (List.length tree);
  List.iter (fun p -> Printf.printf "source %s\n" (hex_of_path p)) (sources tree);
  let (code_rev, g) = expand tree in
  let out = finish code_rev in
  List.iter (fun p -> Printf.printf "emitted %s\n" (hex_of_path p)) (List.rev (emitted g));
  List.iter (fun p -> Printf.printf "included %s\n" (hex_of_path p)) (List.rev (included g));
  Printf.printf "starved %d\n" (if starved g then 1 else 0);
  Printf.printf "directives %d\n" (List.length (met g));
  Printf.printf "unresolved %d\n" (List.length (List.filter (fun (_, r) -> r = None) (met g)));
  let b = Buffer.create 200000 in
  List.iter (fun c -> Buffer.add_char b (Char.chr (int_of_n c land 255))) out;
  let oc = open_out_bin Sys.argv.(2) in
  Buffer.output_buffer oc b; close_out oc;
  Printf.printf "bytes %d\n" (Buffer.length b)
