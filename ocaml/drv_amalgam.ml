(* driver for the C20 model: m_amalgam <repo root> <output file>
   loads every regular file below <repo root>/src into the abstract tree (path components relative to
   the repository root, bytes), runs the extracted generator model and writes the header it produces
   to <output file>.  stdout (one item per line, paths hex-encoded):
     files <n>            number of files loaded
     source <hex path>    the root sources in the order main() processes them
     emitted <hex path>   every file whose content was scanned, in order
     included <hex path>  the include set, in order of inclusion
     starved <0|1>        1 if the nesting fuel of the model ran out (proved impossible: C20_fuel_sufficient)
     directives <n>       directives the expansion stood on; unresolved <n>: those kept verbatim
     comments_ok <0|1>    [includes_outside_comments tree] (AmalgamCommentDefs); include_in_comment <hex path>: the files that break it
     bytes <n>            size of the generated header *)
open Amalgam_model
let rec pos_of_int n = if n = 1 then XH else if n land 1 = 1 then XI (pos_of_int (n lsr 1)) else XO (pos_of_int (n lsr 1))
let n_of_int n = if n = 0 then N0 else Npos (pos_of_int n)
let rec int_of_pos = function XH -> 1 | XO p -> 2 * int_of_pos p | XI p -> 2 * int_of_pos p + 1
let int_of_n = function N0 -> 0 | Npos p -> int_of_pos p
let tbl = Array.init 256 n_of_int
let str s = let r = ref [] in for i = String.length s - 1 downto 0 do r := tbl.(Char.code s.[i]) :: !r done; !r
let read f = let ic = open_in_bin f in let n = in_channel_length ic in let s = really_input_string ic n in close_in ic; s
let rec walk dir rel acc =
  Array.fold_left (fun acc e ->
    let full = Filename.concat dir e and r = rel ^ "/" ^ e in
    if (try Sys.is_directory full with Sys_error _ -> false) then walk full r acc
    else if Sys.file_exists full then (r, full) :: acc else acc) acc (Sys.readdir dir)
let hex_of_path (p : n list list) =
  let b = Buffer.create 64 in
  List.iteri (fun i c -> if i > 0 then Buffer.add_string b "2f";
    List.iter (fun ch -> Buffer.add_string b (Printf.sprintf "%02x" (int_of_n ch))) c) p;
  Buffer.contents b

(* ---- second mode:  m_amalgam cond  < protocol on stdin   (model of conditional groups, AmalgamCondDefs)
     K <id> ...                 ids of the known groups
     F <n>                      the next file (numbered 0, 1, ... in order), followed by n lines:
        I <id> <cond>  E <id> <cond>  L <id>  N  D <macro>  U <macro>  C <file>  O
        (if/ifdef/ifndef, elif, else, endif, define, undef, include, pragma once)
        <cond> in prefix form: d<macro>  ! c  & c c  | c c  1  0  o<k>:<macro>.<macro>...
     M                          -> "M <macro> ..."  the macros mentioned by the groups outside K
     R <root> <env> <opq>       -> "R <bad> <too_deep> <id> ..."   groups entered, in order
     Q <root> <env1> <env2> <opq> -> "Q <0|1>"        [confined]
     <env>, <opq>: comma separated numbers or "-"  (opq: the opaque conditions that are true) *)
let rec nat_of_int n = if n <= 0 then O else S (nat_of_int (n - 1))
let nums s = if s = "-" || s = "" then [] else List.map (fun x -> n_of_int (int_of_string x)) (String.split_on_char ',' s)
let rec parse_cond toks =
  match toks with
  | [] -> failwith "cond: empty"
  | t :: r ->
    if t = "!" then let (c, r') = parse_cond r in (CNot c, r')
    else if t = "&" then let (a, r1) = parse_cond r in let (b, r2) = parse_cond r1 in (CAnd (a, b), r2)
    else if t = "|" then let (a, r1) = parse_cond r in let (b, r2) = parse_cond r1 in (COr (a, b), r2)
    else if t = "1" then (CLit true, r)
    else if t = "0" then (CLit false, r)
    else if t.[0] = 'd' then (CDef (n_of_int (int_of_string (String.sub t 1 (String.length t - 1)))), r)
    else if t.[0] = 'o' then begin
      match String.split_on_char ':' (String.sub t 1 (String.length t - 1)) with
      | [k; ms] ->
        let ml = if ms = "" then [] else List.map (fun x -> n_of_int (int_of_string x)) (String.split_on_char '.' ms) in
        (COpq (n_of_int (int_of_string k), ml), r)
      | _ -> failwith ("cond: bad opaque token " ^ t)
    end
    else failwith ("cond: bad token " ^ t)
let cond_of toks = match parse_cond toks with (c, []) -> c | _ -> failwith "cond: trailing tokens"
let parse_line l =
  match String.split_on_char ' ' (String.trim l) with
  | "I" :: id :: c -> LIf (n_of_int (int_of_string id), cond_of c)
  | "E" :: id :: c -> LElif (n_of_int (int_of_string id), cond_of c)
  | ["L"; id] -> LElse (n_of_int (int_of_string id))
  | ["N"] -> LEndif
  | ["D"; m] -> LDefine (n_of_int (int_of_string m))
  | ["U"; m] -> LUndef (n_of_int (int_of_string m))
  | ["C"; f] -> LInclude (nat_of_int (int_of_string f))
  | ["O"] -> LOnce
  | _ -> failwith ("line: " ^ l)
let cond_mode () =
  let k = ref [] and files = ref [] in
  let opq_of s = let l = List.map int_of_n (nums s) in fun x -> List.mem (int_of_n x) l in
  (try
    while true do
      let l = input_line stdin in
      match String.split_on_char ' ' (String.trim l) with
      | "K" :: ids -> k := List.map (fun x -> n_of_int (int_of_string x)) (List.filter (fun x -> x <> "") ids)
      | ["F"; n] ->
        let n = int_of_string n in
        let ls = ref [] in
        for _ = 1 to n do ls := parse_line (input_line stdin) :: !ls done;
        files := List.rev !ls :: !files
      | ["M"] ->
        let fs = List.rev !files in
        print_string "M"; List.iter (fun m -> Printf.printf " %d" (int_of_n m)) (mentioned_nonk !k fs); print_newline ()
      | ["R"; root; e; o] ->
        let fs = List.rev !files in
        let s = run_tu !k (opq_of o) fs (nat_of_int (int_of_string root)) (nums e) in
        Printf.printf "R %d %d" (if s.bad then 1 else 0) (if s.too_deep then 1 else 0);
        List.iter (fun id -> Printf.printf " %d" (int_of_n id)) (List.rev s.taken); print_newline ()
      | ["Q"; root; e1; e2; o] ->
        let fs = List.rev !files in
        Printf.printf "Q %d\n" (if confined !k (opq_of o) fs (nat_of_int (int_of_string root)) (nums e1) (nums e2) then 1 else 0)
      | [""] -> ()
      | _ -> failwith ("protocol: " ^ l)
    done
  with End_of_file -> ())

let () =
  if Array.length Sys.argv > 1 && Sys.argv.(1) = "cond" then (cond_mode (); exit 0);
  let root = Sys.argv.(1) in
  let files = walk (Filename.concat root "src") "src" [] in
  let comps r = List.map str (String.split_on_char '/' r) in
  let tree = List.map (fun (r, full) -> (comps r, str (read full))) files in
  Printf.printf "files %d\n" (List.length tree);
  List.iter (fun p -> Printf.printf "source %s\n" (hex_of_path p)) (sources tree);
  let (code_rev, g) = expand tree in
  let out = finish code_rev in
  List.iter (fun p -> Printf.printf "emitted %s\n" (hex_of_path p)) (List.rev (emitted g));
  List.iter (fun p -> Printf.printf "included %s\n" (hex_of_path p)) (List.rev (included g));
  Printf.printf "starved %d\n" (if starved g then 1 else 0);
  Printf.printf "directives %d\n" (List.length (met g));
  Printf.printf "unresolved %d\n" (List.length (List.filter (fun (_, r) -> r = None) (met g)));
  Printf.printf "comments_ok %d\n" (if includes_outside_comments tree then 1 else 0);
  List.iter (fun p -> Printf.printf "include_in_comment %s\n" (hex_of_path p)) (files_with_include_in_comment tree);
  let b = Buffer.create 200000 in
  List.iter (fun c -> Buffer.add_char b (Char.chr (int_of_n c land 255))) out;
  let oc = open_out_bin Sys.argv.(2) in
  Buffer.output_buffer oc b; close_out oc;
  Printf.printf "bytes %d\n" (Buffer.length b)
