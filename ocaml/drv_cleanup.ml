(* line driver for the checked model of FunctionToken::cleanup (C14).
   input : one signature per line as hex bytes ("-" = empty, "~" = the NULL POINTER -> cleanup_ptr None)
   mode "model" (default): prints "ok <hex>" (the model's result) or "FAULT" (the checked model
                           returned None: an index out of range or a loop out of fuel)
   mode "oracle": each line is "<hex input> <hex implementation output>"; prints 1/0 = prop_c14_func_b *)
open Cleanup_model
let rec pos_of_int n = if n = 1 then XH else if n land 1 = 1 then XI (pos_of_int (n lsr 1)) else XO (pos_of_int (n lsr 1))
let n_of_int n = if n = 0 then N0 else Npos (pos_of_int n)
let rec int_of_pos = function XH -> 1 | XO p -> 2 * int_of_pos p | XI p -> 2 * int_of_pos p + 1
let int_of_n = function N0 -> 0 | Npos p -> int_of_pos p
let unhex s = if s = "-" || s = "" then [] else List.init (String.length s / 2) (fun i -> n_of_int (int_of_string ("0x" ^ String.sub s (2*i) 2)))
let hex l = let b = Buffer.create 64 in List.iter (fun c -> Buffer.add_string b (Printf.sprintf "%02x" (int_of_n c))) l; Buffer.contents b
let () =
  let mode = if Array.length Sys.argv > 1 then Sys.argv.(1) else "model" in
  try while true do
    let line = input_line stdin in
    if mode = "oracle" then begin
      match String.split_on_char ' ' line with
      | [a; b] -> print_endline (if prop_c14_func_b (unhex a) (unhex b) then "1" else "0")
      | _ -> print_endline "0"
    end else
      match (if line = "~" then cleanup_ptr None else cleanup_ptr (Some (unhex line))) with
      | Some r -> print_endline ("ok " ^ hex r)
      | None -> print_endline "FAULT"
  done with End_of_file -> ()
