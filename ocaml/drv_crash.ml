(* line driver for the C10 model.
   directory syntax:  entries separated by ';', each  <name>=<c|i>:<id>.<size>,<id>.<size>,...
                      name = A (active) | P<i> (rotated plain) | G<i> (rotated .gz); c = intact, i = not
   commands (fields separated by ' | '):
     H <L> <N> <opts> <fault> | <dir0> | <id>.<size>,...
        fault = - or <event>:<slot>, slot = r (rename) c (create .gz) u (unlink original) v<k> (k-th victim) o (open active)
        -> line 1: the step list  "<write no>:<step><+|->" ...  with steps
             X close-active, R<i> rename, Z<i> create-gz, W<i> write-gz, K<i> close-gz, U<i> unlink-original,
             V<name> unlink-victim, O<a|t> open-active (append|truncate), A<id> append
           then one line per crash point k = 0..length:  "<k> | <directory after the first k steps> | <ids retired so far>"
           then "END"
     P <pre dir> | <gone ids: id.size,...> | <post dir>   -> prop_c10_b: 1 | 0   (and 'W' prefix when a directory has duplicate names)
     C  -> src_goodb src_crash *)
open Crash_model
let rec nat_of_int n = if n <= 0 then O else S (nat_of_int (n - 1))
let rec int_of_nat = function O -> 0 | S n -> 1 + int_of_nat n
let rec pos_of_int n = if n = 1 then XH else if n land 1 = 1 then XI (pos_of_int (n lsr 1)) else XO (pos_of_int (n lsr 1))
let z_of_int n = if n = 0 then Z0 else if n > 0 then Zpos (pos_of_int n) else Zneg (pos_of_int (-n))
let split_on s sep =   (* split on a multi-character separator *)
  let n = String.length sep in
  let rec go i start acc =
    if i + n > String.length s then List.rev (String.sub s start (String.length s - start) :: acc)
    else if String.sub s i n = sep then go (i + n) (i + n) (String.sub s start (i - start) :: acc)
    else go (i + 1) start acc in
  go 0 0 []
let parse_rec t = match String.split_on_char '.' t with
  | [a; b] -> (nat_of_int (int_of_string a), nat_of_int (int_of_string b))
  | _ -> failwith ("record " ^ t)
let parse_recs s = List.filter_map (fun t -> if t = "" then None else Some (parse_rec t)) (String.split_on_char ',' (String.trim s))
let parse_name t =
  if t = "A" then Active else
  let i = nat_of_int (int_of_string (String.sub t 1 (String.length t - 1))) in
  if t.[0] = 'P' then Rot i else RotGz i
let parse_dir s =
  List.filter_map (fun e -> let e = String.trim e in if e = "" then None else
    match String.index_opt e '=' with
    | None -> failwith ("entry " ^ e)
    | Some k -> let nm = String.sub e 0 k and rest = String.sub e (k + 1) (String.length e - k - 1) in
      let c = rest.[0] = 'c' in
      Some (parse_name nm, { recs = parse_recs (String.sub rest 2 (String.length rest - 2)); complete = c }))
    (String.split_on_char ';' s)
let show_name = function Active -> "A" | Rot i -> "P" ^ string_of_int (int_of_nat i) | RotGz i -> "G" ^ string_of_int (int_of_nat i)
let show_rec (a, b) = Printf.sprintf "%d.%d" (int_of_nat a) (int_of_nat b)
let show_dir d =
  let es = List.map (fun (n, f) -> (show_name n, Printf.sprintf "%s=%s:%s" (show_name n) (if f.complete then "c" else "i")
                                      (String.concat "," (List.map show_rec f.recs)))) d in
  String.concat ";" (List.map snd (List.sort compare es))
let show_step = function
  | SCloseActive -> "X" | SRename i -> "R" ^ string_of_int (int_of_nat i) | SCreateGz i -> "Z" ^ string_of_int (int_of_nat i)
  | SWriteGz i -> "W" ^ string_of_int (int_of_nat i) | SCloseGz i -> "K" ^ string_of_int (int_of_nat i)
  | SUnlinkPlain i -> "U" ^ string_of_int (int_of_nat i) | SUnlinkVictim n -> "V" ^ show_name n
  | SOpenActive a -> if a then "Oa" else "Ot" | SAppend (a, _) -> "A" ^ string_of_int (int_of_nat a)
let parse_fault t =
  let t = String.trim t in
  if t = "-" then None else
  match String.split_on_char ':' t with
  | [e; s] -> let sl = (match s.[0] with 'r' -> FRename | 'c' -> FCreateGz | 'u' -> FUnlinkPlain | 'o' -> FOpenActive
                                        | 'v' -> FUnlinkVictim (nat_of_int (int_of_string (String.sub s 1 (String.length s - 1))))
                                        | _ -> failwith "slot") in
    Some (nat_of_int (int_of_string e), sl)
  | _ -> failwith "fault"
let () =
  try while true do
    let line = input_line stdin in
    (try
      let fields = split_on line " | " in
      (match fields with
       | [h; d0; rs] when String.length h > 0 && h.[0] = 'H' ->
         (match String.split_on_char ' ' (String.trim h) with
          | [_; l; n; o; f] ->
            let o = int_of_string o in
            let c = { cL = z_of_int (int_of_string l); cN = z_of_int (int_of_string n); cCompress = o land 4 <> 0; cStartup = o land 1 <> 0 } in
            let d0 = parse_dir d0 in
            let tr = m_history c (parse_fault f) d0 (parse_recs rs) in
            print_endline (String.concat " " (List.map (fun (w, (s, ok)) ->
              Printf.sprintf "%d:%s%s" (int_of_nat w) (show_step s) (if ok then "+" else "-")) tr));
            let steps = List.map snd tr in
            let rec go k d gone = function
              | [] -> Printf.printf "%d | %s | %s\n" k (show_dir d) (String.concat "," (List.map show_rec gone))
              | (s, ok) :: t ->
                Printf.printf "%d | %s | %s\n" k (show_dir d) (String.concat "," (List.map show_rec gone));
                let g = retired d [(s, ok)] in
                go (k + 1) (apply_step d s ok) (gone @ g) t in
            go 0 d0 [] steps;
            print_endline "END"
          | _ -> print_endline "?")
       | [p; gone; post] when String.length p > 0 && p.[0] = 'P' ->
         let pre = parse_dir (String.sub p 1 (String.length p - 1)) and post = parse_dir post in
         let wf = wf_fsb pre && wf_fsb post in
         Printf.printf "%s%d\n" (if wf then "" else "W") (if prop_c10_b pre (parse_recs gone) post then 1 else 0)
       | [c] when String.trim c = "C" -> print_endline (if m_src_good then "1" else "0")
       | _ -> print_endline "?")
    with Failure m -> print_endline ("ERR " ^ m) | Invalid_argument m -> print_endline ("ERR " ^ m));
    flush stdout
  done with End_of_file -> ()
