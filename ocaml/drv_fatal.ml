(* line driver for the C11 model.
   mode "model" (default): one scenario per line, blank-separated fields
       <tree> <end> <msgs> <fatalsize>
     tree : F plain FileSink | R / r RotatingFileSink with a size limit (asks size() before each write)
            | D RotatingFileSink without size limit | o any other handler | ( ... ) nested pipeline
     end  : fatal (qFatal after the messages, then abort) | kill (SIGKILL after the messages)
     msgs : - or comma separated <t><size>[*<count>], t in d w c i (qDebug qWarning qCritical qInfo);
            size = bytes of the message text; a record is the text plus a newline
     output: for every file sink in depth-first order the record ids in its file at process death,
             as ranges a-b joined by ',', sinks separated by ';'
   mode "oracle": line = <k>;<ranges of file 1>;<ranges of file 2>;...  -> 1 iff every file holds
       exactly the records 0..k (prop_c11_b)
   mode "cfg": prints cfg_goodb and flush_on_fatal of the translated source *)
open Fatal_model
let rec pos_of_int n = if n = 1 then XH else if n land 1 = 1 then XI (pos_of_int (n lsr 1)) else XO (pos_of_int (n lsr 1))
let n_of_int n = if n <= 0 then N0 else Npos (pos_of_int n)
let rec int_of_pos = function XH -> 1 | XO p -> 2 * int_of_pos p | XI p -> 2 * int_of_pos p + 1
let int_of_n = function N0 -> 0 | Npos p -> int_of_pos p
let parse_tree (s : string) : tree list =
  let next = ref 0 in
  let pos = ref 0 in
  let rec items () =
    if !pos >= String.length s then [] else
    match s.[!pos] with
    | ')' -> []
    | c -> incr pos;
      let it = (match c with
        | 'F' | 'D' -> let i = !next in incr next; TSink (fresh (n_of_int i) false)
        | 'R' | 'r' -> let i = !next in incr next; TSink (fresh (n_of_int i) true)
        | '(' -> let l = items () in (if !pos < String.length s && s.[!pos] = ')' then incr pos); TPipe l
        | _ -> TOther) in
      it :: items () in
  items ()
let ty_of = function 'd' -> Debug | 'w' -> Warning | 'c' -> Critical | _ -> Info
let parse_msgs (s : string) : (mtype * int) list =
  if s = "-" || s = "" then [] else
  List.concat_map (fun it ->
    let t = ty_of it.[0] in
    let body = String.sub it 1 (String.length it - 1) in
    match String.split_on_char '*' body with
    | [sz; cnt] -> List.init (int_of_string cnt) (fun _ -> (t, int_of_string sz))
    | _ -> [(t, int_of_string body)]) (String.split_on_char ',' s)
let ranges (l : int list) : string =
  let b = Buffer.create 64 in
  let flush_run a z = (if Buffer.length b > 0 then Buffer.add_char b ',');
    if a = z then Buffer.add_string b (string_of_int a) else Buffer.add_string b (Printf.sprintf "%d-%d" a z) in
  let rec go st prev = function
    | [] -> flush_run st prev
    | x :: r -> if x = prev + 1 then go st x r else (flush_run st prev; go x x r) in
  (match l with [] -> () | x :: r -> go x x r); Buffer.contents b
let unranges (s : string) : int list =
  if s = "" then [] else
  List.concat_map (fun it -> match String.split_on_char '-' it with
    | [a; z] -> let a = int_of_string a and z = int_of_string z in List.init (max 0 (z - a + 1)) (fun i -> a + i)
    | _ -> [int_of_string it]) (String.split_on_char ',' s)
let () =
  let mode = if Array.length Sys.argv > 1 then Sys.argv.(1) else "model" in
  if mode = "cfg" then Printf.printf "cfg_good=%b flush_on_fatal=%b\n" src_cfg_good flush_on_fatal else
  try while true do
    let line = input_line stdin in
    if mode = "oracle" then begin
      match String.split_on_char ';' line with
      | k :: files ->
        let expected = List.init (int_of_string k + 1) n_of_int in
        print_endline (if prop_c11_b expected (List.map (fun f -> List.map n_of_int (unranges f)) files) then "1" else "0")
      | [] -> print_endline "0"
    end else begin
      match List.filter (fun x -> x <> "") (String.split_on_char ' ' line) with
      | [tr; en; ms; fs] ->
        let l = parse_tree tr in
        let msgs = List.mapi (fun i (t, sz) -> (t, { rid = n_of_int i; rlen = n_of_int (sz + 1) })) (parse_msgs ms) in
        let k = List.length msgs in
        let res = if en = "kill" then run_src_kill l msgs
                  else run_src_fatal l msgs { rid = n_of_int k; rlen = n_of_int (int_of_string fs + 1) } in
        print_endline (String.concat ";" (List.map (fun f -> ranges (List.map int_of_n f)) res))
      | _ -> print_endline "?"
    end
  done with End_of_file -> ()
