(* line driver for the C11 model.  One scenario per line, blank-separated fields
       <tree> <end> <msgs> <fatalsize>            (mode oracle: ... | <files>)
     tree : file sinks  F plain FileSink | R / r RotatingFileSink with a size limit (asks size() before
                        each write) | D RotatingFileSink without size limit | B FileSink on a device
                        that keeps nothing (/dev/full)
            filters     g debug messages only | n everything but fatal | e even message ids only
                        | x odd message ids only | l warning and above (LevelFilter) | y debug only
                        (CategoryFilter)
            o any other handler (also S) | N a null handler entry (TNull) | ( ... ) nested pipeline
            q Q RotatingFileSink with a 1000-byte limit (Q: its first rename is blocked) — like R for the model
            K the same on a file whose name ends with the name of a k sink — like R; k a rotating sink with a file-count
            limit: what it keeps is a matter of retention (C06), it has no file to check here — like B
     msgs : items starting with f are explicit logger.flush() calls between messages (EFlush; they take no id);
            reconfigurations between two messages (EOp; no id either), <path> = handler indices joined by '.',
            empty = the logger itself:  +<path>:<handler>  append one handler (tree letters, may be a "( .. )")
              ^<path>:F|R  sendToFile on that pipeline (same as + for the model)
              ~<path>:<k>  remove the k-th handler | !<path>:  clearSinks() on that pipeline
     end  : fatal (qFatal after the messages, then abort) | kill (SIGKILL after the messages)
     msgs : - or comma separated <t><size>[*<count>], t in d w c i (qDebug qWarning qCritical qInfo)
            or m (the type of message number i is "diwc"[i mod 4]) or z (an info message logged while the device
            rejects writes, after a flush: the reject oracle of the model says the record is lost iff it is larger
            than QFile's chunk); size = bytes of the message text;
            a record is the text plus a newline; ids count from 0, the fatal message gets the next id
     output, for every file sink EVER CREATED, in creation order (= depth-first order of the tree, then the
            sinks of appended handlers), separated by ';':
            record ids as ranges a-b joined by ',' ; X for a B sink (no file); G for a sink that is no longer
            part of the configuration when the process dies (removed: not a file sink of the logger any more)
     SEVERAL SINKS ON ONE FILE: a sink letter F or R followed by @<k> (in the tree, in a + or ^ item) is a new sink (own
            number) that logs to the file of sink k; &<k>:<n> = a second, short-lived Logger object with a file sink (own
            number) on the file of sink k logs n info records (ids from 1000000, 10 bytes) and is destroyed (WScratch).
            In such scenarios the output is per FILE: field j of a sink that logs to another sink's file is "=k"; field k
            is G when no sink of the final configuration logs to file k, else the records of the file; for a file
            that more than one sink wrote: all its streams (destroyed sinks included) merged and SORTED (the order in
            which the streams interleave is not part of the model); mode oracle takes the ids in FILE order.
            size 0 = the empty text, size -n = a text of n blanks (record length |size| + 1)
   mode "model" (default): the files at process death according to the model with the translated source
   mode "model-nth": the same with the source as compiled with -DQTLOGGER_NO_THREAD (src_fatal_cfg_nothread)
   mode "expected": what the property demands after qFatal (the specification [expected])
   mode "oracle": the scenario fields, then '|', then the files found: 1 iff prop_c11_ev_b
   mode "cfg": prints cfg_goodb and flush_on_fatal of the translated source *)
open Fatal_model
let rec pos_of_int n = if n = 1 then XH else if n land 1 = 1 then XI (pos_of_int (n lsr 1)) else XO (pos_of_int (n lsr 1))
let n_of_int n = if n <= 0 then N0 else Npos (pos_of_int n)
let rec int_of_pos = function XH -> 1 | XO p -> 2 * int_of_pos p | XI p -> 2 * int_of_pos p + 1
let int_of_n = function N0 -> 0 | Npos p -> int_of_pos p
(* ids of the messages with an empty / blank text: the e and x filters of the harness read the id from the TEXT
   ("even ids" takes a text without a number for id 0; the regular expression for odd ids does not match it) *)
let blank : (int, unit) Hashtbl.t = Hashtbl.create 7
let flt_of c : (mtype * rec0) -> bool = fun (ty, r) ->
  match c with
  | 'g' | 'y' -> ty = Debug
  | 'n' -> ty <> Fatal
  | 'e' -> Hashtbl.mem blank (int_of_n r.rid) || int_of_n r.rid land 1 = 0
  | 'x' -> not (Hashtbl.mem blank (int_of_n r.rid)) && int_of_n r.rid land 1 = 1
  | 'l' -> (ty = Warning || ty = Critical || ty = Fatal)
  | _ -> true
(* sink ids are handed out in creation order: the tree first (depth-first), then the subtrees appended by
   reconfiguration events, in the order of the events *)
let next_sid = ref 0
let alias : (int, int) Hashtbl.t = Hashtbl.create 7      (* sink number -> the sink whose file it logs to *)
let broken_sids : int list ref = ref []
let parse_items (s : string) : tree list =
  let next = next_sid in
  let pos = ref 0 in
  (* <sink letter>@<k>: the sink just numbered i logs to the file of sink k *)
  let at_alias i =
    if !pos < String.length s && s.[!pos] = '@' then begin
      incr pos;
      let st = !pos in
      while !pos < String.length s && s.[!pos] >= '0' && s.[!pos] <= '9' do incr pos done;
      Hashtbl.replace alias i (int_of_string (String.sub s st (!pos - st)))
    end in
  let rec items () =
    if !pos >= String.length s then [] else
    match s.[!pos] with
    | ')' -> []
    | c -> incr pos;
      let it = (match c with
        | 'F' | 'D' -> let i = !next in incr next; at_alias i; TSink (fresh (n_of_int i) false false)
        | 'R' | 'r' | 'q' | 'Q' | 'K' | 'Z' -> let i = !next in incr next; at_alias i; TSink (fresh (n_of_int i) true false)
        | 'B' | 'k' -> let i = !next in incr next; broken_sids := i :: !broken_sids; TSink (fresh (n_of_int i) false true)
        | '(' -> let l = items () in (if !pos < String.length s && s.[!pos] = ')' then incr pos); TPipe l
        | 'g' | 'n' | 'e' | 'x' | 'l' | 'y' -> TFilter (flt_of c)
        | 'N' -> TNull
        | _ -> TOther) in
      it :: items () in
  items ()
let parse_tree (s : string) : tree = next_sid := 0; Hashtbl.reset alias; broken_sids := []; TPipe (parse_items s)
let ty_of i = function 'd' -> Debug | 'w' -> Warning | 'c' -> Critical
  | 'm' -> (match i land 3 with 0 -> Debug | 1 -> Info | 2 -> Warning | _ -> Critical) | _ -> Info
let is_op_item it = it <> "" && (it.[0] = '+' || it.[0] = '^' || it.[0] = '~' || it.[0] = '!' || it.[0] = '&')
let is_msg_item it = it <> "" && it.[0] <> 'f' && not (is_op_item it)
(* ids of the z messages: logged while the device rejects writes *)
let fault_ids (s : string) : int list =
  if s = "-" || s = "" then [] else
  let raw = List.concat_map (fun it ->
    let t = it.[0] in
    let body = String.sub it 1 (String.length it - 1) in
    match String.split_on_char '*' body with
    | [_; cnt] -> List.init (int_of_string cnt) (fun _ -> t)
    | _ -> [t]) (List.filter is_msg_item (String.split_on_char ',' s)) in
  List.concat (List.mapi (fun i t -> if t = 'z' then [i] else []) raw)
let rec nat_of_int n = if n <= 0 then O else S (nat_of_int (n - 1))
(* <op><path>:<arg>   path = handler indices joined by '.', arg = subtree letters (+ ^) / handler index (~) / empty (!) *)
let parse_op (it : string) : op =
  let body = String.sub it 1 (String.length it - 1) in
  let path, arg = match String.index_opt body ':' with
    | Some i -> String.sub body 0 i, String.sub body (i + 1) (String.length body - i - 1)
    | None -> body, "" in
  let path = List.map (fun x -> nat_of_int (int_of_string x)) (List.filter (fun x -> x <> "") (String.split_on_char '.' path)) in
  match it.[0] with
  | '+' | '^' -> (match parse_items arg with [h] -> OAppend (path, h) | _ -> failwith "one handler per append")
  | '~' -> ORemove (path, nat_of_int (int_of_string arg))
  | _ -> OClearSinks path
(* the whole history: messages get ids 0,1,..; f = explicit flush(); + ^ ~ ! = reconfigurations *)
let ntmp = ref 0
(* &<k>:<n> a second Logger with one file sink (next sink number) on the file of sink k logs n records *)
let parse_scratch (it : string) : wevent =
  let body = String.sub it 1 (String.length it - 1) in
  let k, n = match String.split_on_char ':' body with
    | [k; n] -> int_of_string k, int_of_string n
    | _ -> failwith "&<k>:<n>" in
  let i = !next_sid in incr next_sid; Hashtbl.replace alias i k;
  WScratch (fresh (n_of_int i) false false,
            List.init n (fun _ -> let j = !ntmp in incr ntmp; (Info, { rid = n_of_int (1000000 + j); rlen = n_of_int 11 })))
let parse_events (s : string) : wevent list * int =
  ntmp := 0; Hashtbl.reset blank;
  if s = "-" || s = "" then [], 0 else
  let items = List.filter (fun it -> it <> "") (String.split_on_char ',' s) in
  let id = ref 0 in
  let evs = List.concat_map (fun it ->
    if it.[0] = 'f' then [WEv EFlush]
    else if it.[0] = '&' then [parse_scratch it]
    else if is_op_item it then [WEv (EOp (parse_op it))]
    else begin
      let t = it.[0] in
      let body = String.sub it 1 (String.length it - 1) in
      let sz, cnt = match String.split_on_char '*' body with
        | [sz; cnt] -> int_of_string sz, int_of_string cnt
        | _ -> int_of_string body, 1 in
      List.init cnt (fun _ -> let i = !id in incr id;
        if sz <= 0 then Hashtbl.replace blank i ();
        WEv (EMsg (ty_of i t, { rid = n_of_int i; rlen = n_of_int (abs sz + 1) })))
    end) items in
  evs, !id
let plain_events (wevs : wevent list) : event list =
  List.concat_map (function WEv e -> [e] | WScratch _ -> []) wevs
(* which file a sink logs to *)
let fm (sd : n) : n = let i = int_of_n sd in n_of_int (try Hashtbl.find alias i with Not_found -> i)
let shared_file k = Hashtbl.fold (fun _ f acc -> acc || f = k) alias false
let ranges (l : int list) : string =
  let b = Buffer.create 64 in
  let flush_run a z = (if Buffer.length b > 0 then Buffer.add_char b ',');
    if a = z then Buffer.add_string b (string_of_int a) else Buffer.add_string b (Printf.sprintf "%d-%d" a z) in
  let rec go st prev = function
    | [] -> flush_run st prev
    | x :: r -> if x = prev + 1 then go st x r else (flush_run st prev; go x x r) in
  (match l with [] -> () | x :: r -> go x x r); Buffer.contents b
let unranges (s : string) : int list =
  if s = "" then [] else
  List.concat_map (fun it -> match String.split_on_char '-' it with
    | [a; z] -> let a = int_of_string a and z = int_of_string z in List.init (max 0 (z - a + 1)) (fun i -> a + i)
    | _ -> [int_of_string it]) (String.split_on_char ',' s)
(* output / input: one field per sink ID (creation order), separated by ';':
     record ids as ranges | X = sink on a device that keeps nothing | G = sink no longer in the configuration *)
let show_by_sid (sids : n list) (res : n list option list) : string =
  let tab = List.combine (List.map int_of_n sids) res in
  String.concat ";" (List.init !next_sid (fun k ->
    match List.assoc_opt k tab with
    | None -> "G"
    | Some None -> "X"
    | Some (Some f) -> ranges (List.map int_of_n f)))
let unshow_by_sid (sids : n list) (s : string) : n list option list =
  let fields = Array.of_list (String.split_on_char ';' s) in
  List.map (fun sd -> let k = int_of_n sd in
    if k >= Array.length fields then None else
    let f = fields.(k) in
    if f = "X" || f = "G" then None else Some (List.map n_of_int (unranges f))) sids
let () =
  let mode = if Array.length Sys.argv > 1 then Sys.argv.(1) else "model" in
  if mode = "cfg" then Printf.printf "cfg_good=%b flush_on_fatal=%b nothread_cfg_good=%b flush_on_fatal_nothread=%b\n"
      src_cfg_good flush_on_fatal nth_cfg_good flush_on_fatal_nothread else
  try while true do
    let line = input_line stdin in
    let scen, files = match String.index_opt line '|' with
      | Some i -> String.sub line 0 i, String.trim (String.sub line (i + 1) (String.length line - i - 1))
      | None -> line, "" in
    match List.filter (fun x -> x <> "") (String.split_on_char ' ' scen) with
    | [tr; en; ms; fs] ->
      (try
        let t = parse_tree tr in
        let wevs, k = parse_events ms in
        let evs = plain_events wevs in
        let fatal = { rid = n_of_int k; rlen = n_of_int (abs (int_of_string fs) + 1) } in
        if int_of_string fs <= 0 then Hashtbl.replace blank k ();
        (* the harness flushes before a z message, so nothing is buffered: the rejected write loses the record iff it
           goes straight to the device (block larger than QFile's 16 KiB chunk); a smaller one is only buffered *)
        let zs = fault_ids ms in
        let rej _ (r : rec0) = List.mem (int_of_n r.rid) zs && int_of_n r.rlen > 16384 in
        let sids = final_sids rej t evs in
        if Hashtbl.length alias > 0 then begin
          (* several sinks on one file: per-file output / oracle *)
          if mode = "oracle" then begin
            let fields = Array.of_list (String.split_on_char ';' files) in
            let found (f : n) = let k = int_of_n f in
              if k >= Array.length fields then None else
              let x = fields.(k) in
              if x = "X" || x = "G" || (x <> "" && x.[0] = '=') then None else Some (List.map n_of_int (unranges x)) in
            print_endline (if prop_c11_w_b fm rej t wevs fatal found then "1" else "0")
          end else begin
            let st = if mode = "expected" then expected_w rej t wevs fatal
              else if mode = "model-nth" then (if en = "kill" then w_nth_kill rej t wevs else w_nth_fatal rej t wevs fatal)
              else (if en = "kill" then w_src_kill rej t wevs else w_src_fatal rej t wevs fatal) in
            let live = List.map int_of_n (live_files fm st) and final = List.map int_of_n sids in
            print_endline (String.concat ";" (List.init !next_sid (fun k ->
              if Hashtbl.mem alias k then "=" ^ string_of_int (Hashtbl.find alias k)
              else if List.mem k !broken_sids then (if List.mem k final then "X" else "G")
              else if not (List.mem k live) then "G"
              else begin
                let ids = List.map int_of_n (List.concat (stream_ids fm (n_of_int k) st)) in
                ranges (if shared_file k then List.sort compare ids else ids)
              end)))
          end
        end else
        if mode = "oracle" then
          print_endline (if prop_c11_ev_b rej t evs fatal (unshow_by_sid sids files) then "1" else "0")
        else if mode = "expected" then print_endline (show_by_sid sids (expected_ids rej t evs fatal))
        else if mode = "model-nth" then
          print_endline (show_by_sid sids (if en = "kill" then run_nth_kill rej t evs else run_nth_fatal rej t evs fatal))
        else print_endline (show_by_sid sids (if en = "kill" then run_src_kill rej t evs else run_src_fatal rej t evs fatal))
      with Failure _ | Invalid_argument _ | Not_found -> print_endline "?")
    | _ -> print_endline "?"
  done with End_of_file -> ()
