(* line driver for the C04 model.
   mode "accept" (default): one recording per line:  <app0> <worker0> <number of stoppers> <event> <event> ...
     events: P<i> post (hook own.locked)   T take (worker.before_process)   D<i>a / D<i>s deliver
             (a = on the worker, s = synchronously on the caller)   N / N0 done (worker.decremented; N0: the
             wrapped handler had returned false for the message = rejected it)
             L<i> reset.locked   W<i> reset.waiting   Q<i> reset.quit   S<i> a stop call has returned
             (i = stopper thread, 0 if omitted)
             G application object gone   M moveToOwnThread   R<i> logging call returned   X exit
     output: "OK" or "REJ <k>" (index of the first impossible event) followed by the model state
             reached: stuck= leak= err= rc= du= worker= stops= app= mtx= pending= qlen= inflight= log= accepted= obs=
   mode "oracle": "<posted ids,> | <delivered ids,> | <stopped 0/1>"  ->  1/0  (prop_c04_b)
   mode "counter": "<pending>" -> "bits=<src_counter_bits> code_test=<0/1> model_test=<0/1>": the loop test `pending > 0` of the drain
             loop evaluated on the translated width of m_pendingCount (signed wrap-around) and as the model evaluates it
   mode "run": "<app0> <worker0> <k> <action> ..." actions p<m> t d d0 s<i> c<i> w<i> g m (APost ATake ADone true, ADone false
             AResetStart AResetCheck AResetWake AAppDie AMove) -> final state *)
open Shutdown_model
let rec nat_of_int n = if n <= 0 then O else S (nat_of_int (n-1))
let int_of_nat n = let rec go a = function O -> a | S m -> go (a+1) m in go 0 n
let rec len = function [] -> 0 | _ :: t -> 1 + len t
let tail_int s = int_of_string (String.sub s 1 (String.length s - 1))
let idx s = if String.length s > 1 then nat_of_int (tail_int s) else O
let ev_of tok = match tok.[0] with
  | 'P' -> EPost (nat_of_int (tail_int tok))
  | 'T' -> ETake
  | 'D' -> let n = String.length tok in
           EDeliver (nat_of_int (int_of_string (String.sub tok 1 (n-2))), tok.[n-1] = 's')
  | 'N' -> EDone (tok <> "N0") | 'L' -> EResetLocked (idx tok) | 'W' -> EResetWaiting (idx tok) | 'Q' -> EResetQuit (idx tok)
  | 'S' -> EStopEnd (idx tok)
  | 'G' -> EAppGone | 'M' -> EMove | 'R' -> EReturned (nat_of_int (tail_int tok)) | 'X' -> EExit
  | _ -> failwith ("bad event " ^ tok)
let act_of tok = match tok.[0] with
  | 'p' -> APost (nat_of_int (tail_int tok)) | 't' -> ATake | 'd' -> ADone (tok <> "d0") | 's' -> AResetStart (idx tok)
  | 'c' -> AResetCheck (idx tok) | 'w' -> AResetWake (idx tok) | 'g' -> AAppDie | 'm' -> AMove
  | _ -> failwith ("bad action " ^ tok)
let b2 b = if b then 1 else 0
let show_state s nobs =
  Printf.sprintf "stuck=%d leak=%d err=%d rc=%d du=%d worker=%d stops=%s app=%d mtx=%d pending=%d qlen=%d inflight=%s log=%d accepted=%d obs=%d"
    (b2 (stuck_b s)) (b2 (leaked_b s)) (b2 (errorb s)) (b2 rc_src) (b2 du_src) (b2 s.worker)
    (String.concat "" (List.map (function RIdle -> "I" | RCheck -> "C" | RSleep -> "S" | RDone -> "D" | RError -> "E") s.stops))
    (b2 s.app0) (b2 s.mtx) (int_of_nat s.pending) (len s.queue)
    (match s.inflight with None -> "-" | Some m -> string_of_int (int_of_nat m))
    (len s.log) (len s.accepted) nobs
let toks line = List.filter (fun x -> x <> "") (String.split_on_char ' ' line)
let ids s = List.filter_map (fun x -> let x = String.trim x in if x = "" then None else Some (nat_of_int (int_of_string x)))
              (String.split_on_char ',' s)
let () =
  let mode = if Array.length Sys.argv > 1 then Sys.argv.(1) else "accept" in
  try while true do
    let line = input_line stdin in
    (try
      if mode = "counter" then begin
        let n = int_of_string (String.trim line) in
        let (c, m) = src_drain_test (nat_of_int n) in
        print_endline (Printf.sprintf "bits=%d code_test=%d model_test=%d" (int_of_nat src_counter_bits) (b2 c) (b2 m))
      end else
      if mode = "oracle" then begin
        match String.split_on_char '|' line with
        | [p; d; st] -> print_endline (if prop_c04_b (ids p) (ids d) (String.trim st = "1") then "1" else "0")
        | _ -> print_endline "ERR"
      end else begin
        match toks line with
        | a0 :: w0 :: k :: rest ->
          let k = nat_of_int (int_of_string k) in
          if mode = "run" then
            print_endline (show_state (run_src (init (a0 = "1") (w0 = "1") k) (List.map act_of rest)) 0)
          else begin
            match accept_src (a0 = "1") (w0 = "1") k (List.map ev_of rest) with
            | Accepted a -> print_endline ("OK " ^ show_state a.ms (len a.obs))
            | Rejected (k, a) -> print_endline (Printf.sprintf "REJ %d %s" (int_of_nat k) (show_state a.ms (len a.obs)))
          end
        | _ -> print_endline "ERR"
      end
    with Failure m -> print_endline ("ERR " ^ m))
  done with End_of_file -> ()
