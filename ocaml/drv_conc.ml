(* line driver for the C02 acceptor.  input, one recorded run per line:
     <n> <q0,q1,...> <event> <event> ...      events: E.<t>.<i> (pipeline entered)   X.<t>.<i>.<sq> (sink received)
   (other tokens, e.g. the lock-acquisition records L.* / M.*, are ignored).
   output per line: "<accept_conc 1|0> <prop_c02_b 1|0> <number of leading events the acceptor takes> <events>"
   signal traces:   sig <home> <event> ...       events: X.<t>.<i>.<sq> (recording sink)  S.<t>.<i>.<sq> (signal emitted)
                                                          Q.<t>.<i>.<sq> (AutoConnection receiver living in thread <home> got it)
   output per line: "<accept_sig 1|0> <prop_sig_b 1|0> <prop_sig_strict_b 1|0> <leading events taken> <events>" *)
open Conc_model
let tbl = ref [| O |]
let nat_of_int n =
  let n = max n 0 in
  if n >= Array.length !tbl then begin
    let old = !tbl in
    let sz = max (n + 1) (2 * Array.length old) in
    let a = Array.make sz O in
    Array.blit old 0 a 0 (Array.length old);
    for k = Array.length old to sz - 1 do a.(k) <- S a.(k - 1) done;
    tbl := a
  end;
  !tbl.(n)
let rec int_of_nat = function O -> 0 | S n -> 1 + int_of_nat n
let () =
  if Array.length Sys.argv > 1 && Sys.argv.(1) = "static" then begin
    (* static facts about the translated entry points {macro, direct process(), fatal macro} *)
    Printf.printf "family_bracketed=%b full_family_guarded=%b direct_and_fatal_guarded=%b reset_ok=%b signal_anchors=%b handlers_no_shared_mutable_state=%b\n"
      src_family_bracketed src_full_family_guarded src_direct_and_fatal_guarded src_reset_is_ok src_signal_anchors src_no_shared_state;
    exit 0
  end;
  try while true do
    let line = input_line stdin in
    match List.filter (fun s -> s <> "") (String.split_on_char ' ' line) with
    | "sig" :: hs :: toks ->
      let ent t i s = ((nat_of_int (int_of_string t), nat_of_int (int_of_string i)), nat_of_int (int_of_string s)) in
      let evs = List.filter_map (fun tok ->
        match String.split_on_char '.' tok with
        | ["X"; t; i; s] -> Some (SX (ent t i s))
        | ["S"; t; i; s] -> Some (SS (ent t i s))
        | ["Q"; t; i; s] -> Some (SQ (ent t i s))
        | _ -> None) toks in
      let home = nat_of_int (int_of_string hs) in
      let b x = if x then 1 else 0 in
      Printf.printf "%d %d %d %d %d\n" (b (accept_sig home evs)) (b (prop_sig_b home evs)) (b (prop_sig_strict_b evs))
        (int_of_nat (sig_prefix home ss0 evs)) (List.length evs)
    | ns :: qs :: toks ->
      let n = int_of_string ns in
      let q = Array.of_list (List.map int_of_string (List.filter (fun s -> s <> "") (String.split_on_char ',' qs))) in
      let quota t = let t = int_of_nat t in if t < Array.length q then nat_of_int q.(t) else O in
      let evs = List.filter_map (fun tok ->
        match String.split_on_char '.' tok with
        | ["E"; t; i] -> Some (EEnter (nat_of_int (int_of_string t), nat_of_int (int_of_string i)))
        | ["X"; t; i; s] -> Some (EDeliver (nat_of_int (int_of_string t), nat_of_int (int_of_string i), nat_of_int (int_of_string s)))
        | _ -> None) toks in
      let nn = nat_of_int n in
      let acc = accept_conc quota nn evs in
      let orc = prop_c02_b quota nn evs in
      let pre = int_of_nat (accepted_prefix quota nn a0 evs) in
      Printf.printf "%d %d %d %d\n" (if acc then 1 else 0) (if orc then 1 else 0) pre (List.length evs)
    | _ -> print_endline "0 0 0 0"
  done with End_of_file -> ()
