(* line driver for the C03 model.
   mode "trace": one recorded run per line:  <n> <q0,q1,...> <tokens>   with tokens
       C.<p>.<i> call begins   P.<p>.<i> M acquired / post   R.<p>.<i> posted   T.<p>.<i> call returned   D.<p>.<i> sink received
     output: "<accept_async 1|0> <leading events taken> <events>"
   mode "copy": one message dump per line (the ORIGINAL message as a synchronous sink sees it; '-' = null, h<hex> = bytes):
       type|text|file|line|function|category|time|steady|tid|formatted|attrs(khex=vhex,...)|seq
     output: the observation of the model's copy (copy_msg_with src_copy_cfg, ambient = garbage) in the same format,
     null pointers rendered as the empty string "h" (obs identifies null and "").
   mode "wthread": any line -> "app=<own|caller> noapp=<own|caller>": the thread the model predicts for the sink steps when
     moveToOwnThread() was called with / without an existing application object (exec_thread src_worker_move).
   mode "tsrc": any line -> "process=<message|clock> boot=<message|clock>": the clock the translated TimeToken reads for
     %{time process} / %{time boot} (message = lmsg.steadyTime(), the case of theorem C03_rendered_time_same_as_synchronous). *)
open Async_model
let tbl = ref [| O |]
let nat_of_int n =
  let n = max n 0 in
  if n >= Array.length !tbl then begin
    let old = !tbl in
    let sz = max (n + 1) (2 * Array.length old) in
    let a = Array.make sz O in
    Array.blit old 0 a 0 (Array.length old);
    for k = Array.length old to sz - 1 do a.(k) <- S a.(k - 1) done;
    tbl := a
  end;
  !tbl.(n)
let rec int_of_nat = function O -> 0 | S n -> 1 + int_of_nat n
let bytes_of_string s = List.init (String.length s) (fun i -> nat_of_int (Char.code s.[i]))
let string_of_bytes l = String.concat "" (List.map (fun b -> String.make 1 (Char.chr (int_of_nat b land 255))) l)
let unhex s = String.init (String.length s / 2) (fun i -> Char.chr (int_of_string ("0x" ^ String.sub s (2 * i) 2)))
let tohex s = String.concat "" (List.map (fun c -> Printf.sprintf "%02x" (Char.code c)) (List.init (String.length s) (String.get s)))
let opt_of s = if s = "-" then None else Some (bytes_of_string (unhex (String.sub s 1 (String.length s - 1))))
let hb l = "h" ^ tohex (string_of_bytes l)
let amb = { m_type = O; m_text = bytes_of_string "AMBIENT"; m_file = Some (bytes_of_string "GARBAGE"); m_line = bytes_of_string "-1";
            m_func = Some (bytes_of_string "GARBAGE"); m_cat = Some (bytes_of_string "GARBAGE"); m_time = bytes_of_string "0";
            m_steady = bytes_of_string "0"; m_tid = bytes_of_string "0"; m_fmt = None; m_attrs = [] }
let () =
  let mode = if Array.length Sys.argv > 1 then Sys.argv.(1) else "trace" in
  try while true do
    let line = input_line stdin in
    if mode = "complete" then print_endline (if src_copy_complete then "1" else "0")
    else if mode = "wthread" then
      Printf.printf "app=%s noapp=%s\n" (if src_sink_on_own_thread true then "own" else "caller") (if src_sink_on_own_thread false then "own" else "caller")
    else if mode = "tsrc" then begin
      let (p, b) = src_time_sources in
      Printf.printf "process=%s boot=%s\n" (if p then "message" else "clock") (if b then "message" else "clock")
    end
    else if mode = "copy" then begin
      match String.split_on_char '|' line with
      | [ty; text; file; ln; fn; cat; time; steady; tid; fmt; attrs; _seq] ->
        let kv = List.filter_map (fun s -> match String.split_on_char '=' s with
            | [k; v] -> Some (bytes_of_string (unhex k), bytes_of_string (unhex v)) | _ -> None)
            (List.filter (fun s -> s <> "") (String.split_on_char ',' attrs)) in
        let m = { m_type = nat_of_int (int_of_string ty); m_text = (match opt_of text with Some b -> b | None -> []);
                  m_file = opt_of file; m_line = bytes_of_string ln; m_func = opt_of fn; m_cat = opt_of cat;
                  m_time = bytes_of_string time; m_steady = bytes_of_string steady; m_tid = bytes_of_string tid;
                  m_fmt = opt_of fmt; m_attrs = kv } in
        let o = src_copy amb m in
        Printf.printf "%d|%s|%s|%s|%s|%s|%s|%s|%s|%s|%s\n" (int_of_nat o.o_type) (hb o.o_text) (hb o.o_file) (string_of_bytes o.o_line)
          (hb o.o_func) (hb o.o_cat) (string_of_bytes o.o_time) (string_of_bytes o.o_steady) (string_of_bytes o.o_tid)
          (match o.o_fmt with None -> "-" | Some b -> hb b)
          (String.concat "," (List.map (fun (k, v) -> tohex (string_of_bytes k) ^ "=" ^ tohex (string_of_bytes v)) o.o_attrs))
      | _ -> print_endline "PARSE-ERROR"
    end else begin
      match List.filter (fun s -> s <> "") (String.split_on_char ' ' line) with
      | ns :: qs :: toks ->
        let n = int_of_string ns in
        let q = Array.of_list (List.map int_of_string (List.filter (fun s -> s <> "") (String.split_on_char ',' qs))) in
        let quota t = let t = int_of_nat t in if t < Array.length q then nat_of_int q.(t) else O in
        let evs = List.filter_map (fun tok ->
          match String.split_on_char '.' tok with
          | [k; p; i] ->
            let p = nat_of_int (int_of_string p) and i = nat_of_int (int_of_string i) in
            (match k with "C" -> Some (VCall (p, i)) | "P" -> Some (VPost (p, i)) | "R" -> Some (VRel (p, i))
                        | "T" -> Some (VRet (p, i)) | "D" -> Some (VDeliver (p, i)) | _ -> None)
          | _ -> None) toks in
        let acc = accept_async quota (nat_of_int n) evs in
        let pre = int_of_nat (accepted_prefix x0 evs) in
        Printf.printf "%d %d %d\n" (if acc then 1 else 0) pre (List.length evs)
      | _ -> print_endline "0 0 0"
    end
  done with End_of_file -> ()
