(* line driver for the C16 model (extracted from FiltersDefs.v / RegexDefs.v / SrcFilters.v).
   A scenario is one line of space-separated tokens:
     o:D | o:N | o:V<t> | o:R<ast>~<pcre hex> | o:FC | o:FT | o:X<bit>     handler objects, numbered 0..
     o:d | o:n | o:v<t> | o:r<ast>~<pcre hex>                               the same kinds, obtained by the harness through the
                                                                            fluent API (SimplePipeline::filterDuplicate() /
                                                                            addSeqNumber / filterLevel / filter(regexp)); the
                                                                            rules do not depend on how the object was made, so
                                                                            the model reads them as D / N / V / R
     p:<i>,<i>,...                                                          pipelines (object numbers)
     m:<pipeline>:<type>:<flags>:<text>[:<thread>]                          messages; text = hex UTF-16
                                                                            units (4 digits each), '-' = null QString;
                                                                            <thread> = which harness thread constructs and
                                                                            sends the message (0 = main); the model ignores
                                                                            it: the rules are about the sequence a handler sees
     a:<object>:<type>:<flags>:<text>[:<thread>]                            a direct call, by another user of the object,
                                                                            of attributes(msg) (SeqNumberAttr) / filter(msg)
                                                                            (filters) on handler object number <object>
   <t> / <type> = numeric QtMsgType (0 debug 1 warning 2 critical 3 fatal 4 info).
   <ast> (prefix form): e  ^  $  .  c<hex>;  [<0|1><lo>-<hi>,...;  *X  +X  ?X  &XY  |XY
   Observations: per message the handler calls in order, "1"/"0" = verdict, "1=<n>" = sequence
   number right after the call; calls separated by ',', every message terminated by ';'.
   modes:  model  (default) scenario -> observations of the model with the source's configuration
           spec    scenario -> the observations the rules prescribe (model with ref_cfg; = what the oracle accepts)
           oracle  "<scenario> # <observations>" -> 1/0  (prop_c16_b on the given observations)
           pcre    one <ast> per line -> hex (bytes) of its PCRE syntax, or "!" if not printable
           level   "<min> <type>" -> "<model verdict><specified verdict>" *)
open Filters_model
let rec pos_of_int n = if n = 1 then XH else if n land 1 = 0 then XO (pos_of_int (n lsr 1)) else XI (pos_of_int (n lsr 1))
let n_of_int n = if n = 0 then N0 else Npos (pos_of_int n)
let rec int_of_pos = function XH -> 1 | XO p -> 2 * int_of_pos p | XI p -> 2 * int_of_pos p + 1
let int_of_n = function N0 -> 0 | Npos p -> int_of_pos p
let z_of_int n = if n = 0 then Z0 else if n > 0 then Zpos (pos_of_int n) else Zneg (pos_of_int (-n))
let int_of_z = function Z0 -> 0 | Zpos p -> int_of_pos p | Zneg p -> - (int_of_pos p)
let rec nat_of_int n = if n <= 0 then O else S (nat_of_int (n - 1))
let mt_of = function 0 -> Debug | 1 -> Warning | 2 -> Critical | 3 -> Fatal | _ -> Info
let hex s = int_of_string ("0x" ^ s)
let units s = if s = "-" then [] else List.init (String.length s / 4) (fun i -> n_of_int (hex (String.sub s (4 * i) 4)))

(* recursive-descent parser of the prefix AST *)
let parse_re (s : string) : re =
  let i = ref 0 in
  let until ch = let j = String.index_from s !i ch in let r = String.sub s !i (j - !i) in i := j + 1; r in
  let rec go () =
    let c = s.[!i] in incr i;
    match c with
    | 'e' -> Eps | '^' -> Bol | '$' -> Eol | '.' -> Chr CDot | '0' -> Emp
    | 'c' -> Chr (CLit (n_of_int (hex (until ';'))))
    | '[' -> let neg = s.[!i] = '1' in incr i;
             let body = until ';' in
             let rs = List.filter_map (fun it -> if it = "" then None else
               match String.split_on_char '-' it with
               | [a; b] -> Some (n_of_int (hex a), n_of_int (hex b))
               | _ -> failwith "range") (String.split_on_char ',' body) in
             Chr (CCls (neg, rs))
    | '*' -> Star (go ()) | '+' -> Plus (go ()) | '?' -> Opt (go ())
    | '&' -> let a = go () in let b = go () in Cat (a, b)
    | '|' -> let a = go () in let b = go () in Alt (a, b)
    | _ -> failwith "ast" in
  let r = go () in
  if !i <> String.length s then failwith "ast: trailing"; r

let parse_scenario (line : string) : scenario =
  let os = ref [] and ps = ref [] and ms = ref [] in
  List.iter (fun tok -> if String.length tok >= 2 then begin
    let body = String.sub tok 2 (String.length tok - 2) in
    match tok.[0] with
    | 'o' -> let h = (match Char.uppercase_ascii body.[0] with
        | 'D' -> HDup | 'N' -> HSeq
        | 'V' -> HLevel (mt_of (int_of_string (String.sub body 1 (String.length body - 1))))
        | 'R' -> let ast = String.sub body 1 (String.index body '~' - 1) in HRegex (parse_re ast)
        | 'F' -> if body = "FC" then HFmtConst else HFmtTag
        | 'X' -> HDrop (n_of_int (int_of_string (String.sub body 1 (String.length body - 1))))
        | _ -> failwith "object") in os := h :: !os
    | 'p' -> ps := List.filter_map (fun x -> if x = "" then None else Some (nat_of_int (int_of_string x)))
                     (String.split_on_char ',' body) :: !ps
    | 'm' | 'a' -> (match String.split_on_char ':' body with
        | p :: t :: fl :: tx :: _ ->
            let k = nat_of_int (int_of_string p) in
            let m = { mt = mt_of (int_of_string t); text = units tx; flags = n_of_int (int_of_string fl);
                      fmt = None; attrs = [] } in
            ms := (if tok.[0] = 'm' then Send (k, m) else Direct (k, m)) :: !ms
        | _ -> failwith "message")
    | _ -> failwith "token" end) (String.split_on_char ' ' line);
  { objs = List.rev !os; pipes = List.rev !ps; feed = List.rev !ms }

let show_obs (oss : (bool * z option) list list) : string =
  let b = Buffer.create 256 in
  List.iter (fun os ->
    Buffer.add_string b (String.concat "," (List.map (fun (v, n) ->
      (if v then "1" else "0") ^ (match n with Some z -> "=" ^ string_of_int (int_of_z z) | None -> "")) os));
    Buffer.add_char b ';') oss;
  Buffer.contents b
let parse_obs (s : string) : (bool * z option) list list =
  let segs = String.split_on_char ';' s in
  let segs = (match List.rev segs with _ :: r -> List.rev r | [] -> []) in
  List.map (fun seg -> if seg = "" then [] else
    List.map (fun it -> match String.index_opt it '=' with
      | Some k -> (it.[0] = '1', (let v = String.sub it (k + 1) (String.length it - k - 1) in
                                  if v = "?" then None else Some (z_of_int (int_of_string v))))
      | None -> (it.[0] = '1', None)) (String.split_on_char ',' seg)) segs
let hex_of_bytes (l : n list) = String.concat "" (List.map (fun c -> Printf.sprintf "%02x" (int_of_n c)) l)

let () =
  let mode = if Array.length Sys.argv > 1 then Sys.argv.(1) else "model" in
  try while true do
    let line = input_line stdin in
    let out =
      try
        if mode = "pcre" then (let r = parse_re line in if printable r then hex_of_bytes (pp r) else "!")
        else if mode = "level" then
          (match String.split_on_char ' ' line with
           | [a; b] -> let mn = mt_of (int_of_string a) and t = mt_of (int_of_string b) in
                       (if level_pass_src mn t then "1" else "0") ^ (if level_spec mn t then "1" else "0")
           | _ -> "E")
        else if mode = "oracle" then
          (match String.index_opt line '#' with
           | Some k -> let sc = parse_scenario (String.trim (String.sub line 0 k)) in
                       let ob = parse_obs (String.trim (String.sub line (k + 1) (String.length line - k - 1))) in
                       if prop_c16_b sc ob then "1" else "0"
           | None -> "E")
        else if mode = "spec" then show_obs (observe_ref (parse_scenario line))
        else show_obs (observe_src (parse_scenario line))
      with Failure m -> "E:" ^ m | Not_found -> "E:notfound" | Invalid_argument m -> "E:" ^ m in
    print_endline out
  done with End_of_file -> ()
