(* line driver for the C08 model.  A byte string is a hex token, or @<path> of a file holding the raw
   bytes (used for the multi-MiB cases).  Commands, one per line:
     T <data>                               -> "<header hex> <model trailer hex> <rfc trailer hex>"
     S <qcompress output>                   -> hex of body_of (guard + slice)
     G <file> <body offset> <consumed> <inflated> <expected>
         runs the extracted RFC 1952 reader [gunzip] on <file>, with Python's raw inflate as the
         inflate oracle: called on the input that starts at <body offset> it returns <inflated> and
         the input minus <consumed> bytes; on any other input it fails.
         -> "<prop_c08_b: 1|0> <gunzip: none | some:<length> | some-differs:<length>>"
     C                                      -> "<cfg_goodb src_gz> <removed_lastb src_compress_steps>" *)
open Gzip_model
let rec pos_of_int n = if n = 1 then XH else if n land 1 = 1 then XI (pos_of_int (n lsr 1)) else XO (pos_of_int (n lsr 1))
let n_of_int n = if n = 0 then N0 else Npos (pos_of_int n)
let rec int_of_pos = function XH -> 1 | XO p -> 2 * int_of_pos p | XI p -> 2 * int_of_pos p + 1
let int_of_n = function N0 -> 0 | Npos p -> int_of_pos p
let tbl = Array.init 256 n_of_int
let bytes_of_string s =
  let r = ref [] in
  for i = String.length s - 1 downto 0 do r := tbl.(Char.code s.[i]) :: !r done; !r
let unhex h =
  let n = String.length h / 2 in
  String.init n (fun i -> Char.chr (int_of_string ("0x" ^ String.sub h (2 * i) 2)))
let read_file p = let ic = open_in_bin p in let n = in_channel_length ic in let s = really_input_string ic n in close_in ic; s
let tok t = if t = "-" then "" else if String.length t > 0 && t.[0] = '@' then read_file (String.sub t 1 (String.length t - 1)) else unhex t
let hex l = let b = Buffer.create 64 in List.iter (fun c -> Buffer.add_string b (Printf.sprintf "%02x" (int_of_n c))) l;
  if Buffer.length b = 0 then "-" else Buffer.contents b
let rec drop k l = if k <= 0 then l else match l with [] -> [] | _ :: t -> drop (k - 1) t
let rec len acc = function [] -> acc | _ :: t -> len (acc + 1) t
let () =
  try while true do
    let line = input_line stdin in
    (match String.split_on_char ' ' (String.trim line) with
     | ["T"; d] -> let d = bytes_of_string (tok d) in
       Printf.printf "%s %s %s\n" (hex m_header) (hex (m_trailer d)) (hex (rfc_trailer d))
     | ["S"; z] -> print_endline (hex (m_body_of (bytes_of_string (tok z))))
     | ["G"; f; off; consumed; infl; exp] ->
       let fs = tok f in
       let file = bytes_of_string fs in
       let inflated = bytes_of_string (tok infl) and expected = bytes_of_string (tok exp) in
       let want = String.length fs - int_of_string off and consumed = int_of_string consumed in
       let inflate b = if len 0 b = want && consumed >= 0 then Some (inflated, drop consumed b) else None in
       let ok = prop_c08_b inflate expected file in
       let g = match gunzip inflate file with
         | None -> "none"
         | Some d -> (if bytes_eqb d expected then "some:" else "some-differs:") ^ string_of_int (len 0 d) in
       Printf.printf "%d %s\n" (if ok then 1 else 0) g
     | ["C"] -> Printf.printf "%d %d\n" (if m_cfg_good then 1 else 0) (if m_removed_last then 1 else 0)
     | _ -> print_endline "?");
    flush stdout
  done with End_of_file -> ()
