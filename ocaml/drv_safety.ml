(* line driver for the checked models of SafetyDefs.v (C14).  All strings are hex: UTF-16 code units
   (4 digits each) for QString values, bytes (2 digits) for the function signature; "-" = empty;
   "~" in a cat / file / func field = the NULL POINTER (rawmsg carries the three C strings as options).
   mode "pattern" (default): <pat16> <type 0..4> <msg16> <cat16> <file16> <func8> <line> <n> {<key16> <val16>}
        -> "ok <out16> <bound>"  or "FAULT-PARSE" / "FAULT-FORMAT" (a checked operation returned None)
   mode "oracle":  same fields followed by <implementation output16>  -> 1/0 = prop_c14_pattern_b
   mode "pretty":  <colorize> <maxw> <n> {<type> <cat16 or "~"> <msg16>}   (the model decides what the default category is)
        -> "ok <out16> ..." (the text after "<time> " of each message) or "FAULT"
   mode "configure":  <n> {<type> <cat16 or "~"> <msg16>}   the formatter chain of configure(pipeline, path, ...):
        PrettyFormatter(colour, default limit) -> colour codes removed; same answer format as "pretty" *)
open Safety_model
let rec pos_of_int n = if n = 1 then XH else if n land 1 = 1 then XI (pos_of_int (n lsr 1)) else XO (pos_of_int (n lsr 1))
let n_of_int n = if n = 0 then N0 else Npos (pos_of_int n)
let z_of_int n = if n = 0 then Z0 else if n > 0 then Zpos (pos_of_int n) else Zneg (pos_of_int (-n))
let rec int_of_pos = function XH -> 1 | XO p -> 2 * int_of_pos p | XI p -> 2 * int_of_pos p + 1
let int_of_n = function N0 -> 0 | Npos p -> int_of_pos p
let int_of_z = function Z0 -> 0 | Zpos p -> int_of_pos p | Zneg p -> - (int_of_pos p)
let unhexw w s = if s = "-" || s = "" then [] else List.init (String.length s / w) (fun i -> n_of_int (int_of_string ("0x" ^ String.sub s (w*i) w)))
let un16 = unhexw 4 and un8 = unhexw 2
let hex16 l = if l = [] then "-" else begin let b = Buffer.create 64 in List.iter (fun c -> Buffer.add_string b (Printf.sprintf "%04x" (int_of_n c))) l; Buffer.contents b end
let mtype_of = function 1 -> Warning | 2 -> Critical | 3 -> Fatal | 4 -> Info | _ -> Debug
let parse_msg = function
  | pat :: ty :: msg :: cat :: file :: func :: line :: n :: rest ->
    let n = int_of_string n in
    let rec attrs k l = if k = 0 then ([], l) else match l with a :: b :: r -> let (x, y) = attrs (k-1) r in ((un16 a, un16 b) :: x, y) | _ -> ([], []) in
    let (at, rest') = attrs n rest in
    let ptr f s = if s = "~" then None else Some (f s) in
    (un16 pat, env_of_raw { r_mt = mtype_of (int_of_string ty); r_text = un16 msg; r_file = ptr un16 file; r_func = ptr un8 func;
                            r_cat = ptr un16 cat; r_line = z_of_int (int_of_string line); r_time = []; r_tid = []; r_ptr = [];
                            r_attrs = at }, rest')
  | _ -> failwith "bad line"
let () =
  let mode = if Array.length Sys.argv > 1 then Sys.argv.(1) else "pattern" in
  try while true do
    let line = input_line stdin in
    let f = List.filter (fun s -> s <> "") (String.split_on_char ' ' line) in
    (try
      if mode = "configure" then begin
        match f with
        | n :: rest ->
          let rec items k l = if k = 0 then [] else match l with t :: c :: m :: r ->
              ((mtype_of (int_of_string t), (if c = "~" then None else Some (un16 c))), un16 m) :: items (k-1) r | _ -> [] in
          (match configure_seq_raw_c Z0 (items (int_of_string n) rest) with
           | Some outs -> print_endline ("ok " ^ String.concat " " (List.map hex16 outs))
           | None -> print_endline "FAULT")
        | _ -> print_endline "?"
      end else if mode = "pretty" then begin
        match f with
        | col :: maxw :: n :: rest ->
          let rec items k l = if k = 0 then [] else match l with t :: c :: m :: r ->
              ((mtype_of (int_of_string t), (if c = "~" then None else Some (un16 c))), un16 m) :: items (k-1) r | _ -> [] in
          (match pretty_seq_raw_c (col <> "0") (z_of_int (int_of_string maxw)) Z0 (items (int_of_string n) rest) with
           | Some outs -> print_endline ("ok " ^ String.concat " " (List.map hex16 outs))
           | None -> print_endline "FAULT")
        | _ -> print_endline "?"
      end else begin
        let (pat, m, rest) = parse_msg f in
        if mode = "oracle" then
          print_endline (match rest with [o] -> if prop_c14_pattern_b pat m (un16 o) then "1" else "0" | _ -> "0")
        else match parse_pattern_c pat with
          | None -> print_endline "FAULT-PARSE"
          | Some toks -> (match format_c toks m with
              | None -> print_endline "FAULT-FORMAT"
              | Some r -> print_endline ("ok " ^ hex16 r ^ " " ^ string_of_int (int_of_z (fmt_bound toks m))))
      end
    with Failure _ | Invalid_argument _ -> print_endline "?")
  done with End_of_file -> ()
