(* line driver for the C19 models (extracted: config_model.ml).  First argument = mode.

   case syntax (space separated tokens; strings are hex UTF-16 code units, "-" = empty):
     ini case:      E<tty_out><tty_err> R<n> {name wild(0 exact, 1 prefix, 2 contains) type enabled}*n X<rx> P<n> {tok}*n B<9 x -|0|1>
                    Y<syslog ident> F<path> Z<size|-> C<count|-> M<n> {type cat text tid time}*n
     one-line case: E<tty_out><tty_err> F<path> Z<size> C<count> B<startup daily compress async> M<n> {msg}*n
       type: d w c f i (debug warning critical fatal info), rule type '-' = untyped
       rx:   - | c:<hex> | p:<hex> | s:<hex>     tok: l:<hex> | m | t | c | i:<type> (%{if-type}) | e (%{endif})
       B of an ini case: stdout stdout_color stderr stderr_color platform_std_log rotate_on_startup
                         rotate_daily compress_old_files async
       msg:  type cat text tid time day     (day = days since the epoch of the message's date)
   modes
     ini      : case -> "<shape> <async> <stdout> <stderr> <file> <syslog records> <file records, comma separated>"  (model of the code)
     inispec  : case -> "<stdout> <stderr> <file>"                                     (what the keys say)
     inioracle: case + " | <stdout> <stderr> <file>" -> 1/0                            (prop_ini_b)
     initext  : case -> "<filter_rules text> <regexp_filter text> <message_pattern text>"
     oneline  : case -> "<shape> <async> <stdout> <stderr> <file> <file records, comma separated>"
     inilayout / ollayout : case + " | <npre> <d0>" -> "<day>:<index>:<records>,... <records of the active file>"
                    (which file holds which record: npre old lines last modified on day d0 found at start)
     inilayoracle / ollayoracle : case + " | <npre> <d0> <rotated as above|-> <active>" -> 1/0   (prop_layout_b)
     oloracle : "<console> <file>" -> 1/0                                               (prop_oneline_b)
     strip    : hex -> hex (the source's class)      stripspec : hex -> hex (SGR class)
     install  : history -> two characters per call: handler current after it (L D 1-9) and who receives a
                    message then (d Qt's default handler, 1-9 foreign, p q r s logger 0..3, - nobody)
                    history alphabet: I R 1-9 D as before (I = install by the singleton, logger 0);
                    a b c = create logger 1 2 3; i j k = install by logger 1 2 3; x y z = destroy logger 1 2 3
     instoracle: "<history> <trace>" -> 1/0                                             (prop_install_b)
     pretty   : several PrettyFormatter objects: O<n> {colorize maxcat}*n D<n> {object type cat text tid time day}*n
                    -> "<object>:<record hex>,..."   (multi: each delivery formatted by that object)
     prettyoracle: the same case + " | <object>:<record hex>,...|-" -> 1/0             (prop_multi_b) *)
open Config_model
let rec pos_of_int n = if n = 1 then XH else if n land 1 = 1 then XI (pos_of_int (n lsr 1)) else XO (pos_of_int (n lsr 1))
let n_of_int n = if n = 0 then N0 else Npos (pos_of_int n)
let rec int_of_pos = function XH -> 1 | XO p -> 2 * int_of_pos p | XI p -> 2 * int_of_pos p + 1
let int_of_n = function N0 -> 0 | Npos p -> int_of_pos p
let z_of_int n = if n = 0 then Z0 else if n > 0 then Zpos (pos_of_int n) else Zneg (pos_of_int (-n))
let int_of_z = function Z0 -> 0 | Zpos p -> int_of_pos p | Zneg p -> - (int_of_pos p)
let rec nat_of_int n = if n <= 0 then O else S (nat_of_int (n-1))
let rec int_of_nat = function O -> 0 | S n -> 1 + int_of_nat n
let unhex s = if s = "-" || s = "" then [] else List.init (String.length s / 4) (fun i -> n_of_int (int_of_string ("0x" ^ String.sub s (4*i) 4)))
let hex l = if l = [] then "-" else String.concat "" (List.map (fun c -> Printf.sprintf "%04x" (int_of_n c)) l)
let ty = function 'd' -> Debug | 'w' -> Warning | 'c' -> Critical | 'f' -> Fatal | _ -> Info
let tail s = String.sub s 1 (String.length s - 1)
let after2 s = String.sub s 2 (String.length s - 2)
let ob = function '0' -> Some false | '1' -> Some true | _ -> None
let oz s = if s = "-" then None else Some (z_of_int (int_of_string s))

exception Bad of Stdlib.String.t
let take toks = match !toks with t :: r -> toks := r; t | [] -> raise (Bad "truncated case")
let expect toks c = let t = take toks in if t = "" || t.[0] <> c then raise (Bad ("expected " ^ String.make 1 c ^ " got " ^ t)) else tail t
let parse_msgs toks =
  let n = int_of_string (expect toks 'M') in
  List.init n (fun _ ->
    let t = take toks in let cat = take toks in let text = take toks in let tid = take toks in let tm = take toks in
    let day = take toks in
    { m_type = ty t.[0]; m_cat = unhex cat; m_text = unhex text; m_tid = n_of_int (int_of_string tid); m_time = unhex tm;
      m_day = n_of_int (int_of_string day) })
let parse_multi toks =
  let no = int_of_string (expect toks 'O') in
  let cfgs = List.init no (fun _ -> let c = take toks in let w = take toks in (c = "1", nat_of_int (int_of_string w))) in
  let n = int_of_string (expect toks 'D') in
  let ops = List.init n (fun _ ->
    let o = take toks in
    let t = take toks in let cat = take toks in let text = take toks in let tid = take toks in let tm = take toks in
    let day = take toks in
    (nat_of_int (int_of_string o),
     { m_type = ty t.[0]; m_cat = unhex cat; m_text = unhex text; m_tid = n_of_int (int_of_string tid); m_time = unhex tm;
       m_day = n_of_int (int_of_string day) })) in
  (cfgs, ops)
let show_outs outs = if outs = [] then "-" else String.concat "," (List.map (fun (k, r) -> Printf.sprintf "%d:%s" (int_of_nat k) (hex r)) outs)
let parse_outs s =
  if s = "-" || s = "" then [] else List.map (fun f -> match String.split_on_char ':' f with
    | [k; r] -> (nat_of_int (int_of_string k), unhex r)
    | _ -> raise (Bad "record")) (String.split_on_char ',' s)
let parse_env toks = let e = expect toks 'E' in { tty_out = e.[0] = '1'; tty_err = e.[1] = '1' }
let parse_ini toks =
  let e = parse_env toks in
  let nr = int_of_string (expect toks 'R') in
  let rules = List.init nr (fun _ ->
    let nm = take toks in let w = take toks in let t = take toks in let en = take toks in
    { r_name = unhex nm; r_kind = (match w with "1" -> KPrefix | "2" -> KContains | _ -> KExact); r_type = (if t = "-" then None else Some (ty t.[0])); r_enabled = en = "1" }) in
  let x = expect toks 'X' in
  let rx = if x = "-" then None else Some (match x.[0] with 'c' -> RxContains (unhex (after2 x)) | 'p' -> RxPrefix (unhex (after2 x)) | _ -> RxSuffix (unhex (after2 x))) in
  let np = int_of_string (expect toks 'P') in
  let pat = List.init np (fun _ -> let t = take toks in match t.[0] with 'l' -> PLit (unhex (after2 t)) | 'm' -> PMessage | 't' -> PType | 'i' -> PIf (ty t.[2]) | 'e' -> PEndif | _ -> PCategory) in
  let b = expect toks 'B' in
  let sysl = unhex (expect toks 'Y') in
  let path = unhex (expect toks 'F') in
  let size = oz (expect toks 'Z') in
  let count = oz (expect toks 'C') in
  let ms = parse_msgs toks in
  (e, { k_rules = rules; k_regexp = rx; k_pattern = pat; k_stdout = ob b.[0]; k_stdout_color = ob b.[1];
        k_stderr = ob b.[2]; k_stderr_color = ob b.[3]; k_platform = ob b.[4]; k_syslog = sysl; k_path = path;
        k_max_size = size; k_max_count = count; k_startup = ob b.[5]; k_daily = ob b.[6]; k_compress = ob b.[7];
        k_async = ob b.[8] }, ms)
let parse_oneline toks =
  let e = parse_env toks in
  let path = unhex (expect toks 'F') in
  let size = z_of_int (int_of_string (expect toks 'Z')) in
  let count = z_of_int (int_of_string (expect toks 'C')) in
  let b = expect toks 'B' in
  let ms = parse_msgs toks in
  (e, { o_path = path; o_size = size; o_count = count; o_startup = b.[0] = '1'; o_daily = b.[1] = '1';
        o_compress = b.[2] = '1'; o_async = b.[3] = '1' }, ms)
let cm = function CAuto -> "Auto" | CAlways -> "Always" | CNever -> "Never"
let b01 b = if b then "1" else "0"
let hname = function
  | HCat _ -> "CategoryFilter" | HRegex _ -> "RegExpFilter" | HPattern _ -> "PatternFormatter"
  | HPretty (c, w) -> "PrettyFormatter" | HStrip _ -> "FunctionFormatter"
  | HStdout m -> "StdOutSink:" ^ cm m | HStderr m -> "StdErrSink:" ^ cm m | HPlatform m -> "StdErrSink:" ^ cm m
  | HSyslog _ -> "SyslogSink"
  | HFile f -> if f.f_rotating then "RotatingFileSink" else "FileSink"
let shape hs = if hs = [] then "-" else String.concat "," (List.map hname hs)
let streams evs =
  Printf.sprintf "%s %s %s" (hex (stream_text (project OStdout evs))) (hex (stream_text (stderr_records evs)))
    (hex (stream_text (project OFile evs)))
let split_bar line =
  match String.index_opt line '|' with
  | Some i -> (String.trim (String.sub line 0 i), String.trim (String.sub line (i+1) (String.length line - i - 1)))
  | None -> (line, "")
let words s = List.filter (fun x -> x <> "") (String.split_on_char ' ' s)
let hch = function Default -> 'D' | Logger -> 'L' | Foreign n -> Char.chr (48 + int_of_nat n)
let hof = function 'D' -> Default | 'L' -> Logger | c -> Foreign (nat_of_int (Char.code c - 48))
let rch = function RDefault -> 'd' | RNone -> '-' | RForeign n -> Char.chr (48 + int_of_nat n) | RLogger k -> Char.chr (Char.code 'p' + int_of_nat k)
let rof = function 'd' -> RDefault | '-' -> RNone | c when c >= 'p' && c <= 'z' -> RLogger (nat_of_int (Char.code c - Char.code 'p'))
                 | c -> RForeign (nat_of_int (Char.code c - 48))
let opof = function
  | 'I' -> Install O | 'R' -> Restore | 'D' -> ForeignReset
  | 'a' | 'b' | 'c' as c -> Create (nat_of_int (Char.code c - Char.code 'a' + 1))
  | 'i' | 'j' | 'k' as c -> Install (nat_of_int (Char.code c - Char.code 'i' + 1))
  | 'x' | 'y' | 'z' as c -> Destroy (nat_of_int (Char.code c - Char.code 'x' + 1))
  | c -> ForeignInstall (nat_of_int (Char.code c - 48))
let chars s = List.init (String.length s) (String.get s)
let rec pairs = function a :: b :: r -> (hof a, rof b) :: pairs r | _ -> []
let show_layout (rot, act) =
  (if rot = [] then "-" else String.concat "," (List.map (fun ((d, i), n) -> Printf.sprintf "%d:%d:%d" (int_of_n d) (int_of_nat i) (int_of_nat n)) rot))
  ^ " " ^ string_of_int (int_of_nat act)
let parse_layout rot act =
  ((if rot = "-" then [] else List.map (fun f -> match String.split_on_char ':' f with
      | [d; i; n] -> ((n_of_int (int_of_string d), nat_of_int (int_of_string i)), nat_of_int (int_of_string n))
      | _ -> raise (Bad "rotated file")) (String.split_on_char ',' rot)),
   nat_of_int (int_of_string act))
let recs l = if l = [] then "-" else String.concat "," (List.map (fun r -> if r = [] then "." else hex r) l)
let () =
  let mode = if Array.length Sys.argv > 1 then Sys.argv.(1) else "ini" in
  try while true do
    let line = input_line stdin in
    let out =
      try match mode with
      | "ini" ->
        let (e, s, ms) = parse_ini (ref (words line)) in
        let hs = ini_handlers s in
        let evs = run e hs ms in
        Printf.sprintf "%s %s %s %d %s" (shape hs) (b01 (ini_is_async s)) (streams evs) (List.length (project OSyslog evs)) (recs (project OFile evs))
      | "inispec" ->
        let (e, s, ms) = parse_ini (ref (words line)) in
        Printf.sprintf "%s %s %s" (hex (spec_stdout s e ms)) (hex (spec_stderr s e ms)) (hex (spec_file s e ms))
      | "inioracle" ->
        let (c, o) = split_bar line in
        let (e, s, ms) = parse_ini (ref (words c)) in
        (match words o with
         | [a; b; f] -> b01 (prop_ini_b s e ms (unhex a) (unhex b) (unhex f))
         | _ -> "?")
      | "initext" ->
        let (_, s, _) = parse_ini (ref (words line)) in
        Printf.sprintf "%s %s %s" (hex (rules_text s.k_rules))
          (match s.k_regexp with Some r -> hex (rx_text r) | None -> "-") (hex (pattern_text s.k_pattern))
      | "oneline" ->
        let (e, a, ms) = parse_oneline (ref (words line)) in
        let hs = oneline_handlers a in
        let evs = run e hs ms in
        Printf.sprintf "%s %s %s %s" (shape hs) (b01 (oneline_is_async a)) (streams evs) (recs (project OFile evs))
      | "inilayout" | "ollayout" | "inilayoracle" | "ollayoracle" ->
        let (c, o) = split_bar line in
        (match words o with
         | npre :: d0 :: rest ->
           let npre = nat_of_int (int_of_string npre) and d0 = n_of_int (int_of_string d0) in
           (match mode, rest with
            | "inilayout", [] -> let (_, s, ms) = parse_ini (ref (words c)) in show_layout (ini_layout s npre d0 ms)
            | "ollayout", [] -> let (_, a, ms) = parse_oneline (ref (words c)) in show_layout (oneline_layout a npre d0 ms)
            | "inilayoracle", [rot; act] -> let (_, s, ms) = parse_ini (ref (words c)) in b01 (ini_layout_oracle s npre d0 ms (parse_layout rot act))
            | "ollayoracle", [rot; act] -> let (_, a, ms) = parse_oneline (ref (words c)) in b01 (oneline_layout_oracle a npre d0 ms (parse_layout rot act))
            | _ -> "?")
         | _ -> "?")
      | "oloracle" ->
        (match words line with [c; f] -> b01 (prop_oneline_b (unhex c) (unhex f)) | _ -> "?")
      | "strip" -> hex (src_strip (unhex (String.trim line)))
      | "stripspec" -> hex (strip_sgr (unhex (String.trim line)))
      | "pretty" -> let (cfgs, ops) = parse_multi (ref (words line)) in show_outs (multi cfgs ops)
      | "prettyoracle" ->
        let (c, o) = split_bar line in
        let (cfgs, ops) = parse_multi (ref (words c)) in
        b01 (prop_multi_b cfgs ops (parse_outs o))
      | "install" -> let tr = install_trace (List.map opof (chars line)) in String.concat "" (List.map (fun (h, r) -> Printf.sprintf "%c%c" (hch h) (rch r)) tr)
      | "instoracle" ->
        (match words line with
         | [h; t] -> b01 (String.length t = 2 * String.length h && prop_install_b (List.map opof (chars h)) (pairs (chars t)))
         | [h] -> b01 (prop_install_b (List.map opof (chars h)) [])
         | _ -> "?")
      | _ -> "?mode"
      with Bad m -> "?bad " ^ m | Failure m -> "?fail " ^ m | Invalid_argument m -> "?inv " ^ m
    in
    print_endline out
  done with End_of_file -> ()
