// C03 harness: N producer threads log through the REAL library with the handler moved to its own thread.
//   mode "bare":   OwnThreadHandler<SimplePipeline>::process(LogMessage&) called directly; the message is built by the
//                  producer (type, text, heap-allocated file/function/category incl. null pointers, attributes, sometimes a
//                  pre-set formatted text) and its accessors are dumped BEFORE the call ("TW" = what a synchronous sink sees);
//   mode "logger": an installed Logger moved to its own thread, producers use QMessageLogger(file,line,func,cat).info(...)
//                  etc.; the twin record holds the values the producer knows (time as an interval around the call).
// The source-location buffers are overwritten and freed right after the call returns.  Pipeline on the worker:
// SeqNumberAttr, random-duration handler, recording sink (dumps every accessor, the delivering thread, takes a ticket).
// Tickets (one global atomic): C before the call, P at hook "own.locked" (M held: the post happens in this critical
// section), R at hook "own.posted", T after the call returned, D inside the sink.
// Further modes.  "relog": logger mode in which the sink, while delivering the marker message (producer 0, index 1) and after
//   every producer has posted everything, itself logs one message through the installed Logger from the logger thread
//   (pseudo-producer <n>, index 0): it must be queued behind everything posted before and must not run the pipeline nested
//   (header: max_nesting).  "drain": bare handler, sink 100 ms per message, producer 0 queues <per> messages, a stopper thread
//   calls resetOwnThread(), 200 ms later producer 1 logs one message: that call must return at once (maxcall_us) and the
//   message must still be delivered by the logger thread.  Header: quotas=<per-producer message counts>.
//   In drain mode a non-zero <stall ms> is the sink's time PER MESSAGE instead of 100 ms (a long backlog: <per> x <stall ms>
//   of sink work is queued when resetOwnThread() is called; every message must still reach the sink, in order).
//   "drainlast": as drain, but producer 1 logs once the sink has ENTERED the last queued message (+ a quarter of the sink's time per
//   message): the stop is under way and the logger thread is inside the pipeline for the last message - the late message must
//   still be handed to the logger thread (never run by the caller next to it) and be delivered after it.
// Texts: every 9th message carries a leading / embedded / trailing U+0000.  line = index * 64 + producer.
//   Empty texts (null QString / ""): message 0 of the producers with (p + seed) odd, the last message of the others, every 13th
//   (i % 13 == 8) of every producer; some of them carry a pre-set formatted text (i % 6 == 1).  The sink finds (p, i) in the line then.
// Time formats ("tfmt" = 1): the pipeline on the worker additionally holds PatternFormatter("%{time process}~%{time boot}~%{time hh:mm:ss.zzz}")
//   in front of the sink, so that the TEXT the sink receives carries the message's time stamps as the library renders them.  bare
//   mode: the twin's formatted text is what the same formatter yields synchronously on the original message (exact equality is
//   required); logger mode: the twin carries the steady-clock interval [before the call, after it returned] and the rendered values
//   must lie inside it.  Header: tcal=<ms> = (boot - process) rendering offset measured once, single-threaded, on a fresh message.
//   "noapp" (process started with --no-app-first): bare handler; moveToOwnThread() is called and <per> messages are logged by the
//   main thread while NO QCoreApplication exists (only the first <stall ms> of them, default 0: the rest right after); then the application object is created, the main thread logs <per> more while a
//   second thread logs <per>; the main thread then spins its event loop until all 3 x <per> messages reached the sink and stops the
//   logger thread through resetOwnThread().  Header: app_at_move=0|1.  Every delivery must be on ownThread(), never on the caller.
//   Without --no-app-first the same scenario runs with the application object present from the start (app_at_move=1).
// input line:  <mode> <producers> <messages each> <seed> <perturb 0..3> <sinkdelay 0..2> [<stall ms> [<tfmt 0|1>]]
//   stall: the sink sleeps that long once, inside its first delivery (a stalled sink); the header reports the longest
//   logging call (maxcall_us) so that a call blocking on the sink is visible
// output: RUN header; "EV <tokens>"; "TW p i <dump>" per message; "AS k p i onworker <dump>" per delivery;
//         "FL p i onworker" per entry of the sink's flush(); "END".   Messages of all five types incl. QtFatalMsg are sent (fatal
//         through process()/Logger::processMessage directly: qFatal() itself would abort).  The time field of a dump is
//         msecs~timeSpec~offsetFromUtc~ISO text, so that a copy that changes the time zone representation is visible.
#ifdef VERIF_HEADER_ONLY
#include "qtlogger.h"
#else
#include "qtlogger/qtlogger.h"
#endif
#include <QCoreApplication>
#include <atomic>
#include <chrono>
#include <cstring>
#include <functional>
#include <iostream>
#include <memory>
#include <mutex>
#include <random>
#include <sstream>
#include <thread>
#include <vector>
#include <unistd.h>
using namespace QtLogger;

struct Ev { char kind; int prod, idx; };
static std::vector<Ev> g_events;
static std::atomic<long> g_ticket{0};
static int g_perturb = 1, g_sinkdelay = 0, g_stall_ms = 0, g_slow_ms = 0, g_tfmt = 0;
static const char *TIME_PATTERN = "%{time process}~%{time boot}~%{time hh:mm:ss.zzz}";
static std::atomic<bool> g_all_posted{false};
static std::atomic<bool> g_relogged{false};
static std::function<void()> g_relog;
static std::atomic<int> g_max_nesting{0};
thread_local int tl_depth = 0;
static std::atomic<bool> g_stalled{false};
static std::atomic<int> g_sink_entered{0};
static std::atomic<long> g_maxcall_us{0};
thread_local int tl_prod = -1;
thread_local int tl_idx = -1;
thread_local std::mt19937 tl_rng{12345};

static inline void record(char k, int p, int i)
{
    long t = g_ticket.fetch_add(1, std::memory_order_relaxed);
    if (t < (long)g_events.size()) g_events[t] = Ev { k, p, i };
}
static void perturb()
{
    if (g_perturb == 0) return;
    unsigned r = tl_rng() % 64;
    if (g_perturb >= 3 && r < 48) std::this_thread::yield();
    else if (r < 20) std::this_thread::yield();
    else if (r < 24 && g_perturb >= 2) usleep(tl_rng() % 60);
    else if (r < 36) { volatile unsigned x = 0; for (unsigned k = tl_rng() % 400; k; --k) x += k; }
}
extern "C" void qtlogger_verif_point(const char *name)
{
    if (tl_prod >= 0) {
        if (!strcmp(name, "own.locked")) record('P', tl_prod, tl_idx);
        else if (!strcmp(name, "own.posted")) record('R', tl_prod, tl_idx);
    }
    perturb();
}
static std::string hex(const QByteArray &b) { return b.isEmpty() ? std::string("") : std::string(b.toHex().constData()); }
static std::string cs(const char *s) { return s ? "h" + hex(QByteArray(s)) : std::string("-"); }
// every accessor of the message, canonical; seq_number is reported apart from the other attributes
static std::string dump(const LogMessage &m)
{
    std::ostringstream o;
    QStringList kv;
    auto a = m.attributes();
    auto ks = a.keys();
    ks.sort();
    QString seq = "-";
    for (auto &k : ks) {
        if (k == "seq_number") { seq = a.value(k).toString(); continue; }
        kv << QString::fromLatin1(k.toUtf8().toHex()) + "=" + QString::fromLatin1(a.value(k).toString().toUtf8().toHex());
    }
    o << (int)m.type() << "|h" << hex(m.message().toUtf8()) << "|" << cs(m.file()) << "|" << m.line() << "|" << cs(m.function()) << "|"
      << cs(m.category()) << "|" << m.time().toMSecsSinceEpoch() << "~" << (int)m.time().timeSpec() << "~" << m.time().offsetFromUtc() << "~"
      << m.time().toString(Qt::ISODateWithMs).toStdString() << "|" << m.steadyTime().time_since_epoch().count() << "|"
      << m.threadId() << "|" << (m.isFormatted() ? "h" + hex(m.formattedMessage().toUtf8()) : std::string("-")) << "|"
      << kv.join(",").toStdString() << "|" << seq.toStdString();
    return o.str();
}
struct Rec { int k, p, i, onworker; std::string d; };
static std::vector<Rec> g_async;
static std::mutex g_async_mx;       // harness-only: keeps the record vector intact even if a broken library delivers concurrently
static QThread *g_worker_thread = nullptr;
struct RandomWork : Handler {
    bool process(LogMessage &) override
    {
        unsigned r = tl_rng() % 16;
        if (g_sinkdelay == 0) return true;
        if (r < 4) std::this_thread::yield();
        else if (r < 6 && g_sinkdelay >= 2) usleep(tl_rng() % 300);
        else if (r < 12) { volatile unsigned x = 0; for (unsigned k = tl_rng() % 3000; k; --k) x += k; }
        return true;
    }
};
struct FlushRec { int p, i, onworker; };
static std::vector<FlushRec> g_flushes;
struct RecSink : Sink {
    bool flush() override      // a sink entry point as well: must only ever be entered on the logger thread in own-thread mode
    {
        std::lock_guard<std::mutex> l(g_async_mx);
        g_flushes.push_back(FlushRec { tl_prod, tl_idx, QThread::currentThread() == g_worker_thread ? 1 : 0 });
        return true;
    }
    void send(const LogMessage &m) override
    {
        int p = -1, i = -1;
        QString t = m.message(); t.remove(QChar(0));
        if (sscanf(t.toUtf8().constData(), "%d %d", &p, &i) != 2) { p = m.line() % 64; i = m.line() / 64; }   // text lost: identify by line
        if (++tl_depth > g_max_nesting.load()) g_max_nesting = tl_depth;
        record('D', p, i);
        g_sink_entered++;
        if (g_stall_ms > 0 && !g_stalled.exchange(true)) usleep(g_stall_ms * 1000);
        if (g_slow_ms > 0) usleep(g_slow_ms * 1000);
        {
            std::lock_guard<std::mutex> l(g_async_mx);
            g_async.push_back(Rec { (int)g_async.size(), p, i, QThread::currentThread() == g_worker_thread ? 1 : 0, dump(m) });
        }
        if (g_relog && p == 0 && i == 1 && !g_relogged.exchange(true)) {
            for (int k = 0; k < 3000 && !g_all_posted.load(); k++) usleep(1000);      // everything else is queued behind us now
            g_relog();
        }
        --tl_depth;
    }
};
template <class P> static void build(P &pl)
{
    pl << SeqNumberAttrPtr::create();
    if (g_tfmt) pl << PatternFormatterPtr::create(QString::fromLatin1(TIME_PATTERN));    // renders the message's time stamps on the worker
    pl << QSharedPointer<RandomWork>::create() << QSharedPointer<RecSink>::create();
}
static char *heapstr(const std::string &s) { char *p = (char *)malloc(s.size() + 1); memcpy(p, s.c_str(), s.size() + 1); return p; }
static void scrub(char *p) { if (p) { memset(p, 'X', strlen(p)); free(p); } }
static const QtMsgType TYPES[5] = { QtDebugMsg, QtInfoMsg, QtWarningMsg, QtCriticalMsg, QtFatalMsg };

int main(int argc, char **argv)
{
    // "--no-app-first": the application object is NOT constructed up front; mode "noapp" then calls moveToOwnThread() and logs
    // while no QCoreApplication exists and creates it afterwards (the header reports app_at_move=0)
    const bool no_app_first = argc > 1 && !strcmp(argv[1], "--no-app-first");
    std::unique_ptr<QCoreApplication> app;
    if (!no_app_first) app.reset(new QCoreApplication(argc, argv));
    int app_at_move = -1;
    {   // Qt's local-time machinery initialises lazily; do it once before any thread exists (harness hygiene: the dumps of
        // the producers call QDateTime::toString concurrently)
        QDateTime now = QDateTime::currentDateTime();
        (void)now.toString(Qt::ISODateWithMs); (void)now.offsetFromUtc(); (void)now.toUTC().toString(Qt::ISODateWithMs);
    }
    std::string line;
    while (std::getline(std::cin, line)) {
        std::istringstream is(line);
        std::string mode; int n = 2, per = 10; unsigned seed = 1;
        g_stall_ms = 0; g_tfmt = 0; g_stalled = false; g_maxcall_us = 0; g_slow_ms = 0; g_all_posted = false; g_relogged = false; g_relog = nullptr; g_max_nesting = 0; g_sink_entered = 0;
        is >> mode >> n >> per >> seed >> g_perturb >> g_sinkdelay >> g_stall_ms >> g_tfmt;
        if (mode.empty()) continue;
        g_events.assign((size_t)n * per * 6 + 64, Ev { '?', 0, 0 });
        g_ticket = 0;
        g_async.clear(); g_flushes.clear();
        long tcal = 0;
        if (g_tfmt) {       // single-threaded calibration: how far apart the library renders "boot" and "process" for one and the same message
            PatternFormatter cf(QString::fromLatin1(TIME_PATTERN));
            LogMessage m0(QtInfoMsg, QMessageLogContext("cal.cpp", 1, "void cal()", "default"), QStringLiteral("cal"));
            const QStringList f = cf.format(m0).split(QLatin1Char('~'));
            if (f.size() >= 2) tcal = qRound64(f[1].toDouble() * 1000.0) - qRound64(f[0].toDouble() * 1000.0);
        }
        std::vector<std::vector<std::string>> twin(n + 1);
        std::vector<int> quotas(n, per);
        std::atomic<int> ready{0};
        auto producer = [&](int p, std::function<void(int, int, std::string &)> send_one) {
            tl_rng.seed(seed * 7919u + p * 104729u + 17);
            ready++; while (ready.load() < n) std::this_thread::yield();
            for (int i = 0; i < per; i++) {
                std::string tw;
                tl_prod = p; tl_idx = i;
                auto c0 = std::chrono::steady_clock::now();
                send_one(p, i, tw);
                long us = std::chrono::duration_cast<std::chrono::microseconds>(std::chrono::steady_clock::now() - c0).count();
                long cur = g_maxcall_us.load();
                while (us > cur && !g_maxcall_us.compare_exchange_weak(cur, us)) { }
                tl_prod = -1;
                twin[p].push_back(tw);
                if (tl_rng() % 4 == 0) perturb();
                if (tl_rng() % 64 == 0) usleep(tl_rng() % 200);     // bursts
            }
        };
        auto fields = [&per, &seed](int p, int i, char *&f, char *&fn, char *&c, int &ln, QtMsgType &ty, QString &text) {
            f = (i % 5 == 0) ? nullptr : heapstr("/src/dir" + std::to_string(p) + "/file" + std::to_string(i % 3) + ".cpp");
            fn = (i % 5 == 0) ? nullptr : heapstr("void Cls" + std::to_string(p) + "::fn" + std::to_string(i) + "(int, const QString &)");
            c = (i % 7 == 3) ? nullptr : heapstr("cat." + std::to_string(i % 4));
            ln = i * 64 + p; ty = TYPES[(i + p) % 5];
            text = QString::number(p) + QLatin1Char(' ') + QString::number(i) + QStringLiteral(" payload é中 ") + QString(i % 11, QLatin1Char('z'));
            if (i % 9 == 2) text.prepend(QChar(0));                       // NUL characters are part of the text
            else if (i % 9 == 4) text.insert(text.size() / 2, QChar(0));
            else if (i % 9 == 6) text.append(QChar(0));
            // empty texts (alternately a null QString and ""): the first message of every other producer, the last message of the
            // others, and every 13th in between - the sink then identifies the message by its line number
            const bool first_empty = (i == 0 && (p + seed) % 2 == 1), last_empty = (per > 2 && i == per - 1 && (p + seed) % 2 == 0);
            if (first_empty || last_empty || i % 13 == 8) text = ((i + p) % 2) ? QString() : QStringLiteral("");
        };
        std::vector<std::thread> ths;
        const bool drainlast = mode == "drainlast";
        if (drainlast) mode = "drain";
        if (mode == "bare" || mode == "drain" || mode == "noapp") {
            OwnThreadHandler<SimplePipeline> h;
            build(h);
            app_at_move = QCoreApplication::instance() ? 1 : 0;
            h.moveToOwnThread();
            g_worker_thread = h.ownThread();
            auto bare_send = [&](int p, int i, std::string &tw) {
                    char *f, *fn, *c; int ln; QtMsgType ty; QString text;
                    fields(p, i, f, fn, c, ln, ty, text);
                    {
                        QMessageLogContext ctx(f, ln, fn, c);
                        LogMessage m(ty, ctx, text);
                        m.setAttribute("k", i); m.setAttribute(QStringLiteral("who"), QStringLiteral("p%1").arg(p));
                        if (i % 6 == 1) m.setFormattedMessage(QStringLiteral("pre<") + text + QStringLiteral(">"));
                        if (g_tfmt) {       // what a synchronous pipeline with the same formatter hands to its sink
                            thread_local PatternFormatter twf(QString::fromLatin1(TIME_PATTERN));
                            LogMessage m2(m);
                            m2.setFormattedMessage(twf.format(m2));
                            tw = dump(m2);
                        } else tw = dump(m);
                        record('C', p, i);
                        h.process(m);
                        record('T', p, i);
                    }
                    scrub(f); scrub(fn); scrub(c);
                };
            if (mode == "noapp") {
                // producer 0 = this (main) thread: <per> messages while no application object exists (with --no-app-first), then the
                // QCoreApplication is created, then <per> more while producer 1 (a second thread) logs <per>; finally the main thread
                // runs its event loop until every message has reached the sink (or 60 s), and the logger thread is stopped normally
                n = 2; quotas = { 2 * per, per };
                g_events.assign((size_t)per * 3 * 6 + 64, Ev { '?', 0, 0 });
                tl_rng.seed(seed * 7919u + 17);
                auto main_send = [&](int i) { std::string tw; tl_prod = 0; tl_idx = i; bare_send(0, i, tw); tl_prod = -1; twin[0].push_back(tw); };
                // <stall ms> field = how many of the first <per> messages are logged BEFORE the application object exists (default 0:
                // Qt drops events dispatched in a thread while no QCoreApplication exists, see the report; that is a separate finding)
                const int pre = std::min(per, g_stall_ms); g_stall_ms = 0; g_stalled = true;
                for (int i = 0; i < pre; i++) main_send(i);
                if (!app) app.reset(new QCoreApplication(argc, argv));
                for (int i = pre; i < per; i++) main_send(i);
                std::thread second([&] {
                    tl_rng.seed(seed * 7919u + 104729u + 17);
                    for (int i = 0; i < per; i++) { std::string tw; tl_prod = 1; tl_idx = i; bare_send(1, i, tw); tl_prod = -1; twin[1].push_back(tw); }
                });
                for (int i = per; i < 2 * per; i++) main_send(i);
                second.join();
                for (int k = 0; k < 60000 && g_sink_entered.load() < 3 * per; k++) { QCoreApplication::processEvents(QEventLoop::AllEvents, 5); usleep(1000); }
                QCoreApplication::processEvents(QEventLoop::AllEvents, 5);
            } else if (mode == "drain") {
                n = 2; quotas = { per, 1 };
                g_slow_ms = g_stall_ms > 0 ? g_stall_ms : 100;
                g_stalled = true;       // no one-off stall in this mode
                tl_prod = 0;
                for (int i = 0; i < per; i++) { std::string tw; tl_idx = i; bare_send(0, i, tw); twin[0].push_back(tw); }
                tl_prod = -1;
                std::thread stopper([&] { h.resetOwnThread(); });
                std::thread late([&] {
                    if (drainlast) {
                        for (int k = 0; k < 120000 && g_sink_entered.load() < per; k++) usleep(500);
                        usleep(g_slow_ms * 1000 / 4);
                    } else usleep(200 * 1000);
                    std::string tw; tl_prod = 1; tl_idx = 0;
                    auto c0 = std::chrono::steady_clock::now();
                    bare_send(1, 0, tw);
                    g_maxcall_us = std::chrono::duration_cast<std::chrono::microseconds>(std::chrono::steady_clock::now() - c0).count();
                    tl_prod = -1; twin[1].push_back(tw);
                });
                late.join(); stopper.join();
            } else {
                for (int p = 0; p < n; p++) ths.emplace_back(producer, p, bare_send);
                for (auto &t : ths) t.join();
            }
            h.resetOwnThread();
        } else {
            Logger lg;
            build(lg);
            lg.moveToOwnThread();
            g_worker_thread = lg.ownThread();
            lg.installMessageHandler();
            auto logger_send = [&](int p, int i, std::string &tw) {
                    char *f, *fn, *c; int ln; QtMsgType ty; QString text;
                    fields(p, i, f, fn, c, ln, ty, text);
                    if (!c) c = heapstr("default");       // QMessageLogger needs a category name
                    if (text.contains(QChar(0)) && ty != QtFatalMsg) {      // printf-style macros cannot carry U+0000: documented entry point
                        QByteArray u = text.toUtf8(); std::ostringstream o;
                        qint64 t0 = QDateTime::currentMSecsSinceEpoch();
                        const long long s0 = std::chrono::steady_clock::now().time_since_epoch().count();
                        record('C', p, i);
                        { QMessageLogContext ctx(f, ln, fn, c); lg.processMessage(ty, ctx, text); }
                        record('T', p, i);
                        const long long s1 = std::chrono::steady_clock::now().time_since_epoch().count();
                        qint64 t1 = QDateTime::currentMSecsSinceEpoch();
                        o << (int)ty << "|h" << hex(u) << "|" << cs(f) << "|" << ln << "|" << cs(fn) << "|" << cs(c) << "|" << t0 << ".." << t1
                          << "~" << (int)Qt::LocalTime << "~" << QDateTime::fromMSecsSinceEpoch(t0).offsetFromUtc() << "~*"
                          << "|" << s0 << ".." << s1 << "|" << (quint64) reinterpret_cast<quintptr>(QThread::currentThreadId()) << "|-||-";
                        tw = o.str();
                        scrub(f); scrub(fn); scrub(c);
                        return;
                    }
                    QByteArray u = text.toUtf8();
                    std::ostringstream o;
                    qint64 t0 = QDateTime::currentMSecsSinceEpoch();
                    const long long s0 = std::chrono::steady_clock::now().time_since_epoch().count();
                    record('C', p, i);
                    QMessageLogger ml(f, ln, fn, c);
                    switch (ty) {
                    case QtDebugMsg: ml.debug("%s", u.constData()); break;
                    case QtInfoMsg: ml.info("%s", u.constData()); break;
                    case QtWarningMsg: ml.warning("%s", u.constData()); break;
                    case QtCriticalMsg: ml.critical("%s", u.constData()); break;
                    default: {      // fatal level without the abort of qFatal(): the documented entry point, called directly
                        QMessageLogContext ctx(f, ln, fn, c);
                        lg.processMessage(QtFatalMsg, ctx, text);
                    } break;
                    }
                    record('T', p, i);
                    const long long s1 = std::chrono::steady_clock::now().time_since_epoch().count();
                    qint64 t1 = QDateTime::currentMSecsSinceEpoch();
                    o << (int)ty << "|h" << hex(u) << "|" << cs(f) << "|" << ln << "|" << cs(fn) << "|" << cs(c) << "|" << t0 << ".." << t1
                      << "~" << (int)Qt::LocalTime << "~" << QDateTime::fromMSecsSinceEpoch(t0).offsetFromUtc() << "~*"
                      << "|" << s0 << ".." << s1 << "|" << (quint64) reinterpret_cast<quintptr>(QThread::currentThreadId()) << "|-||-";
                    tw = o.str();
                    scrub(f); scrub(fn); scrub(c);
                };
            if (mode == "relog") {
                quotas.push_back(1);
                g_relog = [&] {       // runs on the logger thread, inside the sink
                    std::string tw; tl_prod = n; tl_idx = 0;
                    logger_send(n, 0, tw);
                    tl_prod = -1; twin[n].push_back(tw);
                };
            }
            for (int p = 0; p < n; p++) ths.emplace_back(producer, p, logger_send);
            for (auto &t : ths) t.join();
            g_all_posted = true;
            lg.resetOwnThread();
            g_relog = nullptr;
            Logger::restorePreviousMessageHandler();
        }
        long cnt = std::min<long>(g_ticket.load(), (long)g_events.size());
        std::ostringstream o;
        o << "RUN " << (drainlast ? "drainlast" : mode.c_str()) << " " << n << " " << per << " " << seed << " " << g_perturb << " " << g_sinkdelay << " events=" << g_ticket.load()
          << (g_ticket.load() > (long)g_events.size() ? " OVERFLOW" : "") << " stall_ms=" << g_stall_ms << " maxcall_us=" << g_maxcall_us.load() << " max_nesting=" << g_max_nesting.load() << " tfmt=" << g_tfmt << " tcal=" << tcal << " app_at_move=" << app_at_move << " quotas=";
        for (size_t k = 0; k < quotas.size(); k++) o << (k ? "," : "") << quotas[k];
        o << "\nEV ";
        for (long k = 0; k < cnt; k++) o << g_events[k].kind << "." << g_events[k].prod << "." << g_events[k].idx << " ";
        o << "\n";
 for (int p = 0; p < (int)twin.size(); p++)
            for (size_t i = 0; i < twin[p].size(); i++) o << "TW " << p << " " << i << " " << twin[p][i] << "\n";
        for (auto &r : g_async) o << "AS " << r.k << " " << r.p << " " << r.i << " " << r.onworker << " " << r.d << "\n";
        for (auto &f : g_flushes) o << "FL " << f.p << " " << f.i << " " << f.onworker << "\n";
        o << "END";
        std::cout << o.str() << std::endl;
    }
    return 0;
}
