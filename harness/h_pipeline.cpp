// C01 harness: builds the described handler tree out of REAL library objects (SimplePipeline with its
// fluent calls and pipeline()/end(), plain Pipeline(scoped), FunctionAttrHandler / FunctionFilter /
// FunctionFormatter / FunctionHandler with scripted deterministic behaviours, SeqNumberAttr /
// DuplicateFilter / LevelFilter (thin logging subclasses that call the real virtual), a recording
// Sink, null entries through append(initializer_list), one QSharedPointer inserted at several
// places, children that enter the tree as COPIES of a built pipeline object: copy constructor, the by-value
// helper operator<<(Logger *, const Pipeline &), copy assignment - token suffix ~<how>), processes the message sequence - interleaved with structural edits of any pipeline of the
// tree through append / operator<< / the fluent calls / append(list) / remove / clear / the typed
// SortedPipeline calls and clear<Class>() - and prints what every leaf's function saw/returned.
// Attribute values are typed (QString, int, bool, double, QByteArray); deliveries print type + value.
// Protocol: see ocaml/drv_pipeline.ml (same tokens, same output).
#ifdef VERIF_HEADER_ONLY
#include "qtlogger.h"
#else
#include "qtlogger/qtlogger.h"
#endif
#include <algorithm>
#include <cmath>
#include <iostream>
#include <map>
#include <sstream>
#include <string>
#include <vector>
using namespace QtLogger;

static std::ostringstream out;
static bool first_ev = true;
static void sep() { if (!first_ev) out << ";"; first_ev = false; }

static QString unhex(const QString &h)
{
    QString s;
    for (int i = 0; i + 3 < h.size(); i += 4) s.append(QChar(ushort(h.mid(i, 4).toUInt(nullptr, 16))));
    return s.isNull() ? QString("") : s;
}
static std::string hex(const QString &s)
{
    std::string r; char b[8];
    for (QChar c : s) { snprintf(b, sizeof b, "%04x", unsigned(c.unicode())); r += b; }
    return r;
}
// typed value token: bare hex = QString, i~<int>, b~<0|1>, f~<n> = the double n/2, y~<hex bytes> = QByteArray
static QVariant tval(const QString &t)
{
    if (t.size() >= 2 && t[1] == '~') {
        const QString r = t.mid(2);
        switch (t[0].unicode()) {
        case 'i': return QVariant(r.toInt());
        case 'b': return QVariant(r == "1");
        case 'f': return QVariant(r.toInt() / 2.0);
        case 'y': return QVariant(QByteArray::fromHex(r.toLatin1()));
        case 's': return QVariant(unhex(r));
        }
    }
    return QVariant(unhex(t));
}
static std::string content(const LogMessage &m)
{
    std::vector<std::string> kv;
    const auto a = m.attributes();
    for (auto it = a.begin(); it != a.end(); ++it) {
        std::string v;
        const int ut = it.value().userType();
        if (ut == QMetaType::QString) v = "s" + hex(it.value().toString());
        else if (ut == QMetaType::Int) v = "i" + std::to_string(it.value().toInt());
        else if (ut == QMetaType::Bool) v = it.value().toBool() ? "b1" : "b0";
        else if (ut == QMetaType::Double) { double d2 = it.value().toDouble() * 2; long long n = std::llround(d2);
            v = (double(n) == d2) ? "f" + std::to_string(n) : std::string("f?"); }
        else if (ut == QMetaType::QByteArray) v = "y" + it.value().toByteArray().toHex().toStdString();
        else v = "?";
        kv.push_back(hex(it.key()) + "=" + v);
    }
    std::sort(kv.begin(), kv.end());
    std::string j;
    for (size_t i = 0; i < kv.size(); i++) j += (i ? "," : "") + kv[i];
    return hex(m.formattedMessage()) + "." + (m.isFormatted() ? "F" : "U") + "." + j + "." + hex(m.message());
}
static void logx(int id, bool r) { sep(); out << "x" << id << "." << (r ? 1 : 0); }

struct RecSink : Sink {
    int id; explicit RecSink(int i) : id(i) {}
    void send(const LogMessage &m) override { sep(); out << "d" << id << ".s." << content(m); }
};
struct LoggedSeq : SeqNumberAttr {
    int id; LoggedSeq(int i, const QString &n) : SeqNumberAttr(n), id(i) {}
    QVariantHash attributes(const LogMessage &m) override { logx(id, true); return SeqNumberAttr::attributes(m); }
};
struct LoggedDup : DuplicateFilter {
    int id; explicit LoggedDup(int i) : id(i) {}
    bool filter(const LogMessage &m) override { bool r = DuplicateFilter::filter(m); logx(id, r); return r; }
};
struct LoggedLevel : LevelFilter {
    int id; LoggedLevel(int i, QtMsgType t) : LevelFilter(t), id(i) {}
    bool filter(const LogMessage &m) override { bool r = LevelFilter::filter(m); logx(id, r); return r; }
};

// `pending`/`how`: the child is being built in an object that is NOT in the tree; at its ')' a COPY of it is attached
struct Frame { Pipeline *p; SimplePipeline *sp; bool fluent_child; PipelinePtr pending = PipelinePtr(); int how = 0; bool scoped = false; };

// ---- children that enter the tree as COPIES of an already built pipeline object (token suffix ~<how>) -------------
// how: 1 copy constructor (`PipelinePtr::create(existing)`) once the original is complete, 2 the library's by-value
// helper `operator<<(Logger *, const Pipeline &)` once the original is complete, 3 copy constructor of the still EMPTY
// original (the handlers then go into the copy), 4 copy ASSIGNMENT onto an object constructed with the opposite
// scoped flag and a stray sink in its list.  A SimplePipeline child stays a SimplePipeline (later typed edits
// address it), so the slicing helper (2) is used for plain Pipeline children only.
static PipelinePtr copy_of(const PipelinePtr &orig, bool simple, bool scoped, int how)
{
    if (simple) {
        auto o = orig.staticCast<SimplePipeline>();
        if (how == 4) {
            auto q = SimplePipelinePtr::create(!scoped);
            q->append(QSharedPointer<RecSink>::create(9999));
            *q = *o;
            return q;
        }
        return SimplePipelinePtr::create(*o);
    }
    if (how == 2) {
        static Logger lg;
        lg.clear();
        &lg << *orig;
        const auto &l = static_cast<const Pipeline &>(lg).handlers();
        PipelinePtr q = l.isEmpty() || !l.last() ? PipelinePtr() : l.last().dynamicCast<Pipeline>();
        lg.clear();
        return q;
    }
    if (how == 4) {
        auto q = PipelinePtr::create(!scoped);
        q->append(QSharedPointer<RecSink>::create(9999));
        *q = *orig;
        return q;
    }
    return PipelinePtr::create(*orig);
}
// "(+~2" -> base "(+", how 2
static int split_how(QString &k)
{
    const int i = k.indexOf('~');
    if (i < 0) return 0;
    const int how = k.mid(i + 1).toInt();
    k = k.left(i);
    return how;
}

// what a leaf token describes: a scripted function of one of the four std::function kinds, or a ready object
struct Spec {
    char kind = 0;   // 'A' attribute function, 'F' filter function, 'M' formatter function, 'G' generic function, 'H' object
    std::function<QVariantHash(const LogMessage &)> fa;
    std::function<bool(const LogMessage &)> ff;
    std::function<QString(const LogMessage &)> fm;
    std::function<bool(LogMessage &)> fg;
    HandlerPtr h;
};

static bool spec_of(const QStringList &p, Spec &s)
{
    const QString k = p[0];
    if (p.size() < 2) return false;
    const int id = p[1].toInt();
    if (k == "as" || k == "ac" || k == "am") {
        s.kind = 'A';
        if (k == "as") { if (p.size() < 4) return false; QString kk = unhex(p[2]); QVariant v = tval(p[3]);
            s.fa = [id, kk, v](const LogMessage &) { logx(id, true); return QVariantHash{ { kk, v } }; }; }
        else if (k == "am") { QVariantHash hsh;   // several pairs; later pairs of the list win
            for (const QString &kv : p.value(2).split(',', Qt::SkipEmptyParts)) { auto q = kv.split('.'); hsh.insert(unhex(q[0]), tval(q.value(1))); }
            s.fa = [id, hsh](const LogMessage &) { logx(id, true); return hsh; }; }
        else { if (p.size() < 3) return false; QString kk = unhex(p[2]);
            s.fa = [id, kk](const LogMessage &m) { logx(id, true); return QVariantHash{ { kk, m.formattedMessage() } }; }; }
    } else if (k == "ft" || k == "ff" || k == "fc" || k == "fh" || k == "fy") {
        s.kind = 'F';
        if (k == "ft") s.ff = [id](const LogMessage &) { logx(id, true); return true; };
        else if (k == "ff") s.ff = [id](const LogMessage &) { logx(id, false); return false; };
        else if (p.size() < 3) return false;
        else if (k == "fc") { QString t = unhex(p[2]); s.ff = [id, t](const LogMessage &m) { bool r = m.formattedMessage().contains(t); logx(id, r); return r; }; }
        else if (k == "fh") { QString t = unhex(p[2]); s.ff = [id, t](const LogMessage &m) { bool r = m.hasAttribute(t); logx(id, r); return r; }; }
        else { int t = p[2].toInt(); s.ff = [id, t](const LogMessage &m) { bool r = int(m.type()) == t; logx(id, r); return r; }; }
    } else if (k == "mt" || k == "ma" || k == "mn" || k == "me") {
        s.kind = 'M';
        if (k == "mt") { if (p.size() < 3) return false; QString tag = unhex(p[2]); s.fm = [id, tag](const LogMessage &m) { logx(id, true); return tag + ":" + m.formattedMessage(); }; }
        else if (k == "ma") { if (p.size() < 4) return false; QString tag = unhex(p[2]), kk = unhex(p[3]);
            s.fm = [id, tag, kk](const LogMessage &m) { logx(id, true);
                QString v = m.hasAttribute(kk) ? (m.attribute(kk).userType() == QMetaType::QString ? m.attribute(kk).toString() : QString("#")) : QString("-");
                return tag + "[" + v + "]"; }; }
        else if (k == "mn") s.fm = [id](const LogMessage &) { logx(id, true); return QString(); };
        else s.fm = [id](const LogMessage &) { logx(id, true); return QString(""); };
    } else if (k == "p" || k == "gs" || k == "gr" || k == "gf" || k == "gc") {
        s.kind = 'G';
        if (k == "p") s.fg = [id](LogMessage &m) { sep(); out << "d" << id << ".p." << content(m); return true; };
        else if (k == "gs") { if (p.size() < 5) return false; QString kk = unhex(p[2]); QVariant v = tval(p[3]); bool r = p[4] == "1";
            s.fg = [id, kk, v, r](LogMessage &m) { logx(id, r); m.setAttribute(kk, v); return r; }; }
        else if (k == "gr") { if (p.size() < 4) return false; QString kk = unhex(p[2]); bool r = p[3] == "1"; s.fg = [id, kk, r](LogMessage &m) { logx(id, r); m.removeAttribute(kk); return r; }; }
        else if (k == "gf") { if (p.size() < 4) return false; QString tag = unhex(p[2]); bool r = p[3] == "1"; s.fg = [id, tag, r](LogMessage &m) { logx(id, r); m.setFormattedMessage(tag + m.formattedMessage()); return r; }; }
        else { if (p.size() < 3) return false; bool r = p[2] == "1"; s.fg = [id, r](LogMessage &m) { logx(id, r); m.setFormattedMessage(QString()); return r; }; }
    } else {
        s.kind = 'H';
        if (k == "s") s.h = QSharedPointer<RecSink>::create(id);
        else if (k == "q" && p.size() >= 3) s.h = QSharedPointer<LoggedSeq>::create(id, unhex(p[2]));
        else if (k == "d") s.h = QSharedPointer<LoggedDup>::create(id);
        else if (k == "l" && p.size() >= 3) s.h = QSharedPointer<LoggedLevel>::create(id, QtMsgType(p[2].toInt()));
        else return false;
    }
    return true;
}

static HandlerPtr object_of(const Spec &s)
{
    switch (s.kind) {
    case 'A': return FunctionAttrHandlerPtr::create(s.fa);
    case 'F': return FunctionFilterPtr::create(s.ff);
    case 'M': return FunctionFormatterPtr::create(s.fm);
    case 'G': return FunctionHandlerPtr::create(s.fg);
    default: return s.h;
    }
}

struct Ctx {
    std::map<int, HandlerPtr> objects;      // oid -> the one object of that identity
    std::vector<HandlerPtr> keep;
    bool bad = false, err = false;
    std::string why;
    void fail(const std::string &w) { if (!err) why = w; err = true; }
};

// Pipeline::append / the fluent call (two thirds of the fresh objects where the pipeline is a SimplePipeline);
// `shift` = use operator<< instead of append() for the plain insertion
static void add_leaf(Ctx &c, Pipeline *cur, SimplePipeline *sp, const QStringList &p, bool shift)
{
    if (p.size() < 2) { c.bad = true; return; }
    const int id = p[1].toInt();
    if (c.objects.count(id)) { if (shift) *cur << c.objects[id]; else cur->append(c.objects[id]); return; }   // the same object at another place
    Spec s;
    if (!spec_of(p, s)) { c.bad = true; return; }
    HandlerPtr h;
    const bool fluent = sp != nullptr && (id % 3 != 0) && s.kind != 'H';
    if (fluent) {
        switch (s.kind) {
        case 'A': sp->attrHandler(s.fa); break;
        case 'F': sp->filter(s.ff); break;
        case 'M': sp->format(s.fm); break;
        default: sp->handler(s.fg); break;
        }
        h = static_cast<const Pipeline *>(cur)->handlers().last();
    } else {
        h = object_of(s);
        if (shift) *cur << h; else cur->append(h);
    }
    c.objects[id] = h;
}

static bool has_null(const Pipeline *p)
{
    for (const auto &h : p->handlers()) if (!h) return true;
    return false;
}

// one edit token  @<path>@<op>[@<arg>]  applied to the real tree
static void apply_edit(Ctx &c, SimplePipeline *root, const QString &tok)
{
    const QStringList e = tok.split('@');            // "", path, op, [arg]
    if (e.size() < 3) { c.fail("bad edit"); return; }
    Pipeline *cur = root;
    for (const QString &ix : e[1].split('/', Qt::SkipEmptyParts)) {
        const auto &l = static_cast<const Pipeline *>(cur)->handlers();
        const int i = ix.toInt();
        PipelinePtr q = (i >= 0 && i < l.size() && l[i]) ? l[i].dynamicCast<Pipeline>() : PipelinePtr();
        if (!q) { c.fail("edit path does not address a pipeline"); return; }
        cur = q.data();
    }
    SimplePipeline *sp = dynamic_cast<SimplePipeline *>(cur);
    SortedPipeline *so = dynamic_cast<SortedPipeline *>(cur);
    const QString op = e[2], arg = e.value(3);
    if (op == "n") { cur->append(std::initializer_list<HandlerPtr>{ HandlerPtr() }); return; }
    if (op == "c") { if (so) so->clear(); else cur->clear(); return; }
    if (op == "r") { const int id = arg.toInt(); if (c.objects.count(id)) cur->remove(c.objects[id]); return; }
    if ((op == "k" || op == "t") && !so) { c.fail("typed call on a plain Pipeline"); return; }
    if ((op == "k" || op == "t") && has_null(cur)) { c.fail("typed call on a list with a null entry (x->type() on a null pointer)"); return; }
    if (op == "k") {
        if (arg == "A") so->clearAttrHandlers(); else if (arg == "F") so->clearFilters(); else if (arg == "M") so->clearFormatters();
        else if (arg == "S") so->clearSinks(); else if (arg == "P") so->clearPipelines(); else c.fail("bad class");
        return;
    }
    if (op != "a" && op != "t") { c.fail("bad edit op"); return; }
    if (arg == "z") { if (op == "a") cur->append(HandlerPtr()); else so->appendSink(SinkPtr()); return; }   // a null handler is ignored
    QString base = arg;
    const int how = arg.startsWith('(') ? split_how(base) : 0;
    if (base == "(" || base == "(-" || base == "(+") {
        PipelinePtr q = base == "(" ? PipelinePtr(SimplePipelinePtr::create(false)) : PipelinePtr::create(base == "(+");
        c.keep.push_back(q);
        if (how) {      // the (empty) child enters the tree as a copy
            q = copy_of(q, base == "(", base == "(+", how);
            if (!q) { c.fail("the by-value helper did not add a pipeline"); return; }
            c.keep.push_back(q);
        }
        if (op == "a") cur->append(HandlerPtr(q)); else so->appendPipeline(q);
        return;
    }
    if (arg == "(!") { if (op == "a" && sp) sp->pipeline(); else c.fail("(! needs SimplePipeline::pipeline()"); return; }
    const QStringList p = arg.split(':');
    if (op == "a") { add_leaf(c, cur, sp, p, p.value(1).toInt() % 2 == 0); return; }
    // typed call
    if (p.size() < 2) { c.fail("bad leaf"); return; }
    const int id = p[1].toInt();
    HandlerPtr h;
    if (c.objects.count(id)) h = c.objects[id];
    else { Spec s; if (!spec_of(p, s)) { c.fail("bad leaf"); return; } h = object_of(s); }
    if (auto a = h.dynamicCast<AttrHandler>()) so->appendAttrHandler(a);
    else if (auto f = h.dynamicCast<Filter>()) so->appendFilter(f);
    else if (auto m = h.dynamicCast<Formatter>()) so->setFormatter(m);
    else if (auto k = h.dynamicCast<Sink>()) so->appendSink(k);
    else { c.fail("no typed call for a plain Handler"); return; }
    c.objects[id] = h;
}

int main()
{
    std::string line;
    QMessageLogContext ctx("f.cpp", 1, "void f()", "cat");
    while (std::getline(std::cin, line)) {
        auto bar = line.find('|');
        if (bar == std::string::npos) { std::cout << "!ERR bad line\n"; continue; }
        auto bar2 = line.find('|', bar + 1);
        std::istringstream ts(line.substr(0, bar));
        std::istringstream ms(bar2 == std::string::npos ? line.substr(bar + 1) : line.substr(bar + 1, bar2 - bar - 1));
        Ctx c;
        auto root = SimplePipelinePtr::create(false);
        std::vector<Frame> stack{ Frame{ root.data(), root.data(), false } };
        std::string tok;
        while (ts >> tok) {
            const QStringList p = QString::fromStdString(tok).split(':');
            QString k = p[0];
            const int how = k.startsWith('(') ? split_how(k) : 0;
            Pipeline *cur = stack.back().p; SimplePipeline *sp = stack.back().sp;
            if (k == "(" || k == "(-" || k == "(+") {
                const bool simple = k == "(", scoped = k == "(+";
                PipelinePtr ch = simple ? PipelinePtr(SimplePipelinePtr::create(false)) : PipelinePtr::create(scoped);
                c.keep.push_back(ch);
                if (how == 1 || how == 2 || how == 4) {     // built detached; the copy is made and attached at ')'
                    Frame f{ ch.data(), simple ? static_cast<SimplePipeline *>(ch.data()) : nullptr, false };
                    f.pending = ch; f.how = how; f.scoped = scoped;
                    stack.push_back(f);
                    continue;
                }
                if (how) {                                   // 3: copy of the empty original, filled afterwards
                    ch = copy_of(ch, simple, scoped, 1);
                    c.keep.push_back(ch);
                }
                if (simple || stack.size() % 2) cur->append(HandlerPtr(ch)); else *cur << ch;
                stack.push_back(Frame{ ch.data(), simple ? static_cast<SimplePipeline *>(ch.data()) : nullptr, false });
                continue;
            }
            if (k == "(!") {
                if (sp) { SimplePipeline &ch = sp->pipeline(); stack.push_back(Frame{ &ch, &ch, true }); }
                else { c.fail("(! under a plain Pipeline"); }   // a plain Pipeline has no pipeline(): the generator never asks for it
                continue;
            }
            if (k == ")") {
                if (stack.size() < 2) { c.bad = true; continue; }
                Frame f = stack.back(); stack.pop_back();
                if (f.fluent_child && &f.sp->end() != stack.back().sp) c.bad = true;   // end() must return the parent
                if (f.pending) {
                    PipelinePtr q = copy_of(f.pending, f.sp != nullptr, f.scoped, f.how);
                    if (!q) { c.fail("the by-value helper did not add a pipeline"); continue; }
                    c.keep.push_back(q);
                    if (f.sp || stack.size() % 2) stack.back().p->append(HandlerPtr(q)); else *stack.back().p << q;
                }
                continue;
            }
            if (k == "z") { cur->append(std::initializer_list<HandlerPtr>{ HandlerPtr() }); continue; }
            add_leaf(c, cur, sp, p, false);
        }
        if (stack.size() != 1) c.bad = true;
        std::string m; bool firstm = true; std::string res;
        while (!c.err && ms >> m) {
            if (m[0] == '@') { apply_edit(c, root.data(), QString::fromStdString(m)); continue; }
            const QStringList p = QString::fromStdString(m).split(':');
            if (p.size() != 4) { c.bad = true; break; }
            LogMessage lm(QtMsgType(p[0].toInt()), ctx, unhex(p[1]));
            if (p[2] != "n") lm.setFormattedMessage(unhex(p[2].mid(1)));
            for (const QString &kv : p[3].split(',', Qt::SkipEmptyParts)) { auto q = kv.split('.'); lm.setAttribute(unhex(q[0]), tval(q.value(1))); }
            out.str(""); first_ev = true;
            bool r = root->process(lm);
            if (!r) c.bad = true;       // the root is a Pipeline as well: it must return true
            sep(); out << "e." << content(lm);
            res += (firstm ? "" : "|") + out.str(); firstm = false;
        }
        if (c.err) { std::cout << "!ERR " << c.why << "\n"; continue; }
        std::cout << (c.bad ? "!BAD " : "") << res << "\n";
    }
}
