// C01 harness: builds the described handler tree out of REAL library objects (SimplePipeline with its
// fluent calls and pipeline()/end(), plain Pipeline(scoped), FunctionAttrHandler / FunctionFilter /
// FunctionFormatter / FunctionHandler with scripted deterministic behaviours, SeqNumberAttr /
// DuplicateFilter / LevelFilter (thin logging subclasses that call the real virtual), a recording
// Sink, null entries through append(initializer_list), one QSharedPointer inserted at several
// places), processes the message sequence and prints what every leaf's function saw/returned.
// Protocol: see ocaml/drv_pipeline.ml (same tokens, same output).
#ifdef VERIF_HEADER_ONLY
#include "qtlogger.h"
#else
#include "qtlogger/qtlogger.h"
#endif
#include <algorithm>
#include <iostream>
#include <map>
#include <sstream>
#include <string>
#include <vector>
using namespace QtLogger;

static std::ostringstream out;
static bool first_ev = true;
static void sep() { if (!first_ev) out << ";"; first_ev = false; }

static QString unhex(const QString &h)
{
    QString s;
    for (int i = 0; i + 3 < h.size(); i += 4) s.append(QChar(ushort(h.mid(i, 4).toUInt(nullptr, 16))));
    return s.isNull() ? QString("") : s;
}
static std::string hex(const QString &s)
{
    std::string r; char b[8];
    for (QChar c : s) { snprintf(b, sizeof b, "%04x", unsigned(c.unicode())); r += b; }
    return r;
}
static std::string content(const LogMessage &m)
{
    std::vector<std::string> kv;
    const auto a = m.attributes();
    for (auto it = a.begin(); it != a.end(); ++it) {
        std::string v;
        if (it.value().userType() == QMetaType::QString) v = "s" + hex(it.value().toString());
        else if (it.value().userType() == QMetaType::Int) v = "i" + std::to_string(it.value().toInt());
        else v = "?";
        kv.push_back(hex(it.key()) + "=" + v);
    }
    std::sort(kv.begin(), kv.end());
    std::string j;
    for (size_t i = 0; i < kv.size(); i++) j += (i ? "," : "") + kv[i];
    return hex(m.formattedMessage()) + "." + (m.isFormatted() ? "F" : "U") + "." + j + "." + hex(m.message());
}
static void logx(int id, bool r) { sep(); out << "x" << id << "." << (r ? 1 : 0); }

struct RecSink : Sink {
    int id; explicit RecSink(int i) : id(i) {}
    void send(const LogMessage &m) override { sep(); out << "d" << id << ".s." << content(m); }
};
struct LoggedSeq : SeqNumberAttr {
    int id; LoggedSeq(int i, const QString &n) : SeqNumberAttr(n), id(i) {}
    QVariantHash attributes(const LogMessage &m) override { logx(id, true); return SeqNumberAttr::attributes(m); }
};
struct LoggedDup : DuplicateFilter {
    int id; explicit LoggedDup(int i) : id(i) {}
    bool filter(const LogMessage &m) override { bool r = DuplicateFilter::filter(m); logx(id, r); return r; }
};
struct LoggedLevel : LevelFilter {
    int id; LoggedLevel(int i, QtMsgType t) : LevelFilter(t), id(i) {}
    bool filter(const LogMessage &m) override { bool r = LevelFilter::filter(m); logx(id, r); return r; }
};

struct Frame { Pipeline *p; SimplePipeline *sp; bool fluent_child; };

int main()
{
    std::string line;
    QMessageLogContext ctx("f.cpp", 1, "void f()", "cat");
    while (std::getline(std::cin, line)) {
        auto bar = line.find('|');
        if (bar == std::string::npos) { std::cout << "!ERR bad line\n"; continue; }
        auto bar2 = line.find('|', bar + 1);
        std::istringstream ts(line.substr(0, bar));
        std::istringstream ms(bar2 == std::string::npos ? line.substr(bar + 1) : line.substr(bar + 1, bar2 - bar - 1));
        std::map<int, HandlerPtr> objects;      // oid -> the one object of that identity
        std::vector<HandlerPtr> keep;
        auto root = SimplePipelinePtr::create(false);
        std::vector<Frame> stack{ Frame{ root.data(), root.data(), false } };
        std::string tok; bool bad = false, err = false;
        while (ts >> tok) {
            const QStringList p = QString::fromStdString(tok).split(':');
            const QString k = p[0];
            Pipeline *cur = stack.back().p; SimplePipeline *sp = stack.back().sp;
            if (k == "(" || k == "(-" || k == "(+") {
                if (k == "(") { auto c = SimplePipelinePtr::create(false); keep.push_back(c); cur->append(HandlerPtr(c)); stack.push_back(Frame{ c.data(), c.data(), false }); }
                else { auto c = PipelinePtr::create(k == "(+"); keep.push_back(c); if (stack.size() % 2) cur->append(HandlerPtr(c)); else *cur << c; stack.push_back(Frame{ c.data(), nullptr, false }); }
                continue;
            }
            if (k == "(!") {
                if (sp) { SimplePipeline &c = sp->pipeline(); stack.push_back(Frame{ &c, &c, true }); }
                else { err = true; }   // a plain Pipeline has no pipeline(): the generator never asks for it
                continue;
            }
            if (k == ")") {
                if (stack.size() < 2) { bad = true; continue; }
                Frame f = stack.back(); stack.pop_back();
                if (f.fluent_child && &f.sp->end() != stack.back().sp) bad = true;   // end() must return the parent
                continue;
            }
            if (k == "z") { cur->append(std::initializer_list<HandlerPtr>{ HandlerPtr() }); continue; }
            if (p.size() < 2) { bad = true; continue; }
            const int id = p[1].toInt();
            if (objects.count(id)) { cur->append(objects[id]); continue; }     // the same object at another place
            HandlerPtr h;
            bool fluent = sp != nullptr && (id % 3 != 0);   // two thirds through the fluent API where it exists
            if (k == "as" || k == "ac" || k == "am") {
                std::function<QVariantHash(const LogMessage &)> f;
                if (k == "as") { QString kk = unhex(p[2]), v = unhex(p[3]); f = [id, kk, v](const LogMessage &) { logx(id, true); return QVariantHash{ { kk, v } }; }; }
                else if (k == "am") { QVariantHash hsh;   // several pairs; later pairs of the list win
                    for (const QString &kv : p.value(2).split(',', Qt::SkipEmptyParts)) { auto q = kv.split('.'); hsh.insert(unhex(q[0]), unhex(q.value(1))); }
                    f = [id, hsh](const LogMessage &) { logx(id, true); return hsh; }; }
                else { QString kk = unhex(p[2]); f = [id, kk](const LogMessage &m) { logx(id, true); return QVariantHash{ { kk, m.formattedMessage() } }; }; }
                if (fluent) sp->attrHandler(f); else h = FunctionAttrHandlerPtr::create(f);
            } else if (k == "ft" || k == "ff" || k == "fc" || k == "fh" || k == "fy") {
                std::function<bool(const LogMessage &)> f;
                if (k == "ft") f = [id](const LogMessage &) { logx(id, true); return true; };
                else if (k == "ff") f = [id](const LogMessage &) { logx(id, false); return false; };
                else if (k == "fc") { QString s = unhex(p[2]); f = [id, s](const LogMessage &m) { bool r = m.formattedMessage().contains(s); logx(id, r); return r; }; }
                else if (k == "fh") { QString s = unhex(p[2]); f = [id, s](const LogMessage &m) { bool r = m.hasAttribute(s); logx(id, r); return r; }; }
                else { int t = p[2].toInt(); f = [id, t](const LogMessage &m) { bool r = int(m.type()) == t; logx(id, r); return r; }; }
                if (fluent) sp->filter(f); else h = FunctionFilterPtr::create(f);
            } else if (k == "mt" || k == "ma" || k == "mn" || k == "me") {
                std::function<QString(const LogMessage &)> f;
                if (k == "mt") { QString tag = unhex(p[2]); f = [id, tag](const LogMessage &m) { logx(id, true); return tag + ":" + m.formattedMessage(); }; }
                else if (k == "ma") { QString tag = unhex(p[2]), kk = unhex(p[3]);
                    f = [id, tag, kk](const LogMessage &m) { logx(id, true);
                        QString v = m.hasAttribute(kk) ? (m.attribute(kk).userType() == QMetaType::QString ? m.attribute(kk).toString() : QString("#")) : QString("-");
                        return tag + "[" + v + "]"; }; }
                else if (k == "mn") f = [id](const LogMessage &) { logx(id, true); return QString(); };
                else f = [id](const LogMessage &) { logx(id, true); return QString(""); };
                if (fluent) sp->format(f); else h = FunctionFormatterPtr::create(f);
            } else if (k == "s") {
                h = QSharedPointer<RecSink>::create(id);
            } else if (k == "p" || k == "gs" || k == "gr" || k == "gf" || k == "gc") {
                std::function<bool(LogMessage &)> f;
                if (k == "p") f = [id](LogMessage &m) { sep(); out << "d" << id << ".p." << content(m); return true; };
                else if (k == "gs") { QString kk = unhex(p[2]), v = unhex(p[3]); bool r = p[4] == "1"; f = [id, kk, v, r](LogMessage &m) { logx(id, r); m.setAttribute(kk, v); return r; }; }
                else if (k == "gr") { QString kk = unhex(p[2]); bool r = p[3] == "1"; f = [id, kk, r](LogMessage &m) { logx(id, r); m.removeAttribute(kk); return r; }; }
                else if (k == "gf") { QString tag = unhex(p[2]); bool r = p[3] == "1"; f = [id, tag, r](LogMessage &m) { logx(id, r); m.setFormattedMessage(tag + m.formattedMessage()); return r; }; }
                else { bool r = p[2] == "1"; f = [id, r](LogMessage &m) { logx(id, r); m.setFormattedMessage(QString()); return r; }; }
                if (fluent) sp->handler(f); else h = FunctionHandlerPtr::create(f);
            } else if (k == "q") h = QSharedPointer<LoggedSeq>::create(id, unhex(p[2]));
            else if (k == "d") h = QSharedPointer<LoggedDup>::create(id);
            else if (k == "l") h = QSharedPointer<LoggedLevel>::create(id, QtMsgType(p[2].toInt()));
            else { bad = true; continue; }
            if (h) cur->append(h); else h = static_cast<const Pipeline *>(cur)->handlers().last();
            objects[id] = h;
        }
        if (stack.size() != 1) bad = true;
        std::string m; bool firstm = true; std::string res;
        while (ms >> m) {
            const QStringList p = QString::fromStdString(m).split(':');
            if (p.size() != 4) { bad = true; break; }
            LogMessage lm(QtMsgType(p[0].toInt()), ctx, unhex(p[1]));
            if (p[2] != "n") lm.setFormattedMessage(unhex(p[2].mid(1)));
            for (const QString &kv : p[3].split(',', Qt::SkipEmptyParts)) { auto q = kv.split('.'); lm.setAttribute(unhex(q[0]), unhex(q.value(1))); }
            out.str(""); first_ev = true;
            bool r = root->process(lm);
            if (!r) bad = true;       // the root is a Pipeline as well: it must return true
            sep(); out << "e." << content(lm);
            res += (firstm ? "" : "|") + out.str(); firstm = false;
        }
        if (err) { std::cout << "!ERR (! under a plain Pipeline\n"; continue; }
        std::cout << (bad ? "!BAD " : "") << res << "\n";
    }
}
