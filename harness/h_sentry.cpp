// C18 harness: formats generated messages with the real SentryFormatter under a virtual wall clock.
// input line:  <time_ms> <type> <msg> <fmt> <cat> <file> <fn> <line> <na> [<key> <value>]...
//   strings are hex UTF-16 units; "-" = empty string; "0" = null pointer / not formatted
//   value: n | t | f | I<int> | u<uint> | i<qlonglong> | U<qulonglong> | d<double holding an integer> | F<float holding an integer> | s<hex16> | a<count> v... | o<count> (k v)...
// the virtual clock is advanced by 61.001 s between the creation of the message and format()
//   optional suffix "|" + steps: the steps are turned into the handlers of a real Pipeline which then processes the message
//     U <n> (k v)*n   a FunctionAttrHandler returning this hash (AttrHandler::process -> LogMessage::updateAttributes)
//     A <k> <v>       a handler calling setAttribute(k, v)      S <n> (k v)*n   a handler calling setAttributes({...})
//     R <k>           a handler calling removeAttribute(k)
//     ( <scoped>      the following steps go to a nested Pipeline(scoped)        )   end of the nested pipeline
//     F <sel>         SentryFormatter object <sel> as the next handler + a handler that captures formattedMessage(): one record
//   <sel>: 0 = own object A, 1 = own object B, 2 = SentryFormatter::instance(), 3 = A is destroyed and re-created first, then A
//   without a suffix the message is formatted once by A.format(m)
// argv[1] = name of a QTextCodec to install with QTextCodec::setCodecForLocale first ("-" = leave the default): the
//   event text must not depend on the locale codec of the process
// argv[2] argv[3] (optional, hex UTF-16 units, "-" = empty string) = the sdkName / sdkVersion constructor arguments of the own objects A and B
//   (also of the re-created A); absent = the default arguments; argv[3] = "~": only sdkName is given (one-argument call).
//   SentryFormatter::instance() always has the defaults.
// front end (round 8): a first token "v1" on an input line = for THIS message the own objects A / B (and the re-created A) are the
//   ones obtained through the fluent front end, SimplePipeline().formatToSentry(<the same arguments>) followed by a capturing
//   .handler(...): as a step "F <sel>" that SimplePipeline is the next handler of the pipeline; without steps a COPY of the message
//   is processed by it and the captured formattedMessage() is the record.  ("v0" or no such token = constructed directly.)
//   Before the own fluent objects are made the process obtains one more through formatToSentry with OTHER arguments (the defaults
//   when arguments are given, ("warm.sdk", "0.0") otherwise) and formats one event with it: an object obtained through the front
//   end must not depend on what the front end handed out before.
// output line: <time().toMSecsSinceEpoch()> <threadId> <hex of qVersion()> <hex of record>...
#ifdef VERIF_HEADER_ONLY
#include "qtlogger.h"
#else
#include "qtlogger/qtlogger.h"
#endif
#include <iostream>
#include <sstream>
#include <sys/time.h>
#include <sys/syscall.h>
#include <time.h>
#include <unistd.h>
#include <vector>
#include <QTextCodec>
using namespace QtLogger;
// virtual wall clock (QDateTime::currentDateTime() of Qt 5.15 reads gettimeofday)
static long long g_ms = 1700000000000LL;
extern "C" int gettimeofday(struct timeval *tv, void *) noexcept
{
    tv->tv_sec = g_ms >= 0 ? g_ms / 1000 : -((-g_ms + 999) / 1000);
    tv->tv_usec = (g_ms - (long long)tv->tv_sec * 1000) * 1000;
    return 0;
}
extern "C" int clock_gettime(clockid_t id, struct timespec *ts) noexcept
{
    if (id == CLOCK_REALTIME) {
        struct timeval tv; gettimeofday(&tv, nullptr);
        ts->tv_sec = tv.tv_sec; ts->tv_nsec = tv.tv_usec * 1000; return 0;
    }
    return syscall(SYS_clock_gettime, id, ts);
}
extern "C" time_t time(time_t *t) noexcept { struct timeval tv; gettimeofday(&tv, nullptr); if (t) *t = tv.tv_sec; return tv.tv_sec; }
static QString unhex(const std::string &h)
{
    QString s = QStringLiteral("");
    if (h == "-" || h == "0") return s;
    for (size_t i = 0; i + 4 <= h.size(); i += 4) s.append(QChar((ushort)std::stoul(h.substr(i, 4), nullptr, 16)));
    return s;
}
static std::string hex(const QString &s)
{
    std::string o; char b[8];
    for (QChar c : s) { snprintf(b, 8, "%04x", c.unicode()); o += b; }
    return o;
}
static QVariant val(std::istringstream &is)
{
    std::string t; is >> t; char k = t[0]; std::string r = t.substr(1);
    if (k == 'n') return QVariant();
    if (k == 't') return true;
    if (k == 'f') return false;
    if (k == 'i') return QVariant::fromValue<qlonglong>(std::stoll(r));
    if (k == 'I') return QVariant(int(std::stoll(r)));
    if (k == 'd') return QVariant(double(std::stoll(r)));
    if (k == 'u') return QVariant(uint(std::stoll(r)));
    if (k == 'U') return QVariant::fromValue<qulonglong>(qulonglong(std::stoll(r)));
    if (k == 'F') return QVariant(float(std::stoll(r)));
    if (k == 's') return unhex(r.empty() ? "-" : r);
    if (k == 'a') { int n = std::stoi(r); QVariantList l; for (int i = 0; i < n; i++) l << val(is); return l; }
    if (k == 'o') { int n = std::stoi(r); QVariantMap m; for (int i = 0; i < n; i++) { std::string kk; is >> kk; auto v = val(is); m.insert(unhex(kk), v); } return m; }
    return QVariant();
}
static QVariantHash hash_of(std::istringstream &is)
{
    int n; is >> n; QVariantHash h;
    for (int i = 0; i < n; i++) { std::string k; is >> k; QVariant v = val(is); h.insert(unhex(k), v); }
    return h;
}
int main(int argc, char **argv)
{
    if (argc > 1 && std::string(argv[1]) != "-") {
        QTextCodec *codec = QTextCodec::codecForName(argv[1]);
        if (!codec) { std::cerr << "no such codec: " << argv[1] << "\n"; return 3; }
        QTextCodec::setCodecForLocale(codec);
    }
    std::string line;
    const bool sdkArgs = argc > 3;
    const bool oneArg = sdkArgs && std::string(argv[3]) == "~";
    const QString sdkName = sdkArgs ? unhex(argv[2]) : QString(), sdkVersion = sdkArgs && !oneArg ? unhex(argv[3]) : QString();
    auto make = [&]() { return !sdkArgs ? SentryFormatterPtr::create() : oneArg ? SentryFormatterPtr::create(sdkName) : SentryFormatterPtr::create(sdkName, sdkVersion); };
    SentryFormatterPtr fa = make(), fb = make();
    // the same objects obtained through the fluent front end
    static QString captured;
    typedef QSharedPointer<SimplePipeline> SimplePipelinePtr;
    auto capture = [](LogMessage &lm) { captured = lm.formattedMessage(); return true; };
    SimplePipelinePtr warm = SimplePipelinePtr::create();
    if (sdkArgs) warm->formatToSentry(); else warm->formatToSentry(QStringLiteral("warm.sdk"), QStringLiteral("0.0"));
    warm->handler(capture);
    {
        QMessageLogContext wctx("w.cpp", 1, "void w()", "warm");
        LogMessage wm(QtInfoMsg, wctx, QStringLiteral("warm-up"));
        warm->process(wm);
    }
    auto makeFluent = [&]() {
        SimplePipelinePtr sp = SimplePipelinePtr::create();
        if (!sdkArgs) sp->formatToSentry(); else if (oneArg) sp->formatToSentry(sdkName); else sp->formatToSentry(sdkName, sdkVersion);
        sp->handler(capture);
        return sp;
    };
    SimplePipelinePtr pa = makeFluent(), pb = makeFluent();
    auto formatter = [&](int sel, bool fluent) -> HandlerPtr {
        if (sel == 2) return SentryFormatter::instance();
        if (fluent) {
            if (sel == 1) return pb;
            if (sel == 3) { pa.reset(); pa = makeFluent(); }
            return pa;
        }
        if (sel == 1) return fb;
        if (sel == 3) { fa.reset(); fa = make(); }
        return fa;
    };
    while (std::getline(std::cin, line)) {
        std::istringstream is(line);
        long long ms; int type, ln, na; std::string msg, fmt, cat, file, fn;
        bool fluent = false;
        if (line.size() > 1 && line[0] == 'v') { std::string v; is >> v; fluent = v == "v1"; }
        is >> ms >> type >> msg >> fmt >> cat >> file >> fn >> ln >> na;
        g_ms = ms;
        QByteArray c = unhex(cat).toLatin1(), f = unhex(file).toLatin1(), fu = unhex(fn).toLatin1();
        QMessageLogContext ctx(file == "0" ? nullptr : f.constData(), ln, fn == "0" ? nullptr : fu.constData(),
                               cat == "0" ? nullptr : c.constData());
        LogMessage m((QtMsgType)type, ctx, unhex(msg));
        if (fmt != "0") m.setFormattedMessage(unhex(fmt));
        for (int i = 0; i < na; i++) { std::string k; is >> k; QVariant v = val(is); m.setAttribute(unhex(k), v); }
        const long long created = m.time().toMSecsSinceEpoch();
        g_ms += 61001; // the event is serialised later than the message was created: its timestamp must still be the message's
        std::cout << created << " " << m.threadId() << " " << hex(QString::fromLatin1(qVersion()));
        std::string tok;
        if (is >> tok && tok == "|") {
            std::vector<QString> records;
            PipelinePtr root = PipelinePtr::create();
            std::vector<PipelinePtr> stack { root };
            while (is >> tok) {
                Pipeline &p = *stack.back();
                if (tok == "U") { QVariantHash h = hash_of(is); p << FunctionAttrHandlerPtr::create([h](const LogMessage &) { return h; }); }
                else if (tok == "S") { QVariantHash h = hash_of(is); p << FunctionHandlerPtr::create([h](LogMessage &x) { x.setAttributes(h); return true; }); }
                else if (tok == "A") { std::string k; is >> k; QVariant v = val(is); QString kk = unhex(k);
                                       p << FunctionHandlerPtr::create([kk, v](LogMessage &x) { x.setAttribute(kk, v); return true; }); }
                else if (tok == "R") { std::string k; is >> k; QString kk = unhex(k);
                                       p << FunctionHandlerPtr::create([kk](LogMessage &x) { x.removeAttribute(kk); return true; }); }
                else if (tok == "(") { int scoped; is >> scoped; PipelinePtr n = PipelinePtr::create(scoped != 0); p << n; stack.push_back(n); }
                else if (tok == ")") { if (stack.size() > 1) stack.pop_back(); }
                else if (tok == "F") { int sel; is >> sel; p << formatter(sel, fluent);
                                       p << FunctionHandlerPtr::create([&records](LogMessage &x) { records.push_back(x.formattedMessage()); return true; }); }
            }
            root->process(m);
            for (const QString &r : records) std::cout << " " << hex(r);
        } else if (fluent) {
            LogMessage copy(m);
            captured = QString();
            pa->process(copy);
            std::cout << " " << hex(captured);
        } else {
            std::cout << " " << hex(fa->format(m));
        }
        std::cout << "\n";
    }
}
