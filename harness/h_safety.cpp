// C14 harness: drives the formatters and filters of the REAL library through their public API with
// arbitrary strings.  One request per input line, one answer line "<elapsed usec> <result>" per
// request (flushed, so that after a crash / sanitizer abort / time-out the first unanswered request
// is the culprit).  Built normally (build/h_safety) and with ASan+UBSan (build/h_safety.san).
//
// Strings cross the protocol as hex: QString fields as UTF-16 code units (4 hex digits each), C-string
// fields (category, file, function) as bytes (2 hex digits each, no NUL); "-" is the empty string,
// "~" (C-string fields only) is the NULL POINTER: QMessageLogContext{nullptr, 0, nullptr, nullptr} is what a
// release build (QT_NO_MESSAGELOGCONTEXT), QML / scripting callers and a default-constructed LogMessage deliver.
// An answer string longer than kMaxAnswerUnits code units is not hex-encoded: the answer is "TOOBIG:<units>"
// (a multi-gigabyte padded line must not be pushed through the pipe; the check reports it from the size).
//   P <pattern16> <type> <msg16> <cat8> <file8> <func8> <line> <n> {<key16> <val16>}   PatternFormatter
//   Y <colorize> <maxCategoryWidth> <n> {<type> <cat8> <msg16>}      one PrettyFormatter, n messages;
//                                                                    answer: n x "<time16> <out16>"
//   J <compact> <type> <msg16> <cat8> <file8> <func8> <line> <n> {<key16> <val16>}     JsonFormatter
//   S <type> <msg16> <cat8> <file8> <func8> <line> <n> {<key16> <val16>}               SentryFormatter
//   C <rules16> <type> <cat8>                                        CategoryFilter(rules).filter
//   R <menu index> <msg16>                                           RegExpFilter(menu[i]).filter
//   G <n> {<type> <cat8> <msg16>}                                    the formatter chain that the one-line
//        configure(pipeline, path, ...) builds: PrettyFormatter(colour) -> console sink -> FunctionFormatter
//        that strips the colour codes again -> file sink; one fresh pipeline, n messages through
//        Pipeline::process; answer: n x "<time16> <text16 that reached the file sink>"
//   T <threads> <rounds> <salt>                                      <threads> threads, each with its OWN
//        PatternFormatter("%{func}") (no object is shared), each formatting <rounds> function texts nobody has
//        formatted before ("virtual void t<salt>_<id>::Cls<int>::m<i>(const QString &, int) const");
//        answer: number of outputs that differ from "t<salt>_<id>::Cls::m<i>"
//   M                                                                answer: size of the regexp menu
#ifdef VERIF_HEADER_ONLY
#include "qtlogger.h"
#else
#include "qtlogger/qtlogger.h"
#endif
#include <QDir>
#include <QFile>
#include <chrono>
#include <cstdio>
#include <cstring>
#include <cstdlib>
#include <unistd.h>
#include <sys/mman.h>
#include <iostream>
#include <atomic>
#include <sstream>
#include <string>
#include <thread>
#include <vector>
using namespace QtLogger;

static int hv(char c) { return c <= '9' ? c - '0' : (c | 32) - 'a' + 10; }
static QString un16(const std::string &h)
{
    QString s;
    if (h == "-") return s;
    s.reserve(int(h.size() / 4));
    for (size_t i = 0; i + 4 <= h.size(); i += 4)
        s.append(QChar(ushort((hv(h[i]) << 12) | (hv(h[i + 1]) << 8) | (hv(h[i + 2]) << 4) | hv(h[i + 3]))));
    return s;
}
static QByteArray un8(const std::string &h)
{
    QByteArray b;
    if (h == "-" || h == "~") return b;
    b.reserve(int(h.size() / 2));
    for (size_t i = 0; i + 2 <= h.size(); i += 2)
        b.append(char((hv(h[i]) << 4) | hv(h[i + 1])));
    return b;
}
static const int kMaxAnswerUnits = 8 << 20;
static std::string hex16(const QString &s)
{
    static const char *d = "0123456789abcdef";
    if (s.isEmpty()) return "-";
    if (s.size() > kMaxAnswerUnits) return "TOOBIG:" + std::to_string(s.size());
    std::string o;
    o.reserve(size_t(s.size()) * 4);
    for (QChar c : s) {
        ushort u = c.unicode();
        o += d[u >> 12]; o += d[(u >> 8) & 15]; o += d[(u >> 4) & 15]; o += d[u & 15];
    }
    return o;
}

static const char *const kRegexMenu[] = {
    "error|fail(ed|ure)?", "^\\s*$", "^\\[[^\\]]*\\]", "\\d{3,}", "(\\w+)\\s+\\1", "\\p{Lu}\\p{Ll}+",
    "^(?:[a-z0-9_]+\\.)*[a-z]+$", "(?i)warn.*deprecated", "[\\x{80}-\\x{ffff}]{2}", ".*", "(", "\\bname=(?<v>[^;]*);",
    // round 8: expressions that scan to the very end of the subject (a text cut in the middle of a surrogate pair)
    "\\p{L}+", "[^x]+$"
};
static const int kRegexMenuSize = int(sizeof(kRegexMenu) / sizeof(kRegexMenu[0]));

// a C-string argument: the bytes, or the null pointer
struct CStr
{
    QByteArray bytes;
    bool null = false;
    CStr() { }
    explicit CStr(const std::string &h) : bytes(un8(h)), null(h == "~") { }
    const char *ptr() const { return null ? nullptr : bytes.constData(); }
};
struct Msg
{
    CStr cat, file, func;
    QString text;
    int type = 0, line = 0;
    std::vector<std::pair<QString, QString>> attrs;
};
static void readMsg(std::istringstream &is, Msg &m)
{
    std::string a, b, c, d;
    int n = 0;
    is >> m.type >> a >> b >> c >> d >> m.line >> n;
    m.text = un16(a); m.cat = CStr(b); m.file = CStr(c); m.func = CStr(d);
    for (int i = 0; i < n; i++) {
        std::string k, v;
        is >> k >> v;
        m.attrs.emplace_back(un16(k), un16(v));
    }
}
template <class F> static QString withMsg(const Msg &m, F f)
{
    QMessageLogContext ctx(m.file.ptr(), m.line, m.func.ptr(), m.cat.ptr());
    LogMessage lm(QtMsgType(m.type), ctx, m.text);
    for (auto &kv : m.attrs) lm.setAttribute(kv.first, kv.second);
    return f(lm);
}

int main()
{
    setenv("TZ", "UTC", 1);
    tzset();
    std::ios::sync_with_stdio(false);
    std::string line;
    while (std::getline(std::cin, line)) {
        std::istringstream is(line);
        std::string kind;
        is >> kind;
        std::string out;
        auto t0 = std::chrono::steady_clock::now();
        if (kind == "P") {
            std::string pat;
            is >> pat;
            Msg m; readMsg(is, m);
            PatternFormatter pf(un16(pat));
            out = hex16(withMsg(m, [&](const LogMessage &lm) { return pf.format(lm); }));
        } else if (kind == "Y") {
            int colorize = 0, maxw = 0, n = 0;
            is >> colorize >> maxw >> n;
            PrettyFormatter pf(colorize != 0, maxw);
            for (int i = 0; i < n; i++) {
                int t; std::string cat, msg;
                is >> t >> cat >> msg;
                CStr c(cat);
                QMessageLogContext ctx("f", 1, "fn", c.ptr());
                LogMessage lm(QtMsgType(t), ctx, un16(msg));
                QString tm = lm.time().toString(QStringLiteral("dd.MM.yyyy hh:mm:ss"));
                QString o = pf.format(lm);
                if (i) out += ' ';
                out += hex16(tm) + ' ' + hex16(o);
            }
        } else if (kind == "G") {
            int n = 0;
            is >> n;
            static int seq = 0;
            const QString path = QDir::tempPath() + QStringLiteral("/h_safety_%1_%2.log").arg(qlonglong(getpid())).arg(seq++);
            Pipeline pipeline;
            configure(&pipeline, path, 0, 0, RotatingFileSink::Option::None, false);
            QFile::remove(path);   // the file sink keeps the (now anonymous) file open: nothing is left behind, even after a kill
            for (int i = 0; i < n; i++) {
                int t; std::string cat, msg;
                is >> t >> cat >> msg;
                CStr c(cat);
                QMessageLogContext ctx("f", 1, "fn", c.ptr());
                LogMessage lm(QtMsgType(t), ctx, un16(msg));
                QString tm = lm.time().toString(QStringLiteral("dd.MM.yyyy hh:mm:ss"));
                pipeline.process(lm);
                if (i) out += ' ';
                out += hex16(tm) + ' ' + hex16(lm.formattedMessage());
            }
        } else if (kind == "T") {
            int nthreads = 2, rounds = 0, salt = 0;
            is >> nthreads >> rounds >> salt;
            std::atomic<int> bad { 0 };
            std::atomic<int> ready { 0 };
            std::atomic<bool> go { false };
            std::vector<std::thread> th;
            for (int id = 0; id < nthreads; id++) {
                th.emplace_back([&, id]() {
                    PatternFormatter pf(QStringLiteral("%{func}"));   // private to this thread
                    const QByteArray who = "t" + QByteArray::number(salt) + "_" + QByteArray::number(id);
                    ready.fetch_add(1);
                    while (!go.load()) std::this_thread::yield();
                    for (int i = 0; i < rounds; i++) {
                        const QByteArray fn = "virtual void " + who + "::Cls<int>::m" + QByteArray::number(i) + "(const QString &, int) const";
                        const QByteArray want = who + "::Cls::m" + QByteArray::number(i);
                        QMessageLogContext ctx("f", 1, fn.constData(), "c");
                        LogMessage lm(QtDebugMsg, ctx, QStringLiteral("x"));
                        if (pf.format(lm) != QString::fromLatin1(want)) bad.fetch_add(1);
                    }
                });
            }
            while (ready.load() < nthreads) std::this_thread::yield();
            go.store(true);
            for (auto &t : th) t.join();
            out = std::to_string(bad.load());
        } else if (kind == "J") {
            int compact = 0;
            is >> compact;
            Msg m; readMsg(is, m);
            JsonFormatter jf(compact != 0);
            out = hex16(withMsg(m, [&](const LogMessage &lm) { return jf.format(lm); }));
        } else if (kind == "S") {
            Msg m; readMsg(is, m);
            SentryFormatter sf(QStringLiteral("verif"), QStringLiteral("1"));
            out = hex16(withMsg(m, [&](const LogMessage &lm) { return sf.format(lm); }));
        } else if (kind == "C") {
            std::string rules, cat; int t = 0;
            is >> rules >> t >> cat;
            CategoryFilter f(un16(rules));
            CStr c(cat);
            QMessageLogContext ctx("f", 1, "fn", c.ptr());
            LogMessage lm(QtMsgType(t), ctx, QStringLiteral("x"));
            out = f.filter(lm) ? "1" : "0";
        } else if (kind == "R") {
            int idx = 0; std::string msg;
            is >> idx >> msg;
            RegExpFilter f(QString::fromLatin1(kRegexMenu[((idx % kRegexMenuSize) + kRegexMenuSize) % kRegexMenuSize]));
            QMessageLogContext ctx("f", 1, "fn", "c");
            // round 8: the text ends flush against an inaccessible page (QString::fromRawData on a mapped buffer, as texts taken
            // from a memory-mapped file or a network buffer do): a read even one code unit past the end is a SIGSEGV on every
            // build (PCRE's JIT-compiled matcher is not instrumented by the sanitizers, a guard page catches it all the same)
            const QString text = un16(msg);
            const int n = text.size();
            const size_t page = size_t(sysconf(_SC_PAGESIZE));
            const size_t bytes = size_t(n) * 2, span = ((bytes + page - 1) / page) * page;
            char *base = n > 0 ? static_cast<char *>(mmap(nullptr, span + page, PROT_READ | PROT_WRITE, MAP_PRIVATE | MAP_ANONYMOUS, -1, 0)) : nullptr;
            if (base && base != MAP_FAILED && mprotect(base + span, page, PROT_NONE) == 0) {
                char *raw = base + span - bytes;
                memcpy(raw, text.utf16(), bytes);
                {
                    LogMessage lm(QtDebugMsg, ctx, QString::fromRawData(reinterpret_cast<const QChar *>(raw), n));
                    out = f.filter(lm) ? "1" : "0";
                }
                munmap(base, span + page);
            } else {
                LogMessage lm(QtDebugMsg, ctx, text);
                out = f.filter(lm) ? "1" : "0";
            }
        } else if (kind == "M") {
            out = std::to_string(kRegexMenuSize);
        } else {
            out = "?";
        }
        auto us = std::chrono::duration_cast<std::chrono::microseconds>(std::chrono::steady_clock::now() - t0).count();
        std::cout << us << ' ' << out << '\n' << std::flush;
    }
    return 0;
}
