// C19 harness (install/restore): executes histories of installMessageHandler() /
// restorePreviousMessageHandler() / foreign qInstallMessageHandler() calls on the REAL library and
// prints which handler is current after every call.  One history per input line:
//   I = gQtLogger.installMessageHandler()      R = Logger::restorePreviousMessageHandler()
//   1..3 = qInstallMessageHandler(F<n>)        D = qInstallMessageHandler(nullptr)  (foreign reset)
// output per call: L (the logger's handler), D (Qt's default handler), 1..3, ? (anything else).
#ifdef VERIF_HEADER_ONLY
#include "qtlogger.h"
#else
#include "qtlogger/qtlogger.h"
#endif
#include <QCoreApplication>
#include <iostream>
#include <string>
static void F1(QtMsgType, const QMessageLogContext &, const QString &) { }
static void F2(QtMsgType, const QMessageLogContext &, const QString &) { }
static void F3(QtMsgType, const QMessageLogContext &, const QString &) { }
static QtMessageHandler g_default = nullptr;
static char nm(QtMessageHandler h)
{
    if (h == F1) return '1';
    if (h == F2) return '2';
    if (h == F3) return '3';
    if (h == QtLogger::Logger::messageHandler) return 'L';
    if (h == g_default) return 'D';
    return '?';
}
// reads the current handler without changing the state (the default handler is put back as nullptr)
static QtMessageHandler cur()
{
    auto h = qInstallMessageHandler(nullptr);
    qInstallMessageHandler(h == g_default ? nullptr : h);
    return h;
}
int main(int argc, char **argv)
{
    QCoreApplication app(argc, argv);
    g_default = qInstallMessageHandler(nullptr);
    std::string line;
    while (std::getline(std::cin, line)) {
        // clean state: restore clears the saved handler, then Qt's default handler
        QtLogger::Logger::restorePreviousMessageHandler();
        qInstallMessageHandler(nullptr);
        std::string out;
        for (char c : line) {
            switch (c) {
            case 'I': gQtLogger.installMessageHandler(); break;
            case 'R': QtLogger::Logger::restorePreviousMessageHandler(); break;
            case '1': qInstallMessageHandler(F1); break;
            case '2': qInstallMessageHandler(F2); break;
            case '3': qInstallMessageHandler(F3); break;
            case 'D': qInstallMessageHandler(nullptr); break;
            default: continue;
            }
            out += nm(cur());
        }
        std::cout << out << "\n";
    }
    return 0;
}
