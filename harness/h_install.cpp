// C19 harness (install/restore with logger object lifetime): executes histories of
// installMessageHandler() / restorePreviousMessageHandler() / foreign qInstallMessageHandler()
// calls by SEVERAL Logger objects that are created and destroyed on the REAL library and prints,
// after every call, which handler is current and who receives a message emitted through qWarning().
// One history per input line:
//   I = gQtLogger.installMessageHandler()  (logger 0, the singleton)
//   R = Logger::restorePreviousMessageHandler()  (static: needs no logger object)
//   1..3 = qInstallMessageHandler(F<n>)        D = qInstallMessageHandler(nullptr)  (foreign reset)
//   a b c = create logger 1 2 3    i j k = logger 1 2 3 .installMessageHandler()    x y z = destroy logger 1 2 3
//       logger 1: heap (new / delete)   logger 2: in-place storage (like a stack / member object: the
//       same address is reused by the next incarnation)   logger 3: QSharedPointer<Logger>::create()
//   calls on a logger that does not exist (and creating one that does) are skipped (still reported).
// `h_install fork`: every history starts from the pristine process state (forked child); default: reset through the API.
// output per call, two characters:
//   current handler: L (Logger::messageHandler), D (Qt's default handler), 1..3, ? (anything else)
//   receiver of a message emitted now: d (Qt's default handler: text on stderr), 1..3 (foreign),
//       p q r s (the pipeline of logger 0..3), - (nobody), ! (more than one)
#ifdef VERIF_HEADER_ONLY
#include "qtlogger.h"
#else
#include "qtlogger/qtlogger.h"
#endif
#include <QCoreApplication>
#include <QSharedPointer>
#include <iostream>
#include <new>
#include <string>
#include <stdio.h>
#include <stdlib.h>
#include <unistd.h>
#include <sys/stat.h>
#include <sys/types.h>
#include <sys/wait.h>
using QtLogger::Logger;

static std::string g_got;                     // receivers of the probe message
static void F1(QtMsgType, const QMessageLogContext &, const QString &) { g_got += '1'; }
static void F2(QtMsgType, const QMessageLogContext &, const QString &) { g_got += '2'; }
static void F3(QtMsgType, const QMessageLogContext &, const QString &) { g_got += '3'; }
static QtMessageHandler g_default = nullptr;
static int g_errfd = -1;                      // the file fd 2 points to (Qt's default handler writes there)
static char nm(QtMessageHandler h)
{
    if (h == F1) return '1';
    if (h == F2) return '2';
    if (h == F3) return '3';
    if (h == Logger::messageHandler) return 'L';
    if (h == g_default) return 'D';
    return '?';
}
// reads the current handler without changing the state (the default handler is put back as nullptr)
static QtMessageHandler cur()
{
    auto h = qInstallMessageHandler(nullptr);
    qInstallMessageHandler(h == g_default ? nullptr : h);
    return h;
}
static off_t errsize()
{
    struct stat st;
    fflush(stderr);
    return fstat(g_errfd, &st) == 0 ? st.st_size : 0;
}
// emits one message through Qt's macro and reports who got it
static char probe()
{
    g_got.clear();
    const off_t before = errsize();
    qWarning("c19 probe");
    if (errsize() != before) g_got += 'd';
    if (before > (1 << 20)) { if (ftruncate(g_errfd, 0) == 0) lseek(g_errfd, 0, SEEK_SET); }
    if (g_got.empty()) return '-';
    return g_got.size() == 1 ? g_got[0] : '!';
}
static void tag(Logger *l, int k)
{
    *l << QtLogger::FunctionHandlerPtr::create([k](QtLogger::LogMessage &) { g_got += char('p' + k); return true; });
}

// the three non-singleton loggers
static Logger *g_heap = nullptr;
alignas(Logger) static unsigned char g_store[sizeof(Logger)];
static Logger *g_inplace = nullptr;
static QSharedPointer<Logger> g_shared;
static Logger *get(int k) { return k == 0 ? &gQtLogger : k == 1 ? g_heap : k == 2 ? g_inplace : g_shared.data(); }
static void create(int k)
{
    if (get(k)) return;
    if (k == 1) g_heap = new Logger();
    else if (k == 2) g_inplace = new (g_store) Logger();
    else g_shared = QSharedPointer<Logger>::create();
    tag(get(k), k);
}
static void destroy(int k)
{
    if (!get(k)) return;
    if (k == 1) { delete g_heap; g_heap = nullptr; }
    else if (k == 2) { g_inplace->~Logger(); g_inplace = nullptr; }
    else g_shared.reset();
}

static std::string runHistory(const std::string &line)
{
    std::string out;
    for (char c : line) {
        switch (c) {
        case 'I': gQtLogger.installMessageHandler(); break;
        case 'R': Logger::restorePreviousMessageHandler(); break;
        case '1': qInstallMessageHandler(F1); break;
        case '2': qInstallMessageHandler(F2); break;
        case '3': qInstallMessageHandler(F3); break;
        case 'D': qInstallMessageHandler(nullptr); break;
        case 'a': case 'b': case 'c': create(c - 'a' + 1); break;
        case 'i': case 'j': case 'k': if (Logger *l = get(c - 'i' + 1)) l->installMessageHandler(); break;
        case 'x': case 'y': case 'z': destroy(c - 'x' + 1); break;
        default: continue;
        }
        out += nm(cur());
        out += probe();
    }
    return out;
}

int main(int argc, char **argv)
{
    setenv("QT_LOGGING_TO_CONSOLE", "1", 1);       // Qt's default handler: stderr, never the journal
    unsetenv("QT_MESSAGE_PATTERN");
    // fd 2 -> an unlinked temporary file whose growth shows that Qt's default handler printed
    {
        char path[] = "/tmp/c19_install_XXXXXX";
        g_errfd = mkstemp(path);
        if (g_errfd < 0) return 3;
        unlink(path);
        if (dup2(g_errfd, 2) < 0) return 3;
    }
    QCoreApplication app(argc, argv);
    g_default = qInstallMessageHandler(nullptr);
    tag(&gQtLogger, 0);
    // "h_install fork": every history runs in a forked child - the process-wide state it leaves (current handler,
    // saved handler, active logger, logger objects) cannot leak into the next history whatever the library under test
    // does with it, and a crash (use after free of a destroyed logger) costs one line ("!"), not the batch.
    // Default (fast, for the big batches): one process; between histories the state is reset through the public API.
    const bool forkEach = argc > 1 && std::string(argv[1]) == "fork";
    std::string line;
    while (std::getline(std::cin, line)) {
        if (!forkEach) {
            // clean state: no extra logger, no active logger (a temporary logger is installed and destroyed),
            // nothing saved (restore clears it), Qt's default handler
            for (int k = 1; k <= 3; k++) destroy(k);
            { Logger tmp; tmp.installMessageHandler(); }
            Logger::restorePreviousMessageHandler();
            qInstallMessageHandler(nullptr);
            std::cout << runHistory(line) << "\n";
            continue;
        }
        int pfd[2];
        if (pipe(pfd) != 0) return 3;
        std::cout.flush();
        const pid_t pid = fork();
        if (pid < 0) return 3;
        if (pid == 0) {
            close(pfd[0]);
            const std::string out = runHistory(line);
            size_t off = 0;
            while (off < out.size()) { ssize_t n = write(pfd[1], out.data() + off, out.size() - off); if (n <= 0) break; off += size_t(n); }
            _exit(0);
        }
        close(pfd[1]);
        std::string out;
        char buf[256];
        for (;;) { ssize_t n = read(pfd[0], buf, sizeof buf); if (n <= 0) break; out.append(buf, size_t(n)); }
        close(pfd[0]);
        int st = 0;
        waitpid(pid, &st, 0);
        if (!WIFEXITED(st) || WEXITSTATUS(st) != 0) out += '!';
        std::cout << out << "\n";
    }
    for (int k = 1; k <= 3; k++) destroy(k);
    Logger::restorePreviousMessageHandler();
    qInstallMessageHandler(nullptr);
    return 0;
}
