// C20 whole-process harness: one small PROGRAM per process, the same program built against the library
// (application object first on the link line, libqtlogger.a after it - the order every build system produces)
// and header-only.  What is compared is what a user sees AFTER the process ended: exit status / signal,
// stdout, stderr and the files left in the scratch directory.
//
//   C20_DIR=<scratch dir> C20_PROG='<early ops>/<main ops>/<ending>' h_header_exit
//
// The program is taken from the environment because its first phase runs BEFORE main(): the constructor of a
// global object of this translation unit ("set up logging before main()" idiom).  ops are separated by ',',
// fields by ':'.
//   fs:T:N:F      FileSink on name template T, N messages sent directly; F = 0 keep the sink alive until static
//                 destruction (no flush), 1 flush + keep, 2 drop the sink at once
//   rs:T:M:C:N:F  RotatingFileSink(template T, max size M, max count C), same
//   cfg:T:M:C:O   gQtLogger.configure(<dir>/T, M, C, options O, async = false)     (installs the message handler)
//   stf:T         gQtLogger.format("%{type} %{category} %{message}").sendToFile(<dir>/T); installMessageHandler()
//   log:N         N messages through qDebug/qInfo/qWarning/qCritical (whatever handler is installed)
//   clog:N        N messages through a QLoggingCategory "net.http"
//   flush         gQtLogger.flush()
//   own:T:N       a local Logger (not the singleton) with sendToFile, N messages, destroyed at the end of the op
//   pat:K         print PatternFormatter(K).format(fixed message) on stdout
//   pipe:K:T:N    a local Logger with filters + formatter K (0 category rules + pattern, 1 regexp filter + JSON, 2 duplicate filter +
//                 pretty, 3 level filter + function formatter + sequence numbers) sending to template T; N messages of mixed
//                 categories / levels / repeated texts; destroyed at the end of the op
//   app           construct the QCoreApplication (main phase only; lives until main returns)
//   restore       Logger::restorePreviousMessageHandler()
//   ownr:T:M:C:O:N  a local Logger with sendToFile(<dir>/T, max size M, max count C, options O), N messages, destroyed at the end
//   edge:K:T:N    arguments the API accepts and IGNORES, then N messages through a local Logger sending to template T:
//                 K = 0 null handler / filter / formatter / sink / attribute handler / pipeline pointers appended (and removed),
//                 1 sendToFile(empty name), an IODeviceSink on a null device, QtLogger::configure(null pipeline, ...),
//                 2 empty pattern (format(""), PatternFormatter("") printed on stdout), empty category rules, 3 all of them
// Boundary ARGUMENTS: template T = -1 is the EMPTY path (configure() documents it as "no file", sendToFile ignores it); M and C
// may be negative (maxFileCount <= 0 is documented as "keep every rotated file", maxFileSize <= 0 as "no size limit"); pattern
// K = 3 is the empty pattern.
// A library as the project's CMake build produces it is compiled with -DQT_NO_DEBUG (Qt5::Core adds it outside Debug), the single
// header is compiled with the USER's flags: the check builds this program against such a library and header-only without / with
// QT_NO_DEBUG.
// ending:  ret:C  return C from main | exit:C  std::exit(C) in main | fatal  qFatal() | qexit:C  std::quick_exit(C)
//          eexit:C  (in the EARLY phase) std::exit(C) from the global object's constructor
#ifdef VERIF_HEADER_ONLY
#include "qtlogger.h"
#else
#include "qtlogger/qtlogger.h"
#endif
#include <QCoreApplication>
#include <QDir>
#include <QLoggingCategory>
#include <QScopedPointer>
#include <cstdio>
#include <cstdlib>
using namespace QtLogger;

namespace {

const char *const kTemplates[] = { "plain.log", "t_%{time yyyy}.log", "t_%{time}.log", "sub_%{time yyyy-MM}_x.log", "noext",
                                   "two_%{time yyyy}_%{time MM}.log", "odd_%{timeyyyy}.log",
                                   "missing_dir/cannot_open.log" };   // the last one cannot be opened: the sinks' error paths
const int kTemplateCount = int(sizeof kTemplates / sizeof kTemplates[0]);
const char *const kPatterns[] = { "[%{message:*^7}]|%{type}", "%{if-warning}W%{endif}%{category} %{message:>6}", "%{shortfile}:%{line} %{function}",
                                  "" };                               // the empty pattern
const int kPatternCount = int(sizeof kPatterns / sizeof kPatterns[0]);

// everything the program keeps alive until static destruction; declared BEFORE the global object that runs the early phase
QList<SinkPtr> g_keep;
QString g_dir;
int g_counter = 0;

QString nextText(const char *prefix)
{
    // letters only: the caller replaces digits (time stamps, thread ids) before comparing
    int k = g_counter++;
    QString s = QString::fromLatin1(prefix) + QLatin1Char('-');
    do {
        s += QLatin1Char(char('a' + k % 26));
        k /= 26;
    } while (k > 0);
    return s;
}

QString pathOf(int t)
{
    if (t < 0)
        return QString();      // the empty path
    return g_dir + QLatin1Char('/') + QString::fromLatin1(kTemplates[((t % kTemplateCount) + kTemplateCount) % kTemplateCount]);
}

void sendDirect(const SinkPtr &sink, int n, const char *prefix)
{
    for (int i = 0; i < n; ++i) {
        LogMessage lmsg(i % 2 ? QtWarningMsg : QtInfoMsg, QMessageLogContext("file.cpp", 10 + i, "void f()", "default"), nextText(prefix));
        sink->send(lmsg);
    }
}

int arg(const QList<QByteArray> &f, int i, int dflt = 0)
{
    return i < f.size() ? f.at(i).toInt() : dflt;
}

void runOps(const QByteArray &ops, bool early, QScopedPointer<QCoreApplication> &app, int &argc, char **argv)
{
    const QList<QByteArray> list = ops.split(',');
    for (const QByteArray &op : list) {
        const QList<QByteArray> f = op.split(':');
        const QByteArray k = f.value(0);
        if (k == "fs" || k == "rs") {
            const bool rot = (k == "rs");
            SinkPtr s;
            if (rot)
                s = RotatingFileSinkPtr::create(pathOf(arg(f, 1)), arg(f, 2), arg(f, 3));
            else
                s = FileSinkPtr::create(pathOf(arg(f, 1)));
            const int n = arg(f, rot ? 4 : 2), mode = arg(f, rot ? 5 : 3);
            sendDirect(s, n, rot ? "rs" : "fs");
            if (mode == 1)
                s->flush();
            if (mode != 2)
                g_keep.append(s);
        } else if (k == "cfg") {
            gQtLogger.configure(pathOf(arg(f, 1)), arg(f, 2), arg(f, 3), RotatingFileSink::Options(arg(f, 4)), false);
        } else if (k == "stf") {
            gQtLogger.format(QStringLiteral("%{type} %{category} %{message}")).sendToFile(pathOf(arg(f, 1)));
            gQtLogger.installMessageHandler();
        } else if (k == "log") {
            for (int i = 0, n = arg(f, 1); i < n; ++i) {
                const QByteArray t = nextText("log").toUtf8();
                switch (i % 4) {
                case 0: qInfo("%s", t.constData()); break;
                case 1: qWarning("%s", t.constData()); break;
                case 2: qDebug("%s", t.constData()); break;
                default: qCritical("%s", t.constData()); break;
                }
            }
        } else if (k == "clog") {
            QLoggingCategory cat("net.http");
            for (int i = 0, n = arg(f, 1); i < n; ++i)
                qCWarning(cat, "%s", nextText("clog").toUtf8().constData());
        } else if (k == "flush") {
            gQtLogger.flush();
        } else if (k == "own") {
            Logger l;
            l.format(QStringLiteral("%{message}")).sendToFile(pathOf(arg(f, 1)));
            for (int i = 0, n = arg(f, 2); i < n; ++i)
                l.processMessage(QtInfoMsg, QMessageLogContext("own.cpp", i, "void g()", "own"), nextText("own"));
        } else if (k == "ownr") {
            Logger l;
            l.format(QStringLiteral("%{message}")).sendToFile(pathOf(arg(f, 1)), arg(f, 2), arg(f, 3), RotatingFileSink::Options(arg(f, 4)));
            for (int i = 0, n = arg(f, 5); i < n; ++i)
                l.processMessage(QtInfoMsg, QMessageLogContext("ownr.cpp", i, "void g()", "own"), nextText("ownr"));
        } else if (k == "edge") {
            const int kind = ((arg(f, 1) % 4) + 4) % 4;
            Logger l;
            if (kind == 0 || kind == 3) {
                l.append(HandlerPtr());
                l << HandlerPtr();
                l.remove(HandlerPtr());
                l.appendAttrHandler(AttrHandlerPtr());
                l.appendFilter(FilterPtr());
                l.setFormatter(FormatterPtr());
                l.appendSink(SinkPtr());
                l.appendPipeline(PipelinePtr());
            }
            if (kind == 1 || kind == 3) {
                l.sendToFile(QString());
                l.sendToFile(QString(), 1, -1);
                l.sendToIODevice(QIODevicePtr());
                QtLogger::configure(static_cast<Pipeline *>(nullptr), pathOf(arg(f, 2)), 1, -1);
            }
            if (kind == 2 || kind == 3) {
                l.filterCategory(QString());
                l.format(QString());
                PatternFormatter pf{ QString() };
                LogMessage lmsg(QtWarningMsg, QMessageLogContext("/src/dir/file.cpp", 42, "void ns::f(int)", "net.http"), QStringLiteral("abc"));
                std::printf("edge-pat [%s]\n", pf.format(lmsg).toUtf8().constData());
                std::fflush(stdout);
            } else {
                l.format(QStringLiteral("%{type} %{message}"));
            }
            l.sendToFile(pathOf(arg(f, 2)));
            for (int i = 0, n = arg(f, 3); i < n; ++i)
                l.processMessage(i % 2 ? QtWarningMsg : QtInfoMsg, QMessageLogContext("edge.cpp", i, "void e()", i % 3 ? "app" : "net.http"), nextText("edge"));
        } else if (k == "pipe") {
            Logger l;
            switch (((arg(f, 1) % 4) + 4) % 4) {
            case 0: l.filterCategory(QStringLiteral("net.*=false\n*.critical=true\napp.debug=false")).format(QStringLiteral("%{category} %{type:>8} %{message}")); break;
            case 1: l.filter(QStringLiteral("^pipe-[a-m]")).formatToJson(true); break;
            case 2: l.filterDuplicate().formatPretty(false, 10); break;
            default: l.filterLevel(QtWarningMsg).addSeqNumber().format([](const LogMessage &m) -> QString {      // explicit: no QStringBuilder expression may leave the lambda
                         return m.attribute(QStringLiteral("seq_number")).toString() + QLatin1Char(' ') + m.message(); }); break;
            }
            l.sendToFile(pathOf(arg(f, 2)));
            const QtMsgType types[4] = { QtDebugMsg, QtWarningMsg, QtInfoMsg, QtCriticalMsg };
            const char *const cats[3] = { "net.http", "app", "default" };
            QString text;
            for (int i = 0, n = arg(f, 3); i < n; ++i) {
                if (i % 3 != 2)
                    text = nextText("pipe");      // every third message repeats the previous text
                l.processMessage(types[i % 4], QMessageLogContext("pipe.cpp", i, "void h()", cats[i % 3]), text);
            }
        } else if (k == "pat") {
            PatternFormatter pf(QString::fromLatin1(kPatterns[((arg(f, 1) % kPatternCount) + kPatternCount) % kPatternCount]));
            LogMessage lmsg(QtWarningMsg, QMessageLogContext("/src/dir/file.cpp", 42, "void ns::f(int)", "net.http"), QStringLiteral("abc"));
            std::printf("pat %s\n", pf.format(lmsg).toUtf8().constData());
            std::fflush(stdout);
        } else if (k == "app") {
            if (!early && !app)
                app.reset(new QCoreApplication(argc, argv));
        } else if (k == "restore") {
            Logger::restorePreviousMessageHandler();
        } else if (k == "eexit") {
            if (early)
                std::exit(arg(f, 1));
        }
    }
}

QByteArray phase(int i)
{
    return qgetenv("C20_PROG").split('/').value(i);
}

struct EarlyPhase
{
    EarlyPhase()
    {
        g_dir = QString::fromLocal8Bit(qgetenv("C20_DIR"));
        if (g_dir.isEmpty())
            return;
        QDir().mkpath(g_dir);
        QScopedPointer<QCoreApplication> none;
        int argc = 0;
        runOps(phase(0), true, none, argc, nullptr);
        std::printf("early-done\n");
        std::fflush(stdout);
    }
};
EarlyPhase g_earlyPhase;   // constructed before main()

}

int main(int argc, char **argv)
{
    if (g_dir.isEmpty())
        return 2;
    QScopedPointer<QCoreApplication> app;
    runOps(phase(1), false, app, argc, argv);
    std::printf("main-done\n");
    std::fflush(stdout);
    const QList<QByteArray> e = phase(2).split(':');
    const int code = e.value(1).toInt();
    if (e.value(0) == "exit")
        std::exit(code);
    if (e.value(0) == "qexit")
        std::quick_exit(code);
    if (e.value(0) == "fatal")
        qFatal("fatal-end");
    return code;
}
