// C20 behaviour harness: a fixed list of public API calls whose results must be the same whether the
// program is built against the library or header-only (with whatever flags the user's project uses:
// this file compiles with -DQT_USE_QSTRINGBUILDER -DQT_NO_KEYWORDS -DQT_NO_CAST_FROM_ASCII).
//   h_header_behaviour <scratch dir>
// output: one line per probe   <E|T> <name> <hex of the UTF-8 result>
//   E = compared exactly; T = contains wall-clock time / thread ids / a UUID: the caller compares the shape
//   (digits and 32-digit hex ids replaced)
#ifdef VERIF_HEADER_ONLY
#include "qtlogger.h"
#else
#include "qtlogger/qtlogger.h"
#endif
#include <QCoreApplication>
#include <QDir>
#include <cstdio>
using namespace QtLogger;

static void out(char kind, const char *name, const QString &v)
{
    std::printf("%c %s %s\n", kind, name, v.toUtf8().toHex().constData());
}
static QString names(const QString &dir)
{
    QStringList l = QDir(dir).entryList(QDir::Files, QDir::Name);
    return l.join(QLatin1Char('|'));
}
int main(int argc, char **argv)
{
    QCoreApplication app(argc, argv);
    if (argc < 2)
        return 2;
    const QString dir = QString::fromLocal8Bit(argv[1]);

    // 1. file name expansion of the file sinks
    {
        QDir().mkpath(dir + QStringLiteral("/a"));
        { FileSinkPtr s = FileSinkPtr::create(dir + QStringLiteral("/a/app_%{time}.log")); }
        out('T', "filesink_bare_time", names(dir + QStringLiteral("/a")));
        QDir().mkpath(dir + QStringLiteral("/b"));
        { FileSinkPtr s = FileSinkPtr::create(dir + QStringLiteral("/b/app_%{time yyyy-MM}.log")); }
        out('T', "filesink_time_format", names(dir + QStringLiteral("/b")));
        QDir().mkpath(dir + QStringLiteral("/c"));
        { RotatingFileSinkPtr s = RotatingFileSinkPtr::create(dir + QStringLiteral("/c/rot_%{time}.log"), 1000, 3); }
        out('T', "rotatingfilesink_bare_time", names(dir + QStringLiteral("/c")));
        QDir().mkpath(dir + QStringLiteral("/d"));
        {
            Logger l;
            l.format(QStringLiteral("%{message}")).sendToFile(dir + QStringLiteral("/d/fluent_%{time}.log"));
        }
        out('T', "sendToFile_bare_time", names(dir + QStringLiteral("/d")));
    }

    // 2. pattern formatter: paddings (centred with odd and even remainders, truncation), type names, conditionals
    const QByteArray file("/src/dir/file.cpp"), fn("void ns::f(int)"), cat("net.http");
    const QtMsgType types[5] = { QtDebugMsg, QtInfoMsg, QtWarningMsg, QtCriticalMsg, QtFatalMsg };
    const char *pats[] = { "[%{message:*^7}]", "[%{message:*^8}]", "[%{message:_^9!}]", "[%{message:*^3!}]", "[%{message:>6}]", "[%{message:<6}]",
                           "[%{type:^9}]", "[%{type:#^10}]", "[%{category:-^11}]", "[%{message:*^2}]", "[%{message:^5}|%{type:*^8}]",
                           "%{if-debug}D%{endif}%{if-info}I%{endif}%{if-warning}W%{endif}%{if-critical}C%{endif}%{if-fatal}F%{endif}|%{type}",
                           "%{shortfile}:%{line} %{function} %{category}" };
    const char *msgs[] = { "ab", "abc", "", "abcdefgh" };
    int n = 0;
    for (const char *p : pats) {
        PatternFormatter f(QString::fromLatin1(p));
        for (const char *m : msgs) {
            for (QtMsgType t : types) {
                QMessageLogContext ctx(file.constData(), 42, fn.constData(), cat.constData());
                LogMessage lm(t, ctx, QString::fromLatin1(m));
                char name[64];
                std::snprintf(name, sizeof name, "pattern_%d", n++);
                out('E', name, QString::fromLatin1(p) + QStringLiteral(" / ") + QString::fromLatin1(m) + QStringLiteral(" / ")
                                   + QString::number(int(t)) + QStringLiteral(" -> ") + f.format(lm));
            }
        }
    }

    // 3. the other formatters (time stamps, thread ids, event ids: shape only)
    for (QtMsgType t : types) {
        QMessageLogContext ctx(file.constData(), 7, fn.constData(), cat.constData());
        LogMessage lm(t, ctx, QStringLiteral("hello world"));
        lm.setAttribute(QStringLiteral("user"), QStringLiteral("admin"));
        char name[64];
        std::snprintf(name, sizeof name, "pretty_%d", int(t));
        out('T', name, PrettyFormatter(false, 15).format(lm));
        std::snprintf(name, sizeof name, "pretty_colour_%d", int(t));
        out('T', name, PrettyFormatter(true, 6).format(lm));
        std::snprintf(name, sizeof name, "json_%d", int(t));
        out('T', name, JsonFormatter(true).format(lm));
        std::snprintf(name, sizeof name, "sentry_%d", int(t));
        out('T', name, SentryFormatter(QStringLiteral("sdk"), QStringLiteral("1.0")).format(lm));
    }

    // 4. filters
    {
        CategoryFilter cf(QStringLiteral("net.*=false\nnet.http.warning=true\n*.critical=true\napp.debug=false"));
        const char *cats[] = { "net.http", "net.x", "app", "default" };
        QString r;
        for (const char *c : cats)
            for (QtMsgType t : types) {
                QMessageLogContext ctx(file.constData(), 1, fn.constData(), c);
                LogMessage lm(t, ctx, QStringLiteral("m"));
                r += cf.filter(lm) ? QLatin1Char('1') : QLatin1Char('0');
            }
        out('E', "category_filter", r);
        LevelFilter lf(QtWarningMsg);
        QString r2;
        for (QtMsgType t : types) {
            QMessageLogContext ctx(file.constData(), 1, fn.constData(), cat.constData());
            LogMessage lm(t, ctx, QStringLiteral("m"));
            r2 += lf.filter(lm) ? QLatin1Char('1') : QLatin1Char('0');
        }
        out('E', "level_filter", r2);
    }
    return 0;
}
