// C10 harness: drives a real RotatingFileSink and exits.  Crashes and I/O failures are injected from
// OUTSIDE with strace (-e inject=<call>:signal=SIGKILL:when=<k> / :error=<ERRNO>:when=<k>); nothing
// in this program knows about them.
//
//   h_crash <dir> <L> <N> <options> <first id> <size,size,...> [<file name> [<file name 2> <N2>]]
//
// <file name> defaults to app.log.  With a second file name TWO sinks live in the same process and
// directory (the second with count limit N2); records go alternately to the first and the second.
//
// For every size s (>= 7) one record "r<5-digit id>" padded with 'x' to s-1 characters (+ '\n' = s
// bytes) is sent and flushed; then "DONE <id>" is written to stderr with one write(2), so the parent
// knows which records had reached the file before the process died.  "READY" is written once the
// sink object exists (its constructor opens/creates the active file).
#ifdef VERIF_HEADER_ONLY
#include "qtlogger.h"
#else
#include "qtlogger/qtlogger.h"
#endif
#include <QDir>
#include <unistd.h>
#include <cstdio>
#include <cstdlib>
using namespace QtLogger;
static void say(const char *fmt, int v)
{
    char b[48];
    int k = snprintf(b, sizeof b, fmt, v);
    (void)!write(2, b, k);
}
int main(int argc, char **argv)
{
    if (argc < 7) return 2;
    QString dir = QString::fromLocal8Bit(argv[1]);
    int L = atoi(argv[2]), N = atoi(argv[3]), o = atoi(argv[4]), start = atoi(argv[5]);
    QDir().mkpath(dir);
    QMessageLogContext ctx("f.cpp", 1, "void f()", "cat");
    QString name = argc > 7 ? QString::fromLocal8Bit(argv[7]) : QStringLiteral("app.log");
    RotatingFileSink sink(dir + "/" + name, L, N, RotatingFileSink::Options(o));
    QScopedPointer<RotatingFileSink> sink2;
    if (argc > 9)
        sink2.reset(new RotatingFileSink(dir + "/" + QString::fromLocal8Bit(argv[8]), L, atoi(argv[9]), RotatingFileSink::Options(o)));
    say("READY %d\n", 0);
    int id = start;
    for (const QByteArray &s : QByteArray(argv[6]).split(',')) {
        if (s.isEmpty()) continue;
        int size = s.toInt();
        QString text = QString("r%1").arg(id, 5, 10, QChar('0'));
        while (text.size() + 1 < size) text += QChar('x');
        LogMessage m(QtInfoMsg, ctx, text);
        RotatingFileSink &dst = (sink2 && ((id - start) & 1)) ? *sink2 : sink;
        dst.send(m);
        dst.flush();
        say("DONE %d\n", id);
        id++;
    }
    return 0;
}
