// C10 harness: drives a real RotatingFileSink and exits.  Crashes and I/O failures are injected from
// OUTSIDE with strace (-e inject=<call>:signal=SIGKILL:when=<k> / :error=<ERRNO>:when=<k>); nothing
// in this program knows about them.
//
//   h_crash <dir> <L> <N> <options> <first id> <size,size,...>
//
// For every size s (>= 7) one record "r<5-digit id>" padded with 'x' to s-1 characters (+ '\n' = s
// bytes) is sent and flushed; then "DONE <id>" is written to stderr with one write(2), so the parent
// knows which records had reached the file before the process died.  "READY" is written once the
// sink object exists (its constructor opens/creates the active file).
#ifdef VERIF_HEADER_ONLY
#include "qtlogger.h"
#else
#include "qtlogger/qtlogger.h"
#endif
#include <QDir>
#include <unistd.h>
#include <cstdio>
#include <cstdlib>
using namespace QtLogger;
static void say(const char *fmt, int v)
{
    char b[48];
    int k = snprintf(b, sizeof b, fmt, v);
    (void)!write(2, b, k);
}
int main(int argc, char **argv)
{
    if (argc < 7) return 2;
    QString dir = QString::fromLocal8Bit(argv[1]);
    int L = atoi(argv[2]), N = atoi(argv[3]), o = atoi(argv[4]), start = atoi(argv[5]);
    QDir().mkpath(dir);
    QMessageLogContext ctx("f.cpp", 1, "void f()", "cat");
    RotatingFileSink sink(dir + "/app.log", L, N, RotatingFileSink::Options(o));
    say("READY %d\n", 0);
    int id = start;
    for (const QByteArray &s : QByteArray(argv[6]).split(',')) {
        if (s.isEmpty()) continue;
        int size = s.toInt();
        QString text = QString("r%1").arg(id, 5, 10, QChar('0'));
        while (text.size() + 1 < size) text += QChar('x');
        LogMessage m(QtInfoMsg, ctx, text);
        sink.send(m);
        sink.flush();
        say("DONE %d\n", id);
        id++;
    }
    return 0;
}
