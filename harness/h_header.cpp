// C20 (thorough tier): the committed single header compiles and links on its own and logs a line.
// Built only in the hdr variant:  build/h_header.hdr <logfile>
#ifdef VERIF_HEADER_ONLY
#include "qtlogger.h"
#else
#include "qtlogger/qtlogger.h"
#endif
#include <QCoreApplication>
int main(int argc, char **argv)
{
    QCoreApplication app(argc, argv);
    if (argc < 2)
        return 2;
    gQtLogger.format("%{message}").sendToFile(QString::fromLocal8Bit(argv[1]));
    gQtLogger.installMessageHandler();
    qInfo("hello");
    gQtLogger.flush();
    QtLogger::Logger::restorePreviousMessageHandler();
    return 0;
}
