// C11 harness: configures a SYNCHRONOUS logger on the real library as described on the command
// line, logs the given messages, then either raises qFatal (Qt aborts the process: SIGABRT) or kills
// itself with SIGKILL (no fatal message; used to validate the buffering model).  The parent
// (checks/c11.py) reads the files afterwards.
//
//   h_fatal <dir> <tree> <end> <thread> <msgs> <fatalsize>
//     tree   : F FileSink | R RotatingFileSink(limit 1 GiB: never rotates) | r RotatingFileSink(limit
//              64 KiB: rotates) | D RotatingFileSink(no size limit, daily) | o PatternFormatter("%{message}")
//              | B FileSink on /dev/full (every flush fails; takes a sink number, has no file)
//              | filters: g FunctionFilter debug only | n FunctionFilter everything but fatal | e FunctionFilter
//                even message ids | x RegExpFilter odd message ids | l LevelFilter(QtWarningMsg)
//                | y CategoryFilter("*=false\n*.debug=true") (debug only)
//              | ( ... ) nested SimplePipeline, all built with the handler-level API on gQtLogger;
//              or a front-end: ONE  = gQtLogger.configure(path, 0, 0, None, /*async*/ false)
//                              ONER = gQtLogger.configure(path, 1 GiB, 0, None, false)
//                              FLU  = gQtLogger.format("%{message}").sendToFile(p0).sendToFile(p1, 1 GiB, 0)
//                              FLUN = gQtLogger.format(..).sendToFile(p0).pipeline().sendToFile(p1).end()
//                              FLUT = format(..).pipeline().filter(<debug only>).sendToFile(p0).end().sendToFile(p1)
//                              FLUC = format(..).pipeline().filterCategory(<debug only>).sendToFile(p0, 1 GiB, 0).end().sendToFile(p1)
//                              FLUB = format(..).sendToFile("/dev/full").sendToFile(p1)
//                              FLU1 = format(..).sendToFile(p0)          (handlers: formatter, sink)
//                              FLUP = format(..).sendToFile(p0).pipeline().filterLevel(QtWarningMsg)   (formatter, sink, (filter))
//              the k-th file sink in depth-first order writes <dir>/s<k>.log
//              | k RotatingFileSink(1000 bytes, keeps 3 files: retention, files not checked) | K RotatingFileSink(1000 bytes, keeps
//                everything) on <dir>/ws<j>.log, j = number of the last k sink (of the next sink when there is none yet): two rotating sinks in one directory, the name
//                of one ending with the name of the other; the retention of k must not touch the files of K
//              | q RotatingFileSink(limit 1000 bytes: rotates often) | Q the same, with a directory occupying the
//                name of today's first rotated file (the rename fails, the sink goes on appending)
//              | Z RotatingFileSink(1000 bytes, keeps everything, Compression: every rotated file becomes <name>.gz)
//                front-ends ONEZ = configure(path, 1000, 0, Compression, false); FLUZ = format(..).sendToFile(p0, 1000, 0, Compression)
//              front-ends ONEQ = configure(path, 1000, 0, None, false) with the blocked rotation name;
//                ONEA1 = configure(path, .., async = true) then resetOwnThread(); ONEA2 = the same, then the event loop
//                runs and quits (aboutToQuit stops the own thread): the logger has BECOME synchronous
//     msgs   : f (no size) = an explicit gQtLogger.flush() between two messages (takes no message id)
//              reconfigurations between two messages (no id either); <path> = handler indices joined by '.', from
//              gQtLogger (empty = the logger itself); a path that does not lead to a pipeline makes the item a no-op:
//                +<path>:<handler>  Pipeline::append of ONE handler given in tree letters (may be a "( .. )")
//                ^<path>:F|R        SimplePipeline::sendToFile(file [, 1 GiB, 0]) on that pipeline
//                ~<path>:<k>        Pipeline::remove(handlers()[k])
//                !<path>:           SortedPipeline::clearSinks()
//              file sinks are numbered in creation order (s<k>.log)
//              a sink letter F or R followed by @<k> (in the tree or in a + / ^ item) = a NEW file sink (own number) on the
//              file of sink k: two sinks (two QFile objects) appending to one file
//                &<k>:<n>           a second, short-lived Logger object with a FileSink on s<k>.log (takes a sink number) logs
//                                   n records (ids from 1000000, 10 bytes) and is destroyed
//              size 0 = the EMPTY text, size -n = a text of n blanks (also for <fatalsize>)
// Built with -DVERIF_NO_THREAD (library with -DQTLOGGER_NO_THREAD): the asynchronous front-ends (ONEA1/ONEA2)
// and every thread mode but `main` do not exist (exit status 2): the single-threaded logger has no mutex.
//     end    : fatal | kill
//              | N a null HandlerPtr entry (appended through the initializer-list overload)
//              | S a FunctionHandler that sleeps 2 s when called from a thread other than the main thread
//     msgs   : additionally z<size> = a message logged while the device rejects writes (RLIMIT_FSIZE 0) after a flush
//     thread : busy (the last preceding message comes from a helper thread and is held inside the logger by an S
//              handler while the main thread raises the fatal message)
//              | main (everything from the main thread) | sec (second half of the messages and the
//              fatal message / the kill from a secondary thread) | qt (same, from a QThread)
//     msgs   : - or comma separated <t><size>[*<count>], t in d w c i, or m = "diwc"[id % 4]; fatalsize = bytes of the fatal text
// message i has the text "<i>:" padded with the letter 'a' + i % 26 to <size> bytes.
#ifdef VERIF_HEADER_ONLY
#include "qtlogger.h"
#else
#include "qtlogger/qtlogger.h"
#endif
#include <QCoreApplication>
#include <QThread>
#include <QTimer>
#include <QDir>
#include <QDate>
#include <csignal>
#include <string>
#include <thread>
#include <vector>
#include <sys/resource.h>
using namespace QtLogger;

static std::string text_of(int id, int size)
{
    if (size <= 0)   // size 0: the EMPTY text; size -n: a text of n blanks (whitespace only); such a record carries no id
        return std::string(-size, ' ');
    std::string s = std::to_string(id) + ":";
    if ((int)s.size() < size)
        s.append(size - s.size(), char('a' + id % 26));
    return s;
}
static int msg_id(const LogMessage &m) { return m.message().section(QLatin1Char(':'), 0, 0).toInt(); }
struct Msg { char t; int size; int id; std::string op; };
static void apply_op(const std::string &op);
static void emit_msg(int, const Msg &m)
{
    const int id = m.id;
    if (m.t == 'f') { gQtLogger.flush(); return; }   // an explicit flush() between two messages
    if (m.t == '+' || m.t == '^' || m.t == '~' || m.t == '!' || m.t == '&') { apply_op(m.op); return; }   // a reconfiguration
    const std::string s = text_of(id, m.size);
    char t = m.t == 'm' ? "diwc"[id % 4] : m.t;
    if (t == 'z') {
        // transient write fault: everything buffered goes out first, then the device rejects writes
        // (file size limit 0, SIGXFSZ ignored: write(2) fails with EFBIG) while this one message is logged
        gQtLogger.flush();
        struct rlimit saved, tight;
        getrlimit(RLIMIT_FSIZE, &saved);
        tight = saved;
        tight.rlim_cur = 0;
        setrlimit(RLIMIT_FSIZE, &tight);
        qInfo("%s", s.c_str());
        setrlimit(RLIMIT_FSIZE, &saved);
        return;
    }
    switch (t) {
    case 'd': qDebug("%s", s.c_str()); break;
    case 'w': qWarning("%s", s.c_str()); break;
    case 'c': qCritical("%s", s.c_str()); break;
    default: qInfo("%s", s.c_str()); break;
    }
}
static QString g_dir;
static int g_nsink = 0;
static int g_lastk = -1; // number of the last k sink (retention); a K sink is named after it
static int g_ntmp = 0;   // records logged through temporary Logger objects (& items)
static const int big = 1 << 30;
static QString next_path() { return g_dir + QStringLiteral("/s%1.log").arg(g_nsink++); }
// a sink written <letter>@<k> takes its own sink number but logs to the file of sink k (s<k>.log): two file sinks, ONE file
static QString next_path_or(int alias)
{
    if (alias < 0) return next_path();
    g_nsink++;
    return g_dir + QStringLiteral("/s%1.log").arg(alias);
}
// a directory that occupies the name the first rotation of today would use: the rename fails
static void block_rotation(int k)
{
    const QString today = QDate::currentDate().toString(QStringLiteral("yyyy-MM-dd"));
    QDir().mkpath(g_dir + QStringLiteral("/s%1.%2.1.log").arg(k).arg(today));
}
// appends the handlers described by the tree letters to root (handler-level API); false: unknown letter
static bool build_into(Pipeline *root, const std::string &tree)
{
    std::vector<Pipeline *> stack { root };
    int alias = -1;
    auto path = [&alias]() { return next_path_or(alias); };
    int &nsink = g_nsink;
    int depth = 0;
    for (size_t ti = 0; ti < tree.size(); ti++) {
        const char c = tree[ti];
        Pipeline *cur = stack.back();
        alias = -1;
        if (ti + 1 < tree.size() && tree[ti + 1] == '@') {   // <sink letter>@<k>: same file as sink k
            size_t tj = ti + 2;
            alias = 0;
            while (tj < tree.size() && isdigit((unsigned char)tree[tj])) alias = alias * 10 + (tree[tj++] - '0');
            ti = tj - 1;
        }
        switch (c) {
        case 'o': cur->append(PatternFormatterPtr::create(QStringLiteral("%{message}"))); break;
        case 'F': cur->append(FileSinkPtr::create(path())); break;
        case 'R': cur->append(RotatingFileSinkPtr::create(path(), big, 0)); break;
        case 'r': cur->append(RotatingFileSinkPtr::create(path(), 65536, 0)); break;
        case 'q': cur->append(RotatingFileSinkPtr::create(path(), 1000, 0)); break;                // rotates every 1000 bytes
        case 'Z': cur->append(RotatingFileSinkPtr::create(path(), 1000, 0, RotatingFileSink::Compression)); break; // ... every rotated file gzipped (<name>.gz)
        case 'Q': block_rotation(nsink); cur->append(RotatingFileSinkPtr::create(path(), 1000, 0)); break; // ... and its first rename fails
        case 'D': cur->append(RotatingFileSinkPtr::create(path(), 0, 0, RotatingFileSink::RotationDaily)); break;
        case 'k': // rotates every 1000 bytes and KEEPS ONLY 3 files (retention: what it drops is lost by design, its files are not checked)
            g_lastk = nsink;
            cur->append(RotatingFileSinkPtr::create(path(), 1000, 3));
            break;
        case 'K': { // rotates every 1000 bytes, keeps everything; its file name ENDS with the name of the last k sink: ws<j>.log
            const int j = g_lastk >= 0 ? g_lastk : nsink + 1;   // no k sink yet: named after the NEXT sink
            nsink++;
            cur->append(RotatingFileSinkPtr::create(g_dir + QStringLiteral("/ws%1.log").arg(j), 1000, 0));
            break;
        }
        case 'N': { // a null entry: append(initializer_list) and Pipeline({..}) accept it, process() skips it
            std::initializer_list<HandlerPtr> il = { HandlerPtr() };
            cur->append(il);
            break;
        }
        case 'S': // a slow handler: sleeps 2 s inside the logger (mutex held) when called from a non-main thread
            cur->append(FunctionHandlerPtr::create([](LogMessage &) {
                if (QThread::currentThread() != qApp->thread()) QThread::msleep(2000);
                return true;
            }));
            break;
        case 'B': nsink++; cur->append(FileSinkPtr::create(QStringLiteral("/dev/full"))); break;
        case 'g': cur->append(FunctionFilterPtr::create([](const LogMessage &m) { return m.type() == QtDebugMsg; })); break;
        case 'n': cur->append(FunctionFilterPtr::create([](const LogMessage &m) { return m.type() != QtFatalMsg; })); break;
        case 'e': cur->append(FunctionFilterPtr::create([](const LogMessage &m) { return msg_id(m) % 2 == 0; })); break;
        case 'x': cur->append(RegExpFilterPtr::create(QStringLiteral("^[0-9]*[13579]:"))); break;
        case 'l': cur->append(LevelFilterPtr::create(QtWarningMsg)); break;
        case 'y': cur->append(CategoryFilterPtr::create(QStringLiteral("*=false\n*.debug=true"))); break;
        case '(': {
            // alternate scoped and unscoped nested pipelines
            auto p = SimplePipelinePtr::create(/* scoped */ (depth++ % 2) == 0);
            cur->append(p);
            stack.push_back(p.data());
            break;
        }
        case ')': if (stack.size() > 1) stack.pop_back(); break;
        default: return false;
        }
    }
    return true;
}
// one reconfiguration item: <op><path>:<arg>
static void apply_op(const std::string &it)
{
    const char kind = it[0];
    const size_t colon = it.find(':');
    const std::string ps = it.substr(1, colon == std::string::npos ? std::string::npos : colon - 1);
    const std::string arg = colon == std::string::npos ? std::string() : it.substr(colon + 1);
    Pipeline *cur = &gQtLogger;
    size_t i = 0;
    while (cur && i < ps.size()) {
        size_t j = ps.find('.', i);
        const std::string part = ps.substr(i, j == std::string::npos ? std::string::npos : j - i);
        if (!part.empty()) {
            const int idx = atoi(part.c_str());
            const auto &hs = static_cast<const Pipeline *>(cur)->handlers();
            auto sub = idx < hs.size() ? hs.at(idx).dynamicCast<Pipeline>() : PipelinePtr();
            cur = sub.data();   // stays alive: owned by its parent
        }
        if (j == std::string::npos) break;
        i = j + 1;
    }
    if (kind == '+' || kind == '^') {
        if (!cur) {
            // the handler is created (its sinks take their numbers, as in the model) and dropped
            Pipeline scratch;
            build_into(&scratch, arg);
            return;
        }
        auto *sp = dynamic_cast<SimplePipeline *>(cur);
        const int alias = arg.size() > 2 && arg[1] == '@' ? atoi(arg.c_str() + 2) : -1;   // F@<k> / R@<k>: the file of sink k
        const bool single = arg.size() == 1 || (alias >= 0 && arg.find_first_not_of("0123456789", 2) == std::string::npos);
        if (kind == '^' && sp && single && arg[0] == 'F') sp->sendToFile(next_path_or(alias));
        else if (kind == '^' && sp && single && arg[0] == 'R') sp->sendToFile(next_path_or(alias), big, 0);
        else build_into(cur, arg);
    } else if (kind == '~') {
        if (!cur) return;
        const int k = atoi(arg.c_str());
        const auto &hs = static_cast<const Pipeline *>(cur)->handlers();
        if (k < hs.size()) { HandlerPtr h = hs.at(k); cur->remove(h); }
    } else if (kind == '!') {
        if (auto *sp = dynamic_cast<SortedPipeline *>(cur)) sp->clearSinks();
    } else if (kind == '&') {
        // &<k>:<n>  a SECOND, short-lived Logger object with a file sink on the file of sink k (it takes a sink number):
        // it logs n records of its own (ids 1000000, 1000001, .. over the whole run, 10 bytes) and goes out of scope
        const int k = atoi(ps.c_str()), n = atoi(arg.c_str());
        Logger tmp;
        tmp.append(PatternFormatterPtr::create(QStringLiteral("%{message}")));
        tmp.append(FileSinkPtr::create(next_path_or(k)));
        QMessageLogContext ctx;
        for (int j = 0; j < n; j++)
            tmp.processMessage(QtInfoMsg, ctx, QString::fromStdString(text_of(1000000 + g_ntmp++, 10)));
    }
}
int main(int argc, char **argv)
{
    if (argc < 7)
        return 2;
    struct rlimit rl = { 0, 0 };
    setrlimit(RLIMIT_CORE, &rl);
    signal(SIGXFSZ, SIG_IGN);
    QCoreApplication app(argc, argv);
    g_dir = QString::fromLocal8Bit(argv[1]);
    const std::string tree = argv[2], end = argv[3], thr = argv[4], ms = argv[5];
    const int fatalsize = atoi(argv[6]);
    int &nsink = g_nsink;
    auto path = []() { return next_path(); };
#ifdef VERIF_NO_THREAD
    if (thr != "main" || tree == "ONEA1" || tree == "ONEA2")
        return 2;   // no second thread may log into the single-threaded logger; no asynchronous front-end
#endif
    if (tree == "ONE") {
        gQtLogger.configure(path(), 0, 0, RotatingFileSink::Option::None, false);
    } else if (tree == "ONEQ") { // one-line configuration with a small size limit; the first rotation's rename is blocked
        block_rotation(0);
        gQtLogger.configure(path(), 1000, 0, RotatingFileSink::Option::None, false);
#ifndef VERIF_NO_THREAD
    } else if (tree == "ONEA1") { // configured asynchronous, made synchronous again before anything is logged
        gQtLogger.configure(path(), 0, 0, RotatingFileSink::Option::None, /* async */ true);
        gQtLogger.resetOwnThread();
    } else if (tree == "ONEA2") { // configured asynchronous; the event loop ran and quit (aboutToQuit stops the own thread)
        gQtLogger.configure(path(), 0, 0, RotatingFileSink::Option::None, /* async */ true);
        QTimer::singleShot(0, &app, &QCoreApplication::quit);
        app.exec();
#endif
    } else if (tree == "ONEZ") { // one-line configuration: small size limit, unlimited file count, rotated files compressed
        gQtLogger.configure(path(), 1000, 0, RotatingFileSink::Option::Compression, false);
    } else if (tree == "FLUZ") { // the same in the fluent form
        auto p0 = path();
        gQtLogger.format("%{message}").sendToFile(p0, 1000, 0, RotatingFileSink::Compression);
        gQtLogger.installMessageHandler();
    } else if (tree == "ONER") {
        gQtLogger.configure(path(), big, 0, RotatingFileSink::Option::None, false);
    } else if (tree == "FLU") {
        auto p0 = path(), p1 = path();
        gQtLogger.format("%{message}").sendToFile(p0).sendToFile(p1, big, 0);
        gQtLogger.installMessageHandler();
    } else if (tree == "FLU1") { // one plain file: the scenario replaces it at run time (clearSinks() + sendToFile())
        auto p0 = path();
        gQtLogger.format("%{message}").sendToFile(p0);
        gQtLogger.installMessageHandler();
    } else if (tree == "FLUP") { // main file + a nested pipeline() behind a level filter that gets its file sink at run time
        auto p0 = path();
        gQtLogger.format("%{message}").sendToFile(p0).pipeline().filterLevel(QtWarningMsg);
        gQtLogger.installMessageHandler();
    } else if (tree == "FLUN") {
        auto p0 = path(), p1 = path();
        gQtLogger.format("%{message}").sendToFile(p0).pipeline().sendToFile(p1).end();
        gQtLogger.installMessageHandler();
    } else if (tree == "FLUT") { // debug-only trace file in a scoped sub-pipeline next to the main file
        auto p0 = path(), p1 = path();
        gQtLogger.format("%{message}")
                .pipeline().filter([](const LogMessage &m) { return m.type() == QtDebugMsg; }).sendToFile(p0).end()
                .sendToFile(p1);
        gQtLogger.installMessageHandler();
    } else if (tree == "FLUC") { // per-category/level file (rotating) behind a category filter, next to the main file
        auto p0 = path(), p1 = path();
        gQtLogger.format("%{message}")
                .pipeline().filterCategory(QStringLiteral("*=false\n*.debug=true")).sendToFile(p0, big, 0).end()
                .sendToFile(p1);
        gQtLogger.installMessageHandler();
    } else if (tree == "FLUB") { // a file sink on a full device before a healthy one
        nsink++;
        auto p1 = path();
        gQtLogger.format("%{message}").sendToFile(QStringLiteral("/dev/full")).sendToFile(p1);
        gQtLogger.installMessageHandler();
    } else {
        if (!build_into(&gQtLogger, tree))
            return 2;
        gQtLogger.installMessageHandler();
    }

    std::vector<Msg> msgs;
    int nmsg = 0;
    if (ms != "-") {
        size_t i = 0;
        while (i < ms.size()) {
            size_t j = ms.find(',', i);
            std::string it = ms.substr(i, j == std::string::npos ? std::string::npos : j - i);
            char t = it[0];
            if (t == '+' || t == '^' || t == '~' || t == '!' || t == '&') {   // a reconfiguration: kept as text
                msgs.push_back({ t, 0, -1, it });
                if (j == std::string::npos) break;
                i = j + 1;
                continue;
            }
            size_t star = it.find('*');
            int size = atoi(it.substr(1, star == std::string::npos ? std::string::npos : star - 1).c_str());
            int cnt = star == std::string::npos ? 1 : atoi(it.substr(star + 1).c_str());
            for (int k = 0; k < cnt; k++) { msgs.push_back({ t, size, t == 'f' ? -1 : nmsg, std::string() }); if (t != 'f') nmsg++; }
            if (j == std::string::npos) break;
            i = j + 1;
        }
    }
    const int k = (int)msgs.size();      // events (messages and explicit flushes); the fatal message gets id nmsg
    auto finish = [&]() {
        if (end == "kill") {
            raise(SIGKILL);
        } else {
            const std::string s = text_of(nmsg, fatalsize);
            qFatal("%s", s.c_str());
        }
    };
    if (thr == "main") {
        for (int i = 0; i < k; i++) emit_msg(i, msgs[i]);
        finish();
    } else if (thr == "busy") {
        // the last preceding message is logged by a helper thread (an S handler keeps it inside the logger,
        // holding the logger's mutex, for 2 s); 300 ms later the main thread raises the fatal message
        for (int i = 0; i + 1 < k; i++) emit_msg(i, msgs[i]);
        std::thread helper([&]() { if (k > 0) emit_msg(k - 1, msgs[k - 1]); });
        QThread::msleep(300);
        finish();
        helper.join();
    } else {
        const int half = k / 2;
        for (int i = 0; i < half; i++) emit_msg(i, msgs[i]);
        auto rest = [&]() { for (int i = half; i < k; i++) emit_msg(i, msgs[i]); finish(); };
        if (thr == "qt") {
            QThread *t = QThread::create(rest);
            t->start();
            t->wait();
        } else {
            std::thread t(rest);
            t.join();
        }
    }
    return 3; // not reached
}
