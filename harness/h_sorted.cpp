// C17 harness: executes call histories on a real SortedPipeline and prints the handler list
// (class letter + index of the inserting call) after every call.  One history per input line.
#ifdef VERIF_HEADER_ONLY
#include "qtlogger.h"
#else
#include "qtlogger/qtlogger.h"
#endif
#include <iostream>
#include <sstream>
using namespace QtLogger;
struct A : AttrHandler { QVariantHash attributes(const LogMessage &) override { return {}; } };
struct F : Filter { bool filter(const LogMessage &) override { return true; } };
struct Fm : Formatter { QString format(const LogMessage &m) override { return m.message(); } };
struct S : Sink { void send(const LogMessage &) override {} };
static char cls(const HandlerPtr &h)
{
    switch (h->type()) {
    case Handler::HandlerType::AttrHandler: return 'A';
    case Handler::HandlerType::Filter: return 'F';
    case Handler::HandlerType::Formatter: return 'M';
    case Handler::HandlerType::Sink: return 'S';
    case Handler::HandlerType::Pipeline: return 'P';
    default: return 'H';
    }
}
int main()
{
    std::string line;
    while (std::getline(std::cin, line)) {
        SortedPipeline p;
        QMap<const Handler *, int> ids;
        QList<HandlerPtr> keep; // keep every handler alive so addresses are never reused
        int n = 0;
        QSharedPointer<Fm> lastFormatter; // for 'R': setFormatter with the same object again
        QSharedPointer<A> lastA; QSharedPointer<F> lastF; QSharedPointer<S> lastS; PipelinePtr lastP; // for B G T Q
        std::ostringstream o;
        for (char c : line) {
            switch (c) {
            case 'A': { auto h = QSharedPointer<A>::create(); ids[h.data()] = n; keep << h; lastA = h; p.appendAttrHandler(h); break; }
            case 'B': { if (!lastA) { lastA = QSharedPointer<A>::create(); ids[lastA.data()] = n; keep << lastA; } p.appendAttrHandler(lastA); break; }
            case 'F': { auto h = QSharedPointer<F>::create(); ids[h.data()] = n; keep << h; lastF = h; p.appendFilter(h); break; }
            case 'G': { if (!lastF) { lastF = QSharedPointer<F>::create(); ids[lastF.data()] = n; keep << lastF; } p.appendFilter(lastF); break; }
            case 'M': { auto h = QSharedPointer<Fm>::create(); ids[h.data()] = n; keep << h; lastFormatter = h; p.setFormatter(h); break; }
            case 'R': {
                if (!lastFormatter) { lastFormatter = QSharedPointer<Fm>::create(); ids[lastFormatter.data()] = n; keep << lastFormatter; }
                p.setFormatter(lastFormatter);
                break;
            }
            case 'S': { auto h = QSharedPointer<S>::create(); ids[h.data()] = n; keep << h; lastS = h; p.appendSink(h); break; }
            case 'T': { if (!lastS) { lastS = QSharedPointer<S>::create(); ids[lastS.data()] = n; keep << lastS; } p.appendSink(lastS); break; }
            case 'P': { auto h = PipelinePtr::create(); ids[h.data()] = n; keep << h; lastP = h; p.appendPipeline(h); break; }
            case 'Q': { if (!lastP) { lastP = PipelinePtr::create(); ids[lastP.data()] = n; keep << lastP; } p.appendPipeline(lastP); break; }
            case '1': p.appendAttrHandler(AttrHandlerPtr()); break;
            case '2': p.appendFilter(FilterPtr()); break;
            case '3': p.setFormatter(FormatterPtr()); break;
            case '4': p.appendSink(SinkPtr()); break;
            case '5': p.appendPipeline(PipelinePtr()); break;
            case 'a': p.clearAttrHandlers(); break;
            case 'f': p.clearFilters(); break;
            case 'm': p.clearFormatters(); break;
            case 's': p.clearSinks(); break;
            case 'p': p.clearPipelines(); break;
            case 'x': p.clear(); break;
            }
            n++;
            for (auto &h : static_cast<const SortedPipeline &>(p).handlers())
                o << cls(h) << ids[h.data()] << ",";
            o << ";";
        }
        std::cout << o.str() << "\n";
    }
}
