// C13 harness: formats generated messages with the real JsonFormatter.
// input line:  <flag> <type> <msg> <fmt> <cat> <file> <fn> <line> <na> [<key> <value>]...
//   strings are hex UTF-16 units (4 digits each); "-" = empty string; "0" = null pointer / not formatted
//   value: n | t | f | I<int> | u<uint> | i<qlonglong> | U<qulonglong> | d<double holding an integer> | F<float holding an integer> | l<long> L<ulong> h<short> H<ushort> (probe) | s<hex16> | a<count> v... | o<count> (k v)...
//   optional multi-step suffix: "|" then steps on the SAME message object
//     S <n> (k v)*n   setAttributes({...})      U <n> (k v)*n   updateAttributes({...})
//     A <k> <v>       setAttribute(k, v)        R <k>           removeAttribute(k)
//     F <flag>        format again with the formatter of that mode: one more record in the output
// ONE JsonFormatter object per mode serves the whole run (as JsonFormatter::instance() / formatToJson() do in
// an application): a record must not depend on what the same formatter object formatted before
// argv[1] = "latin1": QTextCodec::setCodecForLocale(ISO-8859-1) first (the formatter's QString result
//   must not depend on the locale codec)
// output line: <hex of time().toString(Qt::ISODateWithMs)> <threadId> <hex of format()> [<hex of later records>...]
#ifdef VERIF_HEADER_ONLY
#include "qtlogger.h"
#else
#include "qtlogger/qtlogger.h"
#endif
#include <iostream>
#include <sstream>
#include <QTextCodec>
using namespace QtLogger;
static QString unhex(const std::string &h)
{
    QString s = QStringLiteral("");
    if (h == "-" || h == "0") return s;
    for (size_t i = 0; i + 4 <= h.size(); i += 4) s.append(QChar((ushort)std::stoul(h.substr(i, 4), nullptr, 16)));
    return s;
}
static std::string hex(const QString &s)
{
    std::string o; char b[8];
    for (QChar c : s) { snprintf(b, 8, "%04x", c.unicode()); o += b; }
    return o;
}
static QVariant val(std::istringstream &is)
{
    std::string t; is >> t; char k = t[0]; std::string r = t.substr(1);
    if (k == 'n') return QVariant();
    if (k == 't') return true;
    if (k == 'f') return false;
    if (k == 'i') return QVariant::fromValue<qlonglong>(std::stoll(r));
    if (k == 'I') return QVariant(int(std::stoll(r)));
    if (k == 'd') return QVariant(double(std::stoll(r)));
    if (k == 'u') return QVariant(uint(std::stoll(r)));
    if (k == 'U') return QVariant::fromValue<qulonglong>(qulonglong(std::stoll(r)));
    if (k == 'F') return QVariant(float(std::stoll(r)));
    // further integer QVariant types (observation probe only: QJsonValue::fromVariant of Qt 5.15 has no case for them)
    if (k == 'l') return QVariant::fromValue<long>(long(std::stoll(r)));
    if (k == 'L') return QVariant::fromValue<unsigned long>((unsigned long)std::stoll(r));
    if (k == 'h') return QVariant::fromValue<short>(short(std::stoll(r)));
    if (k == 'H') return QVariant::fromValue<ushort>(ushort(std::stoll(r)));
    if (k == 's') return unhex(r.empty() ? "-" : r);
    if (k == 'a') { int n = std::stoi(r); QVariantList l; for (int i = 0; i < n; i++) l << val(is); return l; }
    if (k == 'o') { int n = std::stoi(r); QVariantMap m; for (int i = 0; i < n; i++) { std::string kk; is >> kk; auto v = val(is); m.insert(unhex(kk), v); } return m; }
    return QVariant();
}
static QVariantHash hash_of(std::istringstream &is)
{
    int n; is >> n; QVariantHash h;
    for (int i = 0; i < n; i++) { std::string k; is >> k; QVariant v = val(is); h.insert(unhex(k), v); }
    return h;
}
int main(int argc, char **argv)
{
    if (argc > 1 && std::string(argv[1]) == "latin1")
        QTextCodec::setCodecForLocale(QTextCodec::codecForName("ISO-8859-1"));
    std::string line;
    JsonFormatter indented(false), compact(true);
    {   // warm-up: both formatter objects have already been used in this process
        QMessageLogContext wctx("w.cpp", 1, "void w()", "warm");
        LogMessage wm(QtInfoMsg, wctx, QStringLiteral("warm-up"));
        indented.format(wm); compact.format(wm);
    }
    while (std::getline(std::cin, line)) {
        std::istringstream is(line);
        int flag, type, ln, na; std::string msg, fmt, cat, file, fn;
        is >> flag >> type >> msg >> fmt >> cat >> file >> fn >> ln >> na;
        QByteArray c = unhex(cat).toLatin1(), f = unhex(file).toLatin1(), fu = unhex(fn).toLatin1();
        QMessageLogContext ctx(file == "0" ? nullptr : f.constData(), ln, fn == "0" ? nullptr : fu.constData(),
                               cat == "0" ? nullptr : c.constData());
        LogMessage m((QtMsgType)type, ctx, unhex(msg));
        if (fmt != "0") m.setFormattedMessage(unhex(fmt));
        for (int i = 0; i < na; i++) { std::string k; is >> k; QVariant v = val(is); m.setAttribute(unhex(k), v); }
        JsonFormatter &jf = flag != 0 ? compact : indented;
        std::cout << hex(m.time().toString(Qt::ISODateWithMs)) << " " << m.threadId() << " " << hex(jf.format(m));
        std::string tok;
        if (is >> tok && tok == "|") {
            while (is >> tok) {
                if (tok == "S") m.setAttributes(hash_of(is));
                else if (tok == "U") m.updateAttributes(hash_of(is));
                else if (tok == "A") { std::string k; is >> k; QVariant v = val(is); m.setAttribute(unhex(k), v); }
                else if (tok == "R") { std::string k; is >> k; m.removeAttribute(unhex(k)); }
                else if (tok == "F") { int f2; is >> f2; JsonFormatter &again = f2 != 0 ? compact : indented; std::cout << " " << hex(again.format(m)); }
            }
        }
        std::cout << "\n";
    }
}
