// C13 harness: formats generated messages with the real JsonFormatter.
// input line:  <flag> <type> <msg> <fmt> <cat> <file> <fn> <line> <na> [<key> <value>]...
//   strings are hex UTF-16 units (4 digits each); "-" = empty string; "0" = null pointer / not formatted
//   value: n | t | f | I<int> | u<uint> | i<qlonglong> | U<qulonglong> | d<double holding an integer> | F<float holding an integer> | l<long> L<ulong> h<short> H<ushort> (probe) | s<hex16> | a<count> v... | o<count> (k v)...
//   optional multi-step suffix: "|" then steps on the SAME message object
//     S <n> (k v)*n   setAttributes({...})      U <n> (k v)*n   updateAttributes({...})
//     A <k> <v>       setAttribute(k, v)        R <k>           removeAttribute(k)
//     F <flag>        format again with the formatter of that mode: one more record in the output
// ONE JsonFormatter object per mode serves the whole run (as JsonFormatter::instance() / formatToJson() do in
// an application): a record must not depend on what the same formatter object formatted before
// argv "via=<seq>" (round 8): the formatter OBJECTS are obtained through the front ends, in this order, before the first
//   record: '0' = SimplePipeline().formatToJson(false), '1' = SimplePipeline().formatToJson(true), 'i' = JsonFormatter::instance()
//   (a request for the indented default formatter).  A record of mode f is then formatted by the LAST object requested for
//   mode f (by passing a copy of the message through that pipeline); modes never requested use the directly constructed objects.
// argv[1] = "latin1": QTextCodec::setCodecForLocale(ISO-8859-1) first (the formatter's QString result
//   must not depend on the locale codec)
// output line: <hex of time().toString(Qt::ISODateWithMs)> <threadId> <hex of format()> [<hex of later records>...]
#ifdef VERIF_HEADER_ONLY
#include "qtlogger.h"
#else
#include "qtlogger/qtlogger.h"
#endif
#include <iostream>
#include <sstream>
#include <QTextCodec>
using namespace QtLogger;
static QString unhex(const std::string &h)
{
    QString s = QStringLiteral("");
    if (h == "-" || h == "0") return s;
    for (size_t i = 0; i + 4 <= h.size(); i += 4) s.append(QChar((ushort)std::stoul(h.substr(i, 4), nullptr, 16)));
    return s;
}
static std::string hex(const QString &s)
{
    std::string o; char b[8];
    for (QChar c : s) { snprintf(b, 8, "%04x", c.unicode()); o += b; }
    return o;
}
static QVariant val(std::istringstream &is)
{
    std::string t; is >> t; char k = t[0]; std::string r = t.substr(1);
    if (k == 'n') return QVariant();
    if (k == 't') return true;
    if (k == 'f') return false;
    if (k == 'i') return QVariant::fromValue<qlonglong>(std::stoll(r));
    if (k == 'I') return QVariant(int(std::stoll(r)));
    if (k == 'd') return QVariant(double(std::stoll(r)));
    if (k == 'u') return QVariant(uint(std::stoll(r)));
    if (k == 'U') return QVariant::fromValue<qulonglong>(qulonglong(std::stoll(r)));
    if (k == 'F') return QVariant(float(std::stoll(r)));
    // further integer QVariant types (observation probe only: QJsonValue::fromVariant of Qt 5.15 has no case for them)
    if (k == 'l') return QVariant::fromValue<long>(long(std::stoll(r)));
    if (k == 'L') return QVariant::fromValue<unsigned long>((unsigned long)std::stoll(r));
    if (k == 'h') return QVariant::fromValue<short>(short(std::stoll(r)));
    if (k == 'H') return QVariant::fromValue<ushort>(ushort(std::stoll(r)));
    if (k == 's') return unhex(r.empty() ? "-" : r);
    if (k == 'a') { int n = std::stoi(r); QVariantList l; for (int i = 0; i < n; i++) l << val(is); return l; }
    if (k == 'o') { int n = std::stoi(r); QVariantMap m; for (int i = 0; i < n; i++) { std::string kk; is >> kk; auto v = val(is); m.insert(unhex(kk), v); } return m; }
    return QVariant();
}
static QVariantHash hash_of(std::istringstream &is)
{
    int n; is >> n; QVariantHash h;
    for (int i = 0; i < n; i++) { std::string k; is >> k; QVariant v = val(is); h.insert(unhex(k), v); }
    return h;
}
#include <memory>
#include <vector>
struct Front {
    std::unique_ptr<SimplePipeline> pipe; JsonFormatterPtr inst; QString *slot;
    QString format(const LogMessage &m)
    {
        if (inst) return inst->format(m);
        LogMessage copy(m);
        *slot = QString();
        pipe->process(copy);
        return *slot;
    }
};
int main(int argc, char **argv)
{
    std::string via;
    for (int a = 1; a < argc; a++) {
        if (std::string(argv[a]) == "latin1") QTextCodec::setCodecForLocale(QTextCodec::codecForName("ISO-8859-1"));
        else if (std::string(argv[a]).rfind("via=", 0) == 0) via = std::string(argv[a]).substr(4);
    }
    std::string line;
    static QString captured;
    std::vector<Front> fronts; int front_of[2] = { -1, -1 };
    for (char ch : via) {
        Front f; f.slot = &captured;
        if (ch == 'i') f.inst = JsonFormatter::instance();
        else {
            f.pipe.reset(new SimplePipeline());
            f.pipe->formatToJson(ch == '1');
            f.pipe->handler([](LogMessage &lm) { captured = lm.formattedMessage(); return true; });
        }
        fronts.push_back(std::move(f));
        front_of[ch == '1' ? 1 : 0] = int(fronts.size()) - 1;
    }
    JsonFormatter indented(false), compact(true);
    {   // warm-up: both formatter objects have already been used in this process
        QMessageLogContext wctx("w.cpp", 1, "void w()", "warm");
        LogMessage wm(QtInfoMsg, wctx, QStringLiteral("warm-up"));
        indented.format(wm); compact.format(wm);
    }
    while (std::getline(std::cin, line)) {
        std::istringstream is(line);
        int flag, type, ln, na; std::string msg, fmt, cat, file, fn;
        is >> flag >> type >> msg >> fmt >> cat >> file >> fn >> ln >> na;
        QByteArray c = unhex(cat).toLatin1(), f = unhex(file).toLatin1(), fu = unhex(fn).toLatin1();
        QMessageLogContext ctx(file == "0" ? nullptr : f.constData(), ln, fn == "0" ? nullptr : fu.constData(),
                               cat == "0" ? nullptr : c.constData());
        LogMessage m((QtMsgType)type, ctx, unhex(msg));
        if (fmt != "0") m.setFormattedMessage(unhex(fmt));
        for (int i = 0; i < na; i++) { std::string k; is >> k; QVariant v = val(is); m.setAttribute(unhex(k), v); }
        auto fmt_mode = [&](int f, const LogMessage &lm) -> QString {
            int k = front_of[f != 0 ? 1 : 0];
            if (k >= 0) return fronts[size_t(k)].format(lm);
            return (f != 0 ? compact : indented).format(lm);
        };
        std::cout << hex(m.time().toString(Qt::ISODateWithMs)) << " " << m.threadId() << " " << hex(fmt_mode(flag, m));
        std::string tok;
        if (is >> tok && tok == "|") {
            while (is >> tok) {
                if (tok == "S") m.setAttributes(hash_of(is));
                else if (tok == "U") m.updateAttributes(hash_of(is));
                else if (tok == "A") { std::string k; is >> k; QVariant v = val(is); m.setAttribute(unhex(k), v); }
                else if (tok == "R") { std::string k; is >> k; m.removeAttribute(unhex(k)); }
                else if (tok == "F") { int f2; is >> f2; std::cout << " " << hex(fmt_mode(f2, m)); }
            }
        }
        std::cout << "\n";
    }
}
