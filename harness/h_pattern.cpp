// C12 harness: formats (pattern, message, attributes) cases with the REAL PatternFormatter.
// One case per input line, fields separated by one space, strings as hex UTF-16 code units
// (4 hex digits per unit, "-" = empty (non-null) string, "~" = null pointer for category/file/function
// and a null QString for the message):
//   pat type msg cat file fn line nattr (key tval)* ntf (timefmt)* [prefmt twice [seq [gap delay again [locale]]]]
//   prefmt = ~ (none) or the text given to setFormattedMessage() BEFORE format() is called (another formatter ran first);
//   twice = 1: the formatter is first run through Formatter::process() on the message, then format() is observed.
//   %{message} is the raw message text in every case.
//   seq (optional) = position of this message in a SEQUENCE of messages formatted by ONE PatternFormatter object:
//   0 = a new object is constructed from pat and kept; k > 0 = the object kept from the previous lines is used
//   (its pattern must be pat; otherwise the line is answered with "!protocol").  Without the field every case
//   gets its own formatter object, as before.
//   (seq = -1: not part of a sequence, own formatter object; only there so that the timing fields can follow.)
//   TIMING fields (all in milliseconds, 0 = nothing):
//   gap   = sleep BEFORE the LogMessage is constructed (its time stamps are taken by its constructor): consecutive
//           messages of a sequence get time stamps a few milliseconds apart inside one clock second;
//           gap = -1: wait until the wall clock has entered the NEXT second, then construct (second boundary crossed).
//   delay = sleep between the construction of the message and the observed format() call (the message waits in a
//           queue): every time text must still be that of the message's own time stamps, not of "now".
//   again = after the observed call: sleep, then format the SAME LogMessage again with the same formatter object;
//           the text may not change (output group, see below).  With the timing fields present the second call is
//           always made (again = 0: immediately).
//   locale (optional, hex; ~ or absent = none) = name of a QLocale (de_DE, fr_FR, en_IN, ar_EG ...) that is made the application-wide
//           DEFAULT locale (QLocale::setDefault) before the formatter objects are constructed and stays it during every format()
//           call on the object under test (first call, second call, fresh object); the start-up default is restored before the
//           environment groups are computed (they are rendered under QLocale::c()).  The documented rules know no locale: every
//           number (%{time process}, %{time boot}, %{line}, %{threadid}, int attributes) is plain C text under every default locale.
//   via (optional, after locale - which is then written ~ when there is none; round 8) = how the formatter OBJECT under test is obtained:
//           d or absent = constructed directly, PatternFormatter(pat);
//           f = through the fluent front end: SimplePipeline().format(pat) with a trailing .handler(...) that captures
//               lmsg.formattedMessage(); a text is then observed by passing a COPY of the message through that pipeline
//               (twice = 1: the pipeline first processes the message itself, as Formatter::process() does in the direct form).
//           In a sequence the field of the seq = 0 line decides for the whole sequence (the kept object IS that pipeline).
//           The "fresh object" comparison is always made with a directly constructed PatternFormatter(pat): with via = f the
//           group therefore also says whether front end and direct construction agree on the very same LogMessage.
//           The front end gives the names "default", "qt", "pretty" a meaning of their own (DefaultMessagePattern / other
//           formatter classes); the caller decides what to expect for them.
//   tval = s<hex> (QString; s~ = null QString, s- = empty) | i<decimal> (int / qlonglong) | b0 | b1 (bool)
//
// default mode, output line:
//   <formatted> <N|V: result.isNull() or not> <threadId decimal> <qthreadptr decimal> <%{func} rendering> (<rendering of each timefmt>)*
// Before every case a fixed "poison" pattern ending in a missing optional attribute (?0,3) is formatted on
// the same thread, so that state leaking from one format() call into the next shows up in every case.
// With a seq field one more group follows at the end of the line: "=" when a FRESH PatternFormatter(pat) gives, for
// the very same LogMessage object, the same text and the same null-ness as the kept object did, else "#<hex>" or
// "#<hex>/null" = what the fresh object gave (format is a function of pattern and message: they may never differ).
// With the timing fields one more group follows: "=" when the second format() call on the same object and the same
// LogMessage (after `again` ms) returned the same text and null-ness as the first, else "#<hex>[/null]" = what it returned.
// (The fresh-object comparison is made after that sleep as well.)
// The last three groups are the environment the model takes as given (thread id, function-name
// clean-up = C14, QDateTime::toString / process- and boot-relative seconds).
// The time environment is computed WITHOUT the object under test and from the message's own time stamps:
//   custom formats / ISO: lmsg.time().toString(...) called here;
//   boot:    whole milliseconds of lmsg.steadyTime().time_since_epoch() printed as S.mmm with integer arithmetic;
//   process: the library's process-start instant is a file-static.  It is bracketed instead: every rendering p of
//            %{time process} (by a separate PatternFormatter, made at the END of the case, i.e. after delay+again)
//            for a message with steady time t confines it to (t-(p+1)ms, t-p ms]; three calibration messages are
//            rendered immediately after construction at start-up.  A rendering that is inside the bracket is
//            passed on (and narrows it); one that is not - the text does not belong to lmsg.steadyTime() - is
//            replaced by the value computed from the middle of the bracket, so that the model predicts the text of
//            the message's own time stamp and the oracle rejects the formatter's.
//
// mode "threads K ROUNDS MAXMS": all cases are read first; case i belongs to thread i mod K.  Every thread has
// its OWN PatternFormatter and LogMessage objects (nothing shared at API level, no Logger mutex).  The
// single-threaded result of every case is taken first (printed, so that the caller can compare it with the
// model); then the K threads start behind a barrier and format their cases round-robin ROUNDS times (or
// until MAXMS elapsed) comparing every result with the single-threaded one.  Output line per case:
//   <single-threaded formatted> <calls made> <calls whose result differed> <first differing result or ->
#ifdef VERIF_HEADER_ONLY
#include "qtlogger.h"
#else
#include "qtlogger/qtlogger.h"
#endif
#include <QLocale>
#include <algorithm>
#include <atomic>
#include <chrono>
#include <iostream>
#include <memory>
#include <sstream>
#include <stdexcept>
#include <thread>
#include <vector>
using namespace QtLogger;
static QString unhex(const std::string &h)
{
    QString s;
    if (h == "~") return s;
    if (h == "-") return QStringLiteral("");
    s.reserve(int(h.size() / 4));
    for (size_t i = 0; i + 4 <= h.size(); i += 4)
        s.append(QChar(ushort(std::stoul(h.substr(i, 4), nullptr, 16))));
    return s;
}
static std::string hex(const QString &s)
{
    if (s.isEmpty()) return "-";
    std::string o; o.reserve(size_t(s.size()) * 4);
    char b[8];
    for (QChar c : s) { snprintf(b, sizeof b, "%04x", unsigned(c.unicode())); o += b; }
    return o;
}
struct Case
{
    QString pat;
    QByteArray c, f, fu;        // buffers the message's context points into
    std::unique_ptr<LogMessage> m;
    std::vector<QString> tfs;
    bool twice = false;         // run the formatter through Formatter::process() once before the observed format() call
    long seq = -1;              // >= 0: position in a sequence of messages formatted by one kept formatter object
    bool timing = false;        // the timing fields are present (two more output groups)
    long gap = 0, delay = 0, again = 0;
    QString locale;             // non-empty: the default QLocale while the object under test works
    bool fluent = false;        // the object under test is obtained through SimplePipeline().format(pat)
    // threads mode
    std::unique_ptr<PatternFormatter> pf;
    QString expected, firstBad;
    long calls = 0, bad = 0;
};
static void sleepMs(long ms)
{
    if (ms > 0) std::this_thread::sleep_for(std::chrono::milliseconds(ms));
}
static void parse(const std::string &line, Case &k, bool honourGap = false)
{
    std::vector<std::string> f;
    { std::istringstream is(line); std::string t; while (is >> t) f.push_back(t); }
    size_t i = 0;
    auto nxt = [&]() -> std::string { return i < f.size() ? f[i++] : std::string(); };
    auto num = [&]() -> long { std::string t = nxt(); return t.empty() ? 0 : std::stol(t); };
    const std::string pat = nxt();
    const int type = int(num());
    const std::string msg = nxt(), cat = nxt(), file = nxt(), fn = nxt();
    const int ln = int(num());
    const int nattr = int(num());
    std::vector<std::pair<std::string, std::string>> attrs;
    for (int a = 0; a < nattr; a++) { std::string key = nxt(), v = nxt(); attrs.emplace_back(key, v); }
    const int ntf = int(num());
    for (int a = 0; a < ntf; a++) k.tfs.push_back(unhex(nxt()));
    // optional: the message already carries formatter output / is formatted twice in a row / sequence / timing
    std::string pre = "~", twice = "0";
    if (i + 1 < f.size()) {
        pre = nxt(); twice = nxt();
        if (i < f.size()) k.seq = num();
        if (i + 2 < f.size()) { k.timing = true; k.gap = num(); k.delay = num(); k.again = num(); }
        if (i < f.size()) k.locale = unhex(nxt());
        if (i < f.size()) k.fluent = (nxt() == "f");
    }
    if (honourGap) {
        if (k.gap > 0) sleepMs(k.gap);
        else if (k.gap == -1) {
            const qint64 s0 = QDateTime::currentMSecsSinceEpoch() / 1000;
            while (QDateTime::currentMSecsSinceEpoch() / 1000 == s0) sleepMs(1);
        }
    }
    k.pat = unhex(pat);
    k.c = unhex(cat).toLatin1(); k.f = unhex(file).toLatin1(); k.fu = unhex(fn).toLatin1();
    QMessageLogContext ctx(file == "~" ? nullptr : k.f.constData(), ln, fn == "~" ? nullptr : k.fu.constData(),
                           cat == "~" ? nullptr : k.c.constData());
    k.m.reset(new LogMessage(QtMsgType(type), ctx, unhex(msg)));
    for (const auto &kv : attrs) {
        const std::string &key = kv.first, &v = kv.second;
        if (v.empty()) continue;
        if (v[0] == 's') k.m->setAttribute(unhex(key), unhex(v.substr(1)));
        else if (v[0] == 'i') {
            qlonglong x = std::stoll(v.substr(1));
            if (x >= INT_MIN && x <= INT_MAX) k.m->setAttribute(unhex(key), int(x)); else k.m->setAttribute(unhex(key), x);
        } else k.m->setAttribute(unhex(key), v == "b1");
    }
    if (pre != "~") k.m->setFormattedMessage(unhex(pre));
    k.twice = (twice == "1");
}
// ---- the time environment, computed from the message's own time stamps (see the header comment) ----
typedef long long ns_t;
static ns_t steadyNs(const LogMessage &m)
{
    return std::chrono::duration_cast<std::chrono::nanoseconds>(m.steadyTime().time_since_epoch()).count();
}
static QString secsText(long long ms)      // S.mmm, integer arithmetic only
{
    const bool neg = ms < 0;
    if (neg) ms = -ms;
    return (neg ? QStringLiteral("-") : QString()) + QString::number(ms / 1000) + QLatin1Char('.')
            + QString::number(ms % 1000).rightJustified(3, QLatin1Char('0'));
}
static bool parseSecs(const QString &s, long long &ms)     // the inverse; false if s is not of the form [-]S.mmm
{
    const int dot = s.indexOf(QLatin1Char('.'));
    if (dot <= 0 || s.size() - dot - 1 != 3) return false;
    bool ok1 = false, ok2 = false;
    const long long a = s.left(dot).toLongLong(&ok1);
    const long long b = s.mid(dot + 1).toLongLong(&ok2);
    if (!ok1 || !ok2 || b < 0) return false;
    ms = (s.startsWith(QLatin1Char('-')) ? -1 : 1) * ((a < 0 ? -a : a) * 1000 + b);
    return secsText(ms) == s;
}
static QString bootEnv(const LogMessage &m)
{
    return secsText(steadyNs(m) / 1000000);      // whole milliseconds (truncated, as duration_cast does), printed as S.mmm
}
static ns_t g_startLo = 0, g_startHi = 0;     // bracket of the library's process-start instant (steady clock, ns)
static long g_processInconsistent = 0;
static QString processEnv(const LogMessage &m, const QString &rendered)
{
    const ns_t t = steadyNs(m);
    long long p = 0;
    if (parseSecs(rendered, p)) {
        const ns_t lo = t - (p + 1) * 1000000LL + 1, hi = t - p * 1000000LL;     // p = floor((t - start) / 1 ms)
        const ns_t nlo = std::max(lo, g_startLo), nhi = std::min(hi, g_startHi);
        if (nlo <= nhi) { g_startLo = nlo; g_startHi = nhi; return rendered; }
    }
    g_processInconsistent++;
    const ns_t mid = g_startLo + (g_startHi - g_startLo) / 2;
    const ns_t d = t - mid;
    return secsText(d >= 0 ? d / 1000000 : -((-d + 999999) / 1000000));
}
static void calibrateProcessStart(ns_t mainStart)
{
    g_startLo = 0; g_startHi = mainStart;      // the static initialiser of the library ran before main()
    for (int i = 0; i < 3; i++) {
        LogMessage cm(QtDebugMsg, QMessageLogContext(), QStringLiteral("calibration"));
        (void)processEnv(cm, PatternFormatter(QStringLiteral("%{time process}")).format(cm));
    }
}
// the application-wide default locale while the object under test works; the previous default comes back in the destructor
struct DefaultLocale
{
    QLocale saved;          // QLocale() = the current default
    bool active = false;
    explicit DefaultLocale(const QString &name)
    {
        if (name.isEmpty()) return;
        QLocale::setDefault(QLocale(name));
        active = true;
    }
    void restore() { if (active) { QLocale::setDefault(saved); active = false; } }
    ~DefaultLocale() { restore(); }
};
// the object under test: a directly constructed PatternFormatter, or the pipeline SimplePipeline().format(pat).handler(capture)
struct Subject
{
    std::unique_ptr<PatternFormatter> direct;
    std::unique_ptr<SimplePipeline> pipe;
    QString captured;
    bool reached = false;
    Subject(const QString &pat, bool fluent)
    {
        if (!fluent) { direct.reset(new PatternFormatter(pat)); return; }
        pipe.reset(new SimplePipeline());
        pipe->format(pat).handler([this](LogMessage &lm) { captured = lm.formattedMessage(); reached = true; return true; });
    }
    Subject(const Subject &) = delete;
    Subject &operator=(const Subject &) = delete;
    QString format(const LogMessage &m)
    {
        if (direct) return direct->format(m);
        LogMessage copy(m);
        captured = QString(); reached = false;
        pipe->process(copy);
        if (!reached) throw std::runtime_error("fluent: the handler behind format(pattern) was not reached");
        return captured;
    }
    void process(LogMessage &m)
    {
        if (direct) direct->process(m); else pipe->process(m);
    }
};
static int threadsMode(int K, long rounds, long maxms)
{
    std::vector<std::unique_ptr<Case>> cs;
    std::string line;
    while (std::getline(std::cin, line)) {
        cs.emplace_back(new Case);
        parse(line, *cs.back());
        cs.back()->pf.reset(new PatternFormatter(cs.back()->pat));
        cs.back()->expected = cs.back()->pf->format(*cs.back()->m);
    }
    std::atomic<int> ready{0};
    std::atomic<bool> go{false};
    std::vector<std::thread> ts;
    for (int t = 0; t < K; t++) {
        ts.emplace_back([&, t]() {
            std::vector<Case *> mine;
            for (size_t i = size_t(t); i < cs.size(); i += size_t(K)) mine.push_back(cs[i].get());
            ready++;
            while (!go.load(std::memory_order_acquire)) { }
            auto t0 = std::chrono::steady_clock::now();
            for (long r = 0; r < rounds && !mine.empty(); r++) {
                for (Case *k : mine) {
                    QString got = k->pf->format(*k->m);
                    k->calls++;
                    if (got != k->expected || got.isNull() != k->expected.isNull()) {
                        if (k->bad++ == 0) k->firstBad = got;
                    }
                }
                if ((r & 63) == 0 && std::chrono::steady_clock::now() - t0 > std::chrono::milliseconds(maxms)) break;
            }
        });
    }
    while (ready.load() < K) { }
    go.store(true, std::memory_order_release);
    for (auto &t : ts) t.join();
    for (auto &k : cs)
        std::cout << hex(k->expected) << ' ' << k->calls << ' ' << k->bad << ' ' << hex(k->firstBad) << "\n";
    return 0;
}
int main(int argc, char **argv)
{
    const ns_t mainStart = std::chrono::duration_cast<std::chrono::nanoseconds>(std::chrono::steady_clock::now().time_since_epoch()).count();
    std::ios::sync_with_stdio(false);
    if (argc >= 5 && std::string(argv[1]) == "threads")
        return threadsMode(std::stoi(argv[2]), std::stol(argv[3]), std::stol(argv[4]));
    std::string line;
    std::unique_ptr<Subject> kept;              // the formatter object of the sequence in progress
    QString keptPat;
    calibrateProcessStart(mainStart);
    while (std::getline(std::cin, line)) {
        Case k;
        parse(line, k, true);
        LogMessage &m = *k.m;
        std::ostringstream o;
        try {
            // history independence: a previous format() call on this thread that ends with a missing
            // optional attribute asking for "3 after" must not influence the case under test
            {
                LogMessage pm(QtDebugMsg, QMessageLogContext(), QStringLiteral("poison"));
                (void)PatternFormatter(QStringLiteral("p%{verif_poison_attr?0,3}")).format(pm);
            }
            DefaultLocale dl(k.locale);
            std::unique_ptr<Subject> own;
            if (k.seq < 0) own.reset(new Subject(k.pat, k.fluent));
            else if (k.seq == 0) { kept.reset(new Subject(k.pat, k.fluent)); keptPat = k.pat; }
            else if (!kept || keptPat != k.pat) throw std::runtime_error("protocol: no kept formatter object with this pattern");
            Subject &pf = own ? *own : *kept;
            sleepMs(k.delay);             // the message waits (in a queue, say) before it is formatted
            if (k.twice) pf.process(m);   // = m.setFormattedMessage(pf.format(m)): the message now carries formatter output
            const QString res = pf.format(m);
            QString res2, fres;
            if (k.timing) {
                sleepMs(k.again);
                res2 = pf.format(m);      // the same object, the same LogMessage, later
            }
            if (k.timing || k.seq >= 0) fres = PatternFormatter(k.pat).format(m);
            dl.restore();                 // the environment below is computed under the C locale
            DefaultLocale envc(QStringLiteral("C"));
            o << hex(res) << ' ' << (res.isNull() ? 'N' : 'V') << ' ' << m.threadId() << ' ' << qulonglong(m.qthreadptr()) << ' '
              << hex(PatternFormatter(QStringLiteral("%{func}")).format(m));
            for (const QString &t : k.tfs) {
                QString r;
                if (t == QLatin1String("process"))
                    r = processEnv(m, PatternFormatter(QStringLiteral("%{time process}")).format(m));
                else if (t == QLatin1String("boot"))
                    r = bootEnv(m);
                else if (t.isEmpty())
                    r = m.time().toString(Qt::ISODate);
                else
                    r = m.time().toString(t);
                o << ' ' << hex(r);
            }
            if (k.timing || k.seq >= 0) {
                if (fres == res && fres.isNull() == res.isNull()) o << " =";
                else o << " #" << hex(fres) << (fres.isNull() ? "/null" : "");
            }
            if (k.timing) {
                if (res2 == res && res2.isNull() == res.isNull()) o << " =";
                else o << " #" << hex(res2) << (res2.isNull() ? "/null" : "");
            }
        } catch (const std::exception &e) {
            o.str(""); o << "!exception " << e.what();
        }
        std::cout << o.str() << "\n";
    }
    return 0;
}
