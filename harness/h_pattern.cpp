// C12 harness: formats (pattern, message, attributes) cases with the REAL PatternFormatter.
// One case per input line, fields separated by one space, strings as hex UTF-16 code units
// (4 hex digits per unit, "-" = empty (non-null) string, "~" = null pointer for category/file/function
// and a null QString for the message):
//   pat type msg cat file fn line nattr (key tval)* ntf (timefmt)* [prefmt twice [seq]]
//   prefmt = ~ (none) or the text given to setFormattedMessage() BEFORE format() is called (another formatter ran first);
//   twice = 1: the formatter is first run through Formatter::process() on the message, then format() is observed.
//   %{message} is the raw message text in every case.
//   seq (optional) = position of this message in a SEQUENCE of messages formatted by ONE PatternFormatter object:
//   0 = a new object is constructed from pat and kept; k > 0 = the object kept from the previous lines is used
//   (its pattern must be pat; otherwise the line is answered with "!protocol").  Without the field every case
//   gets its own formatter object, as before.
//   tval = s<hex> (QString; s~ = null QString, s- = empty) | i<decimal> (int / qlonglong) | b0 | b1 (bool)
//
// default mode, output line:
//   <formatted> <N|V: result.isNull() or not> <threadId decimal> <qthreadptr decimal> <%{func} rendering> (<rendering of each timefmt>)*
// Before every case a fixed "poison" pattern ending in a missing optional attribute (?0,3) is formatted on
// the same thread, so that state leaking from one format() call into the next shows up in every case.
// With a seq field one more group follows at the end of the line: "=" when a FRESH PatternFormatter(pat) gives, for
// the very same LogMessage object, the same text and the same null-ness as the kept object did, else "#<hex>" or
// "#<hex>/null" = what the fresh object gave (format is a function of pattern and message: they may never differ).
// The last three groups are the environment the model takes as given (thread id, function-name
// clean-up = C14, QDateTime::toString / process- and boot-relative seconds).
//
// mode "threads K ROUNDS MAXMS": all cases are read first; case i belongs to thread i mod K.  Every thread has
// its OWN PatternFormatter and LogMessage objects (nothing shared at API level, no Logger mutex).  The
// single-threaded result of every case is taken first (printed, so that the caller can compare it with the
// model); then the K threads start behind a barrier and format their cases round-robin ROUNDS times (or
// until MAXMS elapsed) comparing every result with the single-threaded one.  Output line per case:
//   <single-threaded formatted> <calls made> <calls whose result differed> <first differing result or ->
#ifdef VERIF_HEADER_ONLY
#include "qtlogger.h"
#else
#include "qtlogger/qtlogger.h"
#endif
#include <atomic>
#include <chrono>
#include <iostream>
#include <memory>
#include <sstream>
#include <stdexcept>
#include <thread>
#include <vector>
using namespace QtLogger;
static QString unhex(const std::string &h)
{
    QString s;
    if (h == "~") return s;
    if (h == "-") return QStringLiteral("");
    s.reserve(int(h.size() / 4));
    for (size_t i = 0; i + 4 <= h.size(); i += 4)
        s.append(QChar(ushort(std::stoul(h.substr(i, 4), nullptr, 16))));
    return s;
}
static std::string hex(const QString &s)
{
    if (s.isEmpty()) return "-";
    std::string o; o.reserve(size_t(s.size()) * 4);
    char b[8];
    for (QChar c : s) { snprintf(b, sizeof b, "%04x", unsigned(c.unicode())); o += b; }
    return o;
}
struct Case
{
    QString pat;
    QByteArray c, f, fu;        // buffers the message's context points into
    std::unique_ptr<LogMessage> m;
    std::vector<QString> tfs;
    bool twice = false;         // run the formatter through Formatter::process() once before the observed format() call
    long seq = -1;              // >= 0: position in a sequence of messages formatted by one kept formatter object
    // threads mode
    std::unique_ptr<PatternFormatter> pf;
    QString expected, firstBad;
    long calls = 0, bad = 0;
};
static void parse(const std::string &line, Case &k)
{
    std::istringstream is(line);
    std::string pat, msg, cat, file, fn;
    int type = 0, ln = 0, nattr = 0, ntf = 0;
    is >> pat >> type >> msg >> cat >> file >> fn >> ln >> nattr;
    k.pat = unhex(pat);
    k.c = unhex(cat).toLatin1(); k.f = unhex(file).toLatin1(); k.fu = unhex(fn).toLatin1();
    QMessageLogContext ctx(file == "~" ? nullptr : k.f.constData(), ln, fn == "~" ? nullptr : k.fu.constData(),
                           cat == "~" ? nullptr : k.c.constData());
    k.m.reset(new LogMessage(QtMsgType(type), ctx, unhex(msg)));
    for (int i = 0; i < nattr; i++) {
        std::string key, v;
        is >> key >> v;
        if (v.empty()) continue;
        if (v[0] == 's') k.m->setAttribute(unhex(key), unhex(v.substr(1)));
        else if (v[0] == 'i') {
            qlonglong x = std::stoll(v.substr(1));
            if (x >= INT_MIN && x <= INT_MAX) k.m->setAttribute(unhex(key), int(x)); else k.m->setAttribute(unhex(key), x);
        } else k.m->setAttribute(unhex(key), v == "b1");
    }
    is >> ntf;
    for (int i = 0; i < ntf; i++) { std::string t; is >> t; k.tfs.push_back(unhex(t)); }
    // optional: the message already carries formatter output / is formatted twice in a row
    std::string pre, twice;
    if (is >> pre >> twice) {
        if (pre != "~") k.m->setFormattedMessage(unhex(pre));
        k.twice = (twice == "1");
        std::string seq;
        if (is >> seq) k.seq = std::stol(seq);
    }
}
static int threadsMode(int K, long rounds, long maxms)
{
    std::vector<std::unique_ptr<Case>> cs;
    std::string line;
    while (std::getline(std::cin, line)) {
        cs.emplace_back(new Case);
        parse(line, *cs.back());
        cs.back()->pf.reset(new PatternFormatter(cs.back()->pat));
        cs.back()->expected = cs.back()->pf->format(*cs.back()->m);
    }
    std::atomic<int> ready{0};
    std::atomic<bool> go{false};
    std::vector<std::thread> ts;
    for (int t = 0; t < K; t++) {
        ts.emplace_back([&, t]() {
            std::vector<Case *> mine;
            for (size_t i = size_t(t); i < cs.size(); i += size_t(K)) mine.push_back(cs[i].get());
            ready++;
            while (!go.load(std::memory_order_acquire)) { }
            auto t0 = std::chrono::steady_clock::now();
            for (long r = 0; r < rounds && !mine.empty(); r++) {
                for (Case *k : mine) {
                    QString got = k->pf->format(*k->m);
                    k->calls++;
                    if (got != k->expected || got.isNull() != k->expected.isNull()) {
                        if (k->bad++ == 0) k->firstBad = got;
                    }
                }
                if ((r & 63) == 0 && std::chrono::steady_clock::now() - t0 > std::chrono::milliseconds(maxms)) break;
            }
        });
    }
    while (ready.load() < K) { }
    go.store(true, std::memory_order_release);
    for (auto &t : ts) t.join();
    for (auto &k : cs)
        std::cout << hex(k->expected) << ' ' << k->calls << ' ' << k->bad << ' ' << hex(k->firstBad) << "\n";
    return 0;
}
int main(int argc, char **argv)
{
    std::ios::sync_with_stdio(false);
    if (argc >= 5 && std::string(argv[1]) == "threads")
        return threadsMode(std::stoi(argv[2]), std::stol(argv[3]), std::stol(argv[4]));
    std::string line;
    std::unique_ptr<PatternFormatter> kept;     // the formatter object of the sequence in progress
    QString keptPat;
    while (std::getline(std::cin, line)) {
        Case k;
        parse(line, k);
        LogMessage &m = *k.m;
        std::ostringstream o;
        try {
            // history independence: a previous format() call on this thread that ends with a missing
            // optional attribute asking for "3 after" must not influence the case under test
            {
                LogMessage pm(QtDebugMsg, QMessageLogContext(), QStringLiteral("poison"));
                (void)PatternFormatter(QStringLiteral("p%{verif_poison_attr?0,3}")).format(pm);
            }
            std::unique_ptr<PatternFormatter> own;
            if (k.seq < 0) own.reset(new PatternFormatter(k.pat));
            else if (k.seq == 0) { kept.reset(new PatternFormatter(k.pat)); keptPat = k.pat; }
            else if (!kept || keptPat != k.pat) throw std::runtime_error("protocol: no kept formatter object with this pattern");
            PatternFormatter &pf = own ? *own : *kept;
            if (k.twice) pf.process(m);   // = m.setFormattedMessage(pf.format(m)): the message now carries formatter output
            const QString res = pf.format(m);
            o << hex(res) << ' ' << (res.isNull() ? 'N' : 'V') << ' ' << m.threadId() << ' ' << qulonglong(m.qthreadptr()) << ' '
              << hex(PatternFormatter(QStringLiteral("%{func}")).format(m));
            for (const QString &t : k.tfs) {
                QString r;
                if (t == QLatin1String("process") || t == QLatin1String("boot"))
                    r = PatternFormatter(QStringLiteral("%{time ") + t + QStringLiteral("}")).format(m);
                else if (t.isEmpty())
                    r = m.time().toString(Qt::ISODate);
                else
                    r = m.time().toString(t);
                o << ' ' << hex(r);
            }
            if (k.seq >= 0) {
                const QString fres = PatternFormatter(k.pat).format(m);
                if (fres == res && fres.isNull() == res.isNull()) o << " =";
                else o << " #" << hex(fres) << (fres.isNull() ? "/null" : "");
            }
        } catch (const std::exception &e) {
            o.str(""); o << "!exception " << e.what();
        }
        std::cout << o.str() << "\n";
    }
    return 0;
}
