// C12 harness: formats (pattern, message, attributes) cases with the REAL PatternFormatter.
// One case per input line, fields separated by one space, strings as hex UTF-16 code units
// (4 hex digits per unit, "-" = empty string, "~" = null pointer for category/file/function):
//   pat type msg cat file fn line nattr (key tval)* ntf (timefmt)*
//   tval = s<hex> (QString) | i<decimal> (int / qlonglong) | b0 | b1 (bool)
// Output line:  <formatted> <threadId decimal> <qthreadptr decimal> <%{func} rendering> (<rendering of each timefmt>)*
// Before every case a fixed "poison" pattern ending in a missing optional attribute (?0,3) is formatted on
// the same thread, so that state leaking from one format() call into the next shows up in every case.
// The last three groups are the environment the model takes as given (thread id, function-name
// cleanup = C14, QDateTime::toString / process- and boot-relative seconds).
#ifdef VERIF_HEADER_ONLY
#include "qtlogger.h"
#else
#include "qtlogger/qtlogger.h"
#endif
#include <iostream>
#include <sstream>
#include <vector>
using namespace QtLogger;
static QString unhex(const std::string &h)
{
    QString s;
    if (h == "-" || h == "~") return s;
    s.reserve(int(h.size() / 4));
    for (size_t i = 0; i + 4 <= h.size(); i += 4)
        s.append(QChar(ushort(std::stoul(h.substr(i, 4), nullptr, 16))));
    return s;
}
static std::string hex(const QString &s)
{
    if (s.isEmpty()) return "-";
    std::string o; o.reserve(size_t(s.size()) * 4);
    char b[8];
    for (QChar c : s) { snprintf(b, sizeof b, "%04x", unsigned(c.unicode())); o += b; }
    return o;
}
int main()
{
    std::ios::sync_with_stdio(false);
    std::string line;
    while (std::getline(std::cin, line)) {
        std::istringstream is(line);
        std::string pat, msg, cat, file, fn;
        int type = 0, ln = 0, nattr = 0, ntf = 0;
        is >> pat >> type >> msg >> cat >> file >> fn >> ln >> nattr;
        QByteArray c = unhex(cat).toLatin1(), f = unhex(file).toLatin1(), fu = unhex(fn).toLatin1();
        QMessageLogContext ctx(file == "~" ? nullptr : f.constData(), ln, fn == "~" ? nullptr : fu.constData(),
                               cat == "~" ? nullptr : c.constData());
        LogMessage m(QtMsgType(type), ctx, unhex(msg));
        for (int i = 0; i < nattr; i++) {
            std::string k, v;
            is >> k >> v;
            if (v.empty()) continue;
            if (v[0] == 's') m.setAttribute(unhex(k), unhex(v.substr(1)));
            else if (v[0] == 'i') {
                qlonglong x = std::stoll(v.substr(1));
                if (x >= INT_MIN && x <= INT_MAX) m.setAttribute(unhex(k), int(x)); else m.setAttribute(unhex(k), x);
            } else m.setAttribute(unhex(k), v == "b1");
        }
        is >> ntf;
        std::vector<QString> tfs;
        for (int i = 0; i < ntf; i++) { std::string t; is >> t; tfs.push_back(unhex(t)); }
        std::ostringstream o;
        try {
            // history independence: a previous format() call on this thread that ends with a missing
            // optional attribute asking for "3 after" must not influence the case under test
            {
                LogMessage pm(QtDebugMsg, QMessageLogContext(), QStringLiteral("poison"));
                (void)PatternFormatter(QStringLiteral("p%{verif_poison_attr?0,3}")).format(pm);
            }
            PatternFormatter pf(unhex(pat));
            o << hex(pf.format(m)) << ' ' << m.threadId() << ' ' << qulonglong(m.qthreadptr()) << ' '
              << hex(PatternFormatter(QStringLiteral("%{func}")).format(m));
            for (const QString &t : tfs) {
                QString r;
                if (t == QLatin1String("process") || t == QLatin1String("boot"))
                    r = PatternFormatter(QStringLiteral("%{time ") + t + QStringLiteral("}")).format(m);
                else if (t.isEmpty())
                    r = m.time().toString(Qt::ISODate);
                else
                    r = m.time().toString(t);
                o << ' ' << hex(r);
            }
        } catch (const std::exception &e) {
            o.str(""); o << "!exception " << e.what();
        }
        std::cout << o.str() << "\n";
    }
    return 0;
}
