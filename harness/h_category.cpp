// C15 harness: runs the REAL CategoryFilter.
// input line :  <rules> <cat>[,<cat>...]          (every string = hex UTF-16 code units, 4 digits
//               per unit, "-" = empty string)
// output line:  for every category five characters 1/0 = verdict of filter() for the message
//               types in QtMsgType numeric order (debug, warning, critical, fatal, info),
//               categories separated by ','.
// input line with a third field  <ci>:<ti>[,<ci>:<ti>...]  (query sequence: index into the category
//               list, index into the type order above; repetitions allowed): the queries are put to
//               the ONE filter object of the line in exactly that order and the output is one
//               character 1/0 per query (no separators) — a verdict must not depend on what the
//               object was asked before.
// One CategoryFilter is constructed per line (rules parsed once), as an application would.
// The category reaches the filter exactly as in production: as the `const char *category` of a
// QMessageLogContext (UTF-8 bytes), read back through LogMessage::category().
// argv[1] == "null": an empty category is passed as a null pointer instead of "".
// argv[1] == "qt":   instead of CategoryFilter, Qt's own QLoggingCategory decides: the rules (';'
//                    turned into newlines) go to QLoggingCategory::setFilterRules, a QLoggingCategory
//                    of that name is asked isEnabled(type); fatal cannot be disabled in Qt and is
//                    printed as '-'.  Used as a cross-check on the rule subset Qt supports.
#ifdef VERIF_HEADER_ONLY
#include "qtlogger.h"
#else
#include "qtlogger/qtlogger.h"
#endif
#include <QLoggingCategory>
#include <iostream>
#include <sstream>
#include <string>
#include <vector>
using namespace QtLogger;

static QString unhex16(const std::string &h)
{
    QString s;
    if (h == "-")
        return s;
    for (size_t i = 0; i + 3 < h.size(); i += 4)
        s.append(QChar(ushort(std::stoul(h.substr(i, 4), nullptr, 16))));
    return s;
}

int main(int argc, char **argv)
{
    const bool nullForEmpty = argc > 1 && std::string(argv[1]) == "null";
    const bool qtMode = argc > 1 && std::string(argv[1]) == "qt";
    static const QtMsgType types[5] = { QtDebugMsg, QtWarningMsg, QtCriticalMsg, QtFatalMsg, QtInfoMsg };
    std::string line;
    while (std::getline(std::cin, line)) {
        std::istringstream is(line);
        std::string r, cs, qs;
        is >> r >> cs >> qs;
        std::ostringstream o;
        if (qtMode) {
            QString rules = unhex16(r);
            rules.replace(";", "\n");
            QLoggingCategory::setFilterRules(rules);
            std::stringstream cl(cs);
            std::string c;
            bool first = true;
            while (std::getline(cl, c, ',')) {
                const QByteArray cat = unhex16(c).toUtf8();
                QLoggingCategory lc(cat.constData());
                if (!first)
                    o << ',';
                first = false;
                for (QtMsgType t : types) {
                    if (t == QtFatalMsg)
                        o << '-';
                    else
                        o << (lc.isEnabled(t) ? '1' : '0');
                }
            }
            std::cout << o.str() << "\n";
            continue;
        }
        CategoryFilter f(unhex16(r));
        std::stringstream cl(cs);
        std::string c;
        if (!qs.empty() && !qtMode) {
            std::vector<QByteArray> cats;
            while (std::getline(cl, c, ','))
                cats.push_back(unhex16(c).toUtf8());
            std::stringstream ql(qs);
            std::string q;
            while (std::getline(ql, q, ',')) {
                const size_t colon = q.find(':');
                const size_t ci = std::stoul(q.substr(0, colon));
                const size_t ti = std::stoul(q.substr(colon + 1));
                if (ci >= cats.size() || ti >= 5) {
                    o << '?';
                    continue;
                }
                const QByteArray &cat = cats[ci];
                const char *cp = (cat.isEmpty() && nullForEmpty) ? nullptr : cat.constData();
                QMessageLogContext ctx("file.cpp", 1, "void fn()", cp);
                LogMessage m(types[ti], ctx, QStringLiteral("text"));
                o << (f.filter(m) ? '1' : '0');
            }
            std::cout << o.str() << "\n";
            continue;
        }
        bool first = true;
        while (std::getline(cl, c, ',')) {
            const QByteArray cat = unhex16(c).toUtf8();
            const char *cp = (cat.isEmpty() && nullForEmpty) ? nullptr : cat.constData();
            if (!first)
                o << ',';
            first = false;
            for (QtMsgType t : types) {
                QMessageLogContext ctx("file.cpp", 1, "void fn()", cp);
                LogMessage m(t, ctx, QStringLiteral("text"));
                o << (f.filter(m) ? '1' : '0');
            }
        }
        std::cout << o.str() << "\n";
    }
    return 0;
}
