// C15 harness: runs the REAL CategoryFilter.
// input line :  <rules> <cat>[,<cat>...]          (every string = hex UTF-16 code units, 4 digits
//               per unit, "-" = empty string)
// output line:  for every category five characters 1/0 = verdict of filter() for the message
//               types in QtMsgType numeric order (debug, warning, critical, fatal, info),
//               categories separated by ','.
// input line with a third field  <ci>:<ti>[,<ci>:<ti>...]  (query sequence: index into the category
//               list, index into the type order above; repetitions allowed): the queries are put to
//               the ONE filter object of the line in exactly that order and the output is one
//               character 1/0 per query (no separators) — a verdict must not depend on what the
//               object was asked before.
//               The query field may start with a STORAGE prefix that says where the category NAME of the
//               messages lives (a verdict is a function of the name's TEXT, never of its address):
//                 (none) every category of the line in its own QByteArray, alive for the whole line
//                        (distinct names at distinct, stable addresses - string constants);
//                 B/     ONE reused char buffer, overwritten in place before every query: consecutive
//                        queries present different names at the SAME address;
//                 H/     a malloc'ed copy of the name per query, freed after the query (the allocator
//                        recycles the block for the next name of the same size class);
//                 C/     through LogMessage COPIES: the message is built from a scratch buffer, copied
//                        (the copy keeps the name in its own heap QByteArray), the original destroyed and
//                        the scratch buffer scribbled over; the COPY is filtered and then destroyed, so the
//                        allocator hands the same block to the next copy;
//                 S/     B/ and, after every query, the buffer is overwritten with a decoy name that is
//                        never asked (a memo must not trust that the bytes behind a pointer stay put).
//               With a prefix the output line is  <verdicts> <flags>  : flags has one character per query,
//               '=' when the name pointer handed to filter() equals the previous query's pointer and the
//               name differs, '+' same pointer same name, '.' otherwise (coverage of the trigger).
// One CategoryFilter is constructed per line (rules parsed once), as an application would.
// The category reaches the filter exactly as in production: as the `const char *category` of a
// QMessageLogContext (UTF-8 bytes), read back through LogMessage::category().
// FRONT END (round 8): the <rules> field may carry a prefix that says how the application OBTAINED the filter object:
//   (none)            CategoryFilter f(rules)  - constructed directly;
//   F:<rules>         SimplePipeline pipe; pipe.filterCategory(rules).handler(<capture>)  - the object the fluent
//                     front end builds; the verdict of a message is whether the trailing handler was reached when
//                     the message is passed through the pipeline (the message ITSELF, so that the storage modes
//                     above keep their meaning: a filter does not change a message);
//   F<earlier>:<rules> the same, after ANOTHER pipeline of the same process has requested
//                     filterCategory(<earlier>) (hex UTF-16 as everywhere; it stays alive during the line): the
//                     object a request yields must not depend on what was requested before.
//   The front end must be transparent: the answers are those of the directly constructed filter.
// argv[1] == "null": an empty category is passed as a null pointer instead of "".
// argv[1] == "qt":   instead of CategoryFilter, Qt's own QLoggingCategory decides: the rules (';'
//                    turned into newlines) go to QLoggingCategory::setFilterRules, a QLoggingCategory
//                    of that name is asked isEnabled(type); fatal cannot be disabled in Qt and is
//                    printed as '-'.  Used as a cross-check on the rule subset Qt supports.
#ifdef VERIF_HEADER_ONLY
#include "qtlogger.h"
#else
#include "qtlogger/qtlogger.h"
#endif
#include <QLoggingCategory>
#include <algorithm>
#include <cstdlib>
#include <cstring>
#include <iostream>
#include <memory>
#include <sstream>
#include <string>
#include <vector>
using namespace QtLogger;

static QString unhex16(const std::string &h)
{
    QString s;
    if (h == "-")
        return s;
    for (size_t i = 0; i + 3 < h.size(); i += 4)
        s.append(QChar(ushort(std::stoul(h.substr(i, 4), nullptr, 16))));
    return s;
}

int main(int argc, char **argv)
{
    const bool nullForEmpty = argc > 1 && std::string(argv[1]) == "null";
    const bool qtMode = argc > 1 && std::string(argv[1]) == "qt";
    static const QtMsgType types[5] = { QtDebugMsg, QtWarningMsg, QtCriticalMsg, QtFatalMsg, QtInfoMsg };
    std::string line;
    while (std::getline(std::cin, line)) {
        std::istringstream is(line);
        std::string r, cs, qs;
        is >> r >> cs >> qs;
        std::ostringstream o;
        if (qtMode) {
            QString rules = unhex16(r);
            rules.replace(";", "\n");
            QLoggingCategory::setFilterRules(rules);
            std::stringstream cl(cs);
            std::string c;
            bool first = true;
            while (std::getline(cl, c, ',')) {
                const QByteArray cat = unhex16(c).toUtf8();
                QLoggingCategory lc(cat.constData());
                if (!first)
                    o << ',';
                first = false;
                for (QtMsgType t : types) {
                    if (t == QtFatalMsg)
                        o << '-';
                    else
                        o << (lc.isEnabled(t) ? '1' : '0');
                }
            }
            std::cout << o.str() << "\n";
            continue;
        }
        // how the filter object of this line is obtained (see FRONT END above)
        bool fluent = false;
        std::unique_ptr<SimplePipeline> earlierPipe, pipe;
        bool reached = false;
        if (!r.empty() && r[0] == 'F' && r.find(':') != std::string::npos) {
            fluent = true;
            const size_t colon = r.find(':');
            const std::string earlier = r.substr(1, colon - 1);
            r = r.substr(colon + 1);
            if (!earlier.empty()) {
                earlierPipe.reset(new SimplePipeline());
                earlierPipe->filterCategory(unhex16(earlier)).handler([](LogMessage &) { return true; });
            }
            pipe.reset(new SimplePipeline());
            pipe->filterCategory(unhex16(r)).handler([&reached](LogMessage &) { reached = true; return true; });
        }
        std::unique_ptr<CategoryFilter> direct(fluent ? nullptr : new CategoryFilter(unhex16(r)));
        struct Asker {
            CategoryFilter *direct; SimplePipeline *pipe; bool *reached;
            bool filter(LogMessage &m) const
            {
                if (direct)
                    return direct->filter(m);
                *reached = false;
                pipe->process(m);
                return *reached;
            }
        } f{ direct.get(), pipe.get(), &reached };
        std::stringstream cl(cs);
        std::string c;
        if (!qs.empty() && !qtMode) {
            std::vector<QByteArray> cats;
            while (std::getline(cl, c, ','))
                cats.push_back(unhex16(c).toUtf8());
            char storage = 0;
            if (qs.size() >= 2 && qs[1] == '/') {
                storage = qs[0];
                qs = qs.substr(2);
            }
            size_t maxLen = 0;
            for (const QByteArray &c2 : cats)
                maxLen = std::max(maxLen, size_t(c2.size()));
            std::vector<char> reused(maxLen + 8, '\0');      // B/, S/: the one name buffer
            std::vector<char> scratch(maxLen + 8, '\0');     // C/: where the original's name lives
            std::string flags;
            const char *prevPtr = nullptr;
            QByteArray prevName;
            bool havePrev = false;
            std::stringstream ql(qs);
            std::string q;
            while (std::getline(ql, q, ',')) {
                const size_t colon = q.find(':');
                const size_t ci = std::stoul(q.substr(0, colon));
                const size_t ti = std::stoul(q.substr(colon + 1));
                if (ci >= cats.size() || ti >= 5) {
                    o << '?';
                    flags += '?';
                    continue;
                }
                const QByteArray &cat = cats[ci];
                const bool asNull = cat.isEmpty() && nullForEmpty;
                const char *cp = nullptr;      // the pointer filter() sees through LogMessage::category()
                bool verdict = true;
                if (storage == 'B' || storage == 'S') {
                    std::memcpy(reused.data(), cat.constData(), size_t(cat.size()) + 1);
                    const char *np = asNull ? nullptr : reused.data();
                    QMessageLogContext ctx("file.cpp", 1, "void fn()", np);
                    LogMessage m(types[ti], ctx, QStringLiteral("text"));
                    cp = m.category();
                    verdict = f.filter(m);
                    if (storage == 'S')
                        std::memcpy(reused.data(), "~decoy~", 8);    // reused has maxLen + 8 bytes
                } else if (storage == 'H') {
                    char *hp = static_cast<char *>(std::malloc(size_t(cat.size()) + 1));
                    std::memcpy(hp, cat.constData(), size_t(cat.size()) + 1);
                    {
                        QMessageLogContext ctx("file.cpp", 1, "void fn()", asNull ? nullptr : hp);
                        LogMessage m(types[ti], ctx, QStringLiteral("text"));
                        cp = m.category();
                        verdict = f.filter(m);
                    }
                    std::memset(hp, '#', size_t(cat.size()));
                    std::free(hp);
                } else if (storage == 'C') {
                    std::memcpy(scratch.data(), cat.constData(), size_t(cat.size()) + 1);
                    QMessageLogContext ctx("file.cpp", 1, "void fn()", asNull ? nullptr : scratch.data());
                    LogMessage *orig = new LogMessage(types[ti], ctx, QStringLiteral("text"));
                    LogMessage *copy = new LogMessage(*orig);
                    delete orig;
                    std::memset(scratch.data(), '#', size_t(cat.size()));
                    cp = copy->category();
                    verdict = f.filter(*copy);
                    delete copy;
                } else {
                    cp = asNull ? nullptr : cat.constData();
                    QMessageLogContext ctx("file.cpp", 1, "void fn()", cp);
                    LogMessage m(types[ti], ctx, QStringLiteral("text"));
                    verdict = f.filter(m);
                }
                o << (verdict ? '1' : '0');
                flags += (havePrev && cp == prevPtr && cp != nullptr) ? (cat == prevName ? '+' : '=') : '.';
                prevPtr = cp;
                prevName = cat;
                havePrev = true;
            }
            if (storage)
                o << ' ' << flags;
            std::cout << o.str() << "\n";
            continue;
        }
        bool first = true;
        while (std::getline(cl, c, ',')) {
            const QByteArray cat = unhex16(c).toUtf8();
            const char *cp = (cat.isEmpty() && nullForEmpty) ? nullptr : cat.constData();
            if (!first)
                o << ',';
            first = false;
            for (QtMsgType t : types) {
                QMessageLogContext ctx("file.cpp", 1, "void fn()", cp);
                LogMessage m(t, ctx, QStringLiteral("text"));
                o << (f.filter(m) ? '1' : '0');
            }
        }
        std::cout << o.str() << "\n";
    }
    return 0;
}
