// C04 harness: ONE shutdown scenario per process, on the real library.  Started by checks/c04.py
// as a child process; every event is one write(2) of one line to stdout, so the order of the
// lines is the order of the events (no buffering, valid during static destruction).
//
//   h_shutdown path=<quit|reset|noexec|noapp|cycles|race|leakapp|scoped> backlog=<n> delay=<ms> [async=1] [cfg=0] [double=0] [install=1]
//              [relog=0] (the sink logs once per delivered message, from the worker thread)
//              [movethread=0] (moveToOwnThread called from a short-lived non-main thread) [concurrent=0]
//              [moveagain=0] (moveToOwnThread once more, while the backlog is queued, right before the stop)
//              [stagger=0] [after=2] [cycles=3] [producers=3] [per=20] [loop=1] [stop=reset|quit]
//              [seed=1] [pace=<us>] [yield=<point>:<us>,...]
//              [late=<ms>] (path=reset/cycles: one more producer thread logs ONE message <ms> after the stop was called AND the sink has
//              entered the last message of the backlog - with a slow sink (delay) the logger thread is then inside the pipeline
//              for the last queued message while the stop is under way: the late message must not overlap with it nor overtake it)
//              [holdfirst=0] (the sink stalls inside its FIRST delivery on the worker until the stop has been called, plus 200 ms:
//              with stagger=1 the whole backlog - tens of thousands of messages - is queued behind a stalled message when the
//              stop begins, whatever the speed of the machine)
//   path=rejecting: NOT a Logger but a bare OwnThreadHandler<FunctionHandler> whose wrapped function REJECTS
//              (process() returns false for) the messages marked r in [reject=ara] (cyclic over the message ids);
//              [cycles=1] x { moveToOwnThread, <backlog> messages, stop, 1 message } with [stop=reset|quit|delete]
//              (explicit resetOwnThread(), aboutToQuit of a running event loop, destructor), then <after> messages
//
// lines:  POST i (hook own.locked, mutex held, message i is being accepted)   ACCEPTED i p (the
//   logging call of producer p for message i has returned)   TAKE / DONE (hooks worker.before_process
//   / worker.decremented)   DELIVER i a|s (recording sink is done with i; s = on the caller's thread)
//   RLOCKED t / RWAIT t / RQUIT t (hooks reset.locked / reset.waiting / reset.quit on stopper thread t)
//   MOVE   STOP_BEGIN   STOP_END t (explicit resetOwnThread() returned, or exec() returned after quit)   APP_DYING APP_GONE
//   (DELIVER i a|s r = the wrapped handler returned false for i)
//   MAIN_RETURN   EXIT (atexit handler registered before the logger singleton exists, i.e. run
//   after its destructor)   OVERLAP i (two threads inside the sink)   FOREIGN i (a message not
//   produced by the harness, e.g. a Qt warning, was given id i)
#ifdef VERIF_HEADER_ONLY
#include "qtlogger.h"
#else
#include "qtlogger/qtlogger.h"
#endif
#include <QCoreApplication>
#include <QTimer>
#include <atomic>
#include <cstdarg>
#include <cstdio>
#include <cstring>
#include <deque>
#include <map>
#include <mutex>
#include <random>
#include <string>
#include <thread>
#include <unistd.h>
#include <vector>

static void emitf(const char *fmt, ...)
{
    char buf[160];
    va_list ap;
    va_start(ap, fmt);
    int n = vsnprintf(buf, sizeof buf, fmt, ap);
    va_end(ap);
    if (n > 0) {
        ssize_t r = write(1, buf, n < (int)sizeof buf ? n : (int)sizeof buf - 1);
        (void)r;
    }
}

static thread_local int t_cur = -1;       // message the calling producer is logging
static thread_local bool t_in_call = false;
static thread_local bool t_posted = false;
static thread_local int t_stopper = 0;      // which stopper thread this is (0 = main thread)  // the handler under test took the current message (hook own.locked)
static std::atomic<int> g_next { 0 };
static std::atomic<int> g_entered { 0 };
static std::atomic<int> g_inside { 0 };
// never destroyed: used by hooks that fire during static destruction
static std::mutex *g_fmx = new std::mutex;
static std::deque<int> *g_foreign = new std::deque<int>;
struct Yield { char name[40]; int us; };
static Yield g_yield[16];
static int g_nyield = 0;
static bool g_relog = false, g_movethread = false, g_concurrent = false, g_moveagain = false;
static bool g_holdfirst = false;
static std::atomic<bool> g_stop_called { false }, g_held { false };

extern "C" void qtlogger_verif_point(const char *name)
{
    if (!strcmp(name, "own.locked")) {
        int id = t_cur;
        if (id < 0) { // a message the harness did not produce (Qt warning): give it an id
            id = g_next.fetch_add(1);
            std::lock_guard<std::mutex> l(*g_fmx);
            g_foreign->push_back(id);
            emitf("FOREIGN %d\n", id);
        }
        t_posted = true;
        emitf("POST %d\n", id);
    } else if (!strcmp(name, "worker.before_process")) emitf("TAKE\n");
    else if (!strcmp(name, "worker.decremented")) emitf("DONE\n");
    else if (!strcmp(name, "reset.locked")) emitf("RLOCKED %d\n", t_stopper);
    else if (!strcmp(name, "reset.waiting")) emitf("RWAIT %d\n", t_stopper);
    else if (!strcmp(name, "reset.quit")) emitf("RQUIT %d\n", t_stopper);
    for (int i = 0; i < g_nyield; i++)
        if (!strcmp(name, g_yield[i].name)) usleep(g_yield[i].us);
}

static void stopBegin()
{
    emitf("STOP_BEGIN\n");
    g_stop_called = true;
}

struct RecSink : QtLogger::Sink
{
    int delayMs;
    explicit RecSink(int d) : delayMs(d) { }
    void send(const QtLogger::LogMessage &m) override
    {
        const QByteArray t = m.message().toUtf8();
        int id = -1;
        if (t.size() > 1 && (t[0] == 'm' || t[0] == 'r')) {
            bool ok = false;
            id = t.mid(1).toInt(&ok);
            if (!ok) id = -1;
        }
        if (id < 0) {
            std::lock_guard<std::mutex> l(*g_fmx);
            if (!g_foreign->empty()) { id = g_foreign->front(); g_foreign->pop_front(); }
            emitf("FOREIGN_TEXT %d %.100s\n", id, t.left(100).replace('\n', ' ').constData());
        }
        if (g_inside.fetch_add(1) != 0) emitf("OVERLAP %d\n", id);
        g_entered.fetch_add(1);
        if (delayMs > 0) usleep(1000 * delayMs);
        if (g_holdfirst && !t_in_call && !g_held.exchange(true)) {      // a stalled sink: recovers 200 ms after the stop was called
            for (int k = 0; k < 60000 && !g_stop_called.load(); k++) usleep(1000);
            usleep(200 * 1000);
        }
        if (g_relog && !t_in_call && t[0] == 'm') {
            // a sink that itself logs through the installed logger.  Only on the worker thread: on a
            // producer thread Qt's recursion guard sends a nested message to stderr, not to the handler
            int id2 = g_next.fetch_add(1);
            t_cur = id2;
            t_posted = false;
            qWarning("r%d", id2);
            t_cur = -1;
            // (a logger that is being destroyed has already uninstalled itself: the message is not taken)
            if (t_posted) emitf("ACCEPTED %d 99\n", id2);
        }
        emitf("DELIVER %d %c\n", id, t_in_call ? 's' : 'a');
        g_inside.fetch_sub(1);
    }
};

// path=rejecting: the handler wrapped by a bare OwnThreadHandler<FunctionHandler>; a level filter with a side
// effect, as a plain function: it records the message, then rejects it (returns false) or not
static std::string g_reject = "ara";
static int g_fn_delay = 0;
static bool rejectingFunction(QtLogger::LogMessage &m)
{
    const QByteArray t = m.message().toUtf8();
    int id = t.size() > 1 && t[0] == 'm' ? atoi(t.constData() + 1) : -1;
    if (g_inside.fetch_add(1) != 0) emitf("OVERLAP %d\n", id);
    g_entered.fetch_add(1);
    if (g_fn_delay > 0) usleep(1000 * g_fn_delay);
    const bool rejected = id >= 0 && !g_reject.empty() && g_reject[id % g_reject.size()] == 'r';
    emitf("DELIVER %d %c%s\n", id, t_in_call ? 's' : 'a', rejected ? " r" : "");
    g_inside.fetch_sub(1);
    return !rejected;
}
using BareHandler = QtLogger::OwnThreadHandler<QtLogger::FunctionHandler>;
static void bareLog(BareHandler &h, int n, bool stagger)
{
    for (int i = 0; i < n; i++) {
        int before = g_entered.load();
        int id = g_next.fetch_add(1);
        QtLogger::LogMessage lmsg(QtInfoMsg, QMessageLogContext("h_shutdown.cpp", id, "bareLog", "verif"), QStringLiteral("m%1").arg(id));
        t_cur = id;
        t_in_call = true;
        h.process(lmsg);
        t_in_call = false;
        t_cur = -1;
        emitf("ACCEPTED %d 0\n", id);
        if (stagger && i == 0 && n > 1)
            for (int k = 0; k < 400 && g_entered.load() == before; k++) usleep(500);
    }
}

static QtLogger::Logger *L = nullptr; // the logger under test: the singleton, or an own object (path=scoped)
static std::map<std::string, std::string> A;
static int geti(const char *k, int d) { auto it = A.find(k); return it == A.end() ? d : atoi(it->second.c_str()); }
static std::string gets(const char *k, const char *d) { auto it = A.find(k); return it == A.end() ? d : it->second; }

static int g_late_ms = 0, g_backlog_total = 0;
static void logOne(int producer)
{
    int id = g_next.fetch_add(1);
    t_cur = id;
    t_in_call = true;
    qInfo("m%d", id);
    t_in_call = false;
    t_cur = -1;
    emitf("ACCEPTED %d %d\n", id, producer);
}

static void burst(int n, bool stagger)
{
    g_backlog_total += n;
    for (int i = 0; i < n; i++) {
        int before = g_entered.load();
        logOne(0);
        if (stagger && i == 0 && n > 1) // let the worker start on the first message: the rest then
            for (int k = 0; k < 400 && g_entered.load() == before; k++) usleep(500); // lands in a later batch
    }
}

static void doMoveHere();
static void doMove()
{
    if (g_movethread) { // asynchronous mode switched on from a short-lived non-main thread
        std::thread t(doMoveHere);
        t.join();
    } else {
        doMoveHere();
    }
}
static void doMoveHere()
{
    // with the logger lock held, so that no post falls between the MOVE line and the move itself
    L->lock();
    emitf("MOVE\n");
    L->moveToOwnThread();
    L->unlock();
}

static void setup(bool async, bool cfg, int delay)
{
    auto sink = QSharedPointer<RecSink>::create(delay);
    if (cfg && async) {
        emitf("MOVE\n");
        L->configure(); // the one-line configuration: pretty formatter, stderr sink, async
        *L << sink;
    } else {
        *L << sink;
        if (async) doMove();
        if (geti("install", 1)) L->installMessageHandler();
    }
}

// switch asynchronous mode on a second time (what a second configure(async=true) does) while the
// backlog just logged is still queued
static void moveAgain()
{
    if (g_moveagain) doMove();
}

static void doReset()
{
    moveAgain();
    std::thread lateProducer;
    if (g_late_ms > 0) {
        const int want = g_backlog_total;     // deliveries begun so far when the sink is inside the last queued message
        lateProducer = std::thread([want]() {
            for (int k = 0; k < 20000 && !(g_stop_called.load() && g_entered.load() >= want); k++) usleep(500);
            usleep(1000 * g_late_ms);
            logOne(7);
        });
    }
    struct Joiner { std::thread &t; ~Joiner() { if (t.joinable()) t.join(); } } joiner { lateProducer };
    stopBegin();
    if (g_concurrent) { // two threads stop at the same time
        std::thread t([]() { t_stopper = 1; L->resetOwnThread(); emitf("STOP_END 1\n"); });
        L->resetOwnThread();
        emitf("STOP_END 0\n");
        t.join();
    } else {
        L->resetOwnThread();
        emitf("STOP_END 0\n");
    }
}

static void on_exit_handler() { emitf("EXIT\n"); }

static void producers_run(int P, int per, int seed, std::vector<std::thread> &ths)
{
    const int pace = geti("pace", 0); // base pause between two messages of a producer, in us
    for (int p = 1; p <= P; p++)
        ths.emplace_back([=]() {
            std::mt19937 rng((unsigned)seed * 7919u + (unsigned)p);
            for (int k = 0; k < per; k++) {
                logOne(p);
                int r = rng() % 4;
                if (r || pace) usleep(200 * r + pace);
            }
        });
}

int main(int argc, char **argv)
{
    atexit(on_exit_handler); // BEFORE the logger singleton is created: runs after its destructor
    for (int i = 1; i < argc; i++) {
        const char *eq = strchr(argv[i], '=');
        if (eq) A[std::string(argv[i], eq - argv[i])] = eq + 1;
    }
    const std::string path = gets("path", "reset");
    g_relog = geti("relog", 0); g_movethread = geti("movethread", 0); g_concurrent = geti("concurrent", 0); g_moveagain = geti("moveagain", 0); g_holdfirst = geti("holdfirst", 0); g_late_ms = geti("late", 0);
    const int backlog = geti("backlog", 5), delay = geti("delay", 0), after = geti("after", 2);
    const bool async = geti("async", 1), cfg = geti("cfg", 0), stagger = geti("stagger", 0), loop = geti("loop", 1);
    const int cycles = geti("cycles", 3), P = geti("producers", 3), per = geti("per", 20), seed = geti("seed", 1);
    {
        std::string y = gets("yield", "");
        size_t pos = 0;
        while (pos < y.size() && g_nyield < 16) {
            size_t c = y.find(',', pos);
            std::string item = y.substr(pos, c == std::string::npos ? std::string::npos : c - pos);
            size_t colon = item.find(':');
            if (colon != std::string::npos) {
                snprintf(g_yield[g_nyield].name, sizeof g_yield[g_nyield].name, "%s", item.substr(0, colon).c_str());
                g_yield[g_nyield].us = atoi(item.c_str() + colon + 1);
                g_nyield++;
            }
            if (c == std::string::npos) break;
            pos = c + 1;
        }
    }

    if (path == "rejecting") {
        g_reject = gets("reject", "ara");
        g_fn_delay = delay;
        const std::string stop = gets("stop", "reset");
        const int ncyc = geti("cycles", 1);
        {
            QCoreApplication app(argc, argv);
            auto *h = new BareHandler(&rejectingFunction);
            auto body = [&]() {
                for (int c = 0; c < ncyc; c++) {
                    const bool last = c + 1 == ncyc;
                    if (async) { emitf("MOVE\n"); h->moveToOwnThread(); }
                    bareLog(*h, backlog, stagger);
                    if (last && stop == "quit") return; // stopped by aboutToQuit
                    stopBegin();
                    if (last && stop == "delete") { delete h; h = nullptr; }
                    else h->resetOwnThread();
                    emitf("STOP_END 0\n");
                    if (h) bareLog(*h, 1, false);
                }
            };
            if (loop || stop == "quit") {
                QTimer::singleShot(0, &app, [&]() {
                    body();
                    if (stop == "quit") stopBegin();
                    app.quit();
                });
                app.exec();
                if (stop == "quit") emitf("STOP_END 0\n");
            } else {
                body();
            }
            if (h) bareLog(*h, after, false);
            delete h;
            emitf("APP_DYING\n");
        }
        usleep(20000);
        emitf("APP_GONE\n");
        emitf("MAIN_RETURN\n");
        return 0;
    }
    L = path == "scoped" ? new QtLogger::Logger : &gQtLogger;
    if (path == "leakapp") { // destructor at exit while the application object still exists
        auto *app = new QCoreApplication(argc, argv); // never deleted
        setup(async, cfg, delay);
        if (loop) { // an event loop has run (and aboutToQuit has stopped the worker); go asynchronous again
            QTimer::singleShot(0, app, [&]() { burst(1, false); stopBegin(); app->quit(); });
            app->exec();
            emitf("STOP_END 0\n");
            if (async) doMove();
        }
        burst(backlog, stagger);
        emitf("MAIN_RETURN\n");
        return 0;
    }
    if (path == "noapp") { // no QCoreApplication object, ever
        setup(async, cfg, delay);
        burst(backlog, stagger);
        emitf("MAIN_RETURN\n");
        return 0;
    }
    if (path == "noexec") { // application object leaves scope, exec() never called
        {
            QCoreApplication app(argc, argv);
            setup(async, cfg, delay);
            burst(backlog, stagger);
            emitf("APP_DYING\n");
        }
        usleep(20000); // a hand-over Qt had already begun before the object died has reached its hook by now
        emitf("APP_GONE\n");
        emitf("MAIN_RETURN\n");
        return 0;
    }
    {
        QCoreApplication app(argc, argv);
        setup(async, cfg, delay);
        std::vector<std::thread> ths;
        auto body = [&]() {
            if (path == "quit") {
                burst(backlog, stagger);
            } else if (path == "scoped") { // an own Logger object destroyed while the application lives
                burst(backlog, stagger);
                moveAgain();
                stopBegin();
                delete L;
                emitf("STOP_END 0\n");
                L = nullptr;
            } else if (path == "reset") {
                burst(backlog, stagger);
                doReset();
                burst(after, false);
            } else if (path == "cycles") {
                for (int c = 0; c < cycles; c++) {
                    if (c > 0 && async) doMove();
                    burst(backlog, stagger);
                    doReset();
                    if (geti("double", 0)) doReset(); // a stop when no thread exists
                    burst(1, false);
                }
            } else if (path == "race") {
                producers_run(P, per, seed, ths);
                const std::string stop = gets("stop", "reset");
                for (int c = 0; c < cycles; c++) {
                    if (c > 0 && async) doMove();
                    usleep(3000);
                    if (stop == "reset" || c + 1 < cycles) doReset();
                }
            }
        };
        const bool viaQuit = path == "quit" || (path == "race" && gets("stop", "reset") == "quit");
        if (loop || viaQuit) {
            QTimer::singleShot(0, &app, [&]() {
                body();
                if (viaQuit) { moveAgain(); stopBegin(); }
                app.quit();
            });
            app.exec(); // aboutToQuit -> resetOwnThread
            if (viaQuit) emitf("STOP_END 0\n");
        } else {
            body();
        }
        for (auto &t : ths) t.join();
        if (path == "quit" || path == "race") burst(after, false);
        emitf("APP_DYING\n");
    }
    usleep(20000);
    emitf("APP_GONE\n");
    // gone=<n>: n more messages through the Qt macros after the QCoreApplication object has been destroyed (only used on
    // paths where the stop has completed, so the logger is synchronous again: they must be delivered, synchronously)
    if (geti("gone", 0) > 0) burst(geti("gone", 0), false);
    emitf("MAIN_RETURN\n");
    return 0;
}
