// C08 harness: drives a real RotatingFileSink with given record bytes and keeps, for every rotated
// file, an independent copy of the active file as it was just before the write that rotated it
// ("the log file it replaces").  Decoding of the produced .gz files happens in Python, never here.
//
//   h_gzip <dir> <L> <N> <options> <enc: l|u> [<locale codec>]      then lines on stdin:
//     <locale codec>: when given (e.g. ISO-8859-1, ISO-8859-15, windows-1252, KOI8-R) it becomes the codec of the
//                     process's 8-bit locale (QTextCodec::setCodecForLocale) = what toLocal8Bit() and therefore the sink's
//                     write use; exit status 3 when Qt does not know the name.  Absent: whatever LC_ALL/LANG select.
//     W <hex>           send one record; its text is QString::fromLatin1 / fromUtf8 of the bytes (NULs kept);
//                       the active file is snapshotted before, the directory compared after
//     w <hex>           send one record without snapshot and without flushing (bulk filling)
//     R <L> <N> <opts>  destroy the sink and create a new one on the same path
//     Q <level> <hex>   print hex(qCompress(bytes, level))   (Qt's framing of the zlib stream)
//     C <dirA> <dirB>   two threads, released together by a barrier, each construct its own RotatingFileSink on
//                       <dirX>/app.log (pre-written by the caller) with RotationOnStartup|Compression, send "z" and
//                       destroy it: two independent sinks compressing at the same time.  Answer "C".
//     P                 print hex(QString(U+00E9 U+20AC).toLocal8Bit())  (which codec is in force)
//   answers: one line per command: "W <new rotated name | ->", "R", "Q <hex>", "P <hex>".
// Snapshots go to <dir>.exp/<rotated name without .gz>.
#ifdef VERIF_HEADER_ONLY
#include "qtlogger.h"
#else
#include "qtlogger/qtlogger.h"
#endif
#include <QDir>
#include <QFile>
#include <QSet>
#include <QTextCodec>
#include <clocale>
#include <iostream>
#include <atomic>
#include <thread>
#include <memory>
#include <string>
using namespace QtLogger;
int main(int argc, char **argv)
{
    if (argc < 6) return 2;
    setlocale(LC_ALL, "");
    QString dir = QString::fromLocal8Bit(argv[1]);
    int L = atoi(argv[2]), N = atoi(argv[3]), o = atoi(argv[4]);
    bool latin1 = argv[5][0] == 'l';
    if (argc > 6 && argv[6][0]) {
        QTextCodec *codec = QTextCodec::codecForName(argv[6]);
        if (!codec) return 3;
        QTextCodec::setCodecForLocale(codec);
    }
    QString exp = dir + ".exp";
    QDir().mkpath(dir);
    QDir().mkpath(exp);
    const QString active = dir + "/app.log";
    QMessageLogContext ctx("f.cpp", 1, "void f()", "cat");
    auto sink = std::make_unique<RotatingFileSink>(active, L, N, RotatingFileSink::Options(o));
    std::string line;
    while (std::getline(std::cin, line)) {
        if (line.empty()) continue;
        char op = line[0];
        if (op == 'w') {
            QByteArray raw = QByteArray::fromHex(QByteArray(line.c_str() + 1).trimmed());
            QString text = latin1 ? QString::fromLatin1(raw.constData(), raw.size()) : QString::fromUtf8(raw.constData(), raw.size());
            LogMessage m(QtInfoMsg, ctx, text);
            sink->send(m);
        } else if (op == 'W') {
            QByteArray raw = QByteArray::fromHex(QByteArray(line.c_str() + 1).trimmed());
            QString text = latin1 ? QString::fromLatin1(raw.constData(), raw.size()) : QString::fromUtf8(raw.constData(), raw.size());
            sink->flush();
            QFile::remove(exp + "/pending");
            QFile::copy(active, exp + "/pending");
            QSet<QString> before = QDir(dir).entryList(QDir::Files).toSet();
            LogMessage m(QtInfoMsg, ctx, text);
            sink->send(m);
            sink->flush();
            QString fresh = "-";
            for (const QString &e : QDir(dir).entryList(QDir::Files, QDir::Name)) {
                if (before.contains(e)) continue;
                QString plain = e.endsWith(".gz") ? e.left(e.size() - 3) : e;
                if (fresh != "-" && fresh != plain) fresh += "," + plain; else fresh = plain;
            }
            if (fresh != "-" && !fresh.contains(',')) {
                QFile::remove(exp + "/" + fresh);
                QFile::rename(exp + "/pending", exp + "/" + fresh);
            }
            std::cout << "W " << fresh.toStdString() << std::endl;
        } else if (op == 'R') {
            QList<QByteArray> a = QByteArray(line.c_str() + 1).trimmed().split(' ');
            sink.reset();
            if (a.size() >= 3) { L = a[0].toInt(); N = a[1].toInt(); o = a[2].toInt(); }
            sink = std::make_unique<RotatingFileSink>(active, L, N, RotatingFileSink::Options(o));
            std::cout << "R" << std::endl;
        } else if (op == 'Q') {
            QList<QByteArray> a = QByteArray(line.c_str() + 1).trimmed().split(' ');
            QByteArray raw = QByteArray::fromHex(a.value(1));
            std::cout << "Q " << qCompress(raw, a.value(0).toInt()).toHex().constData() << std::endl;
        } else if (op == 'C') {
            QList<QByteArray> a = QByteArray(line.c_str() + 1).trimmed().split(' ');
            std::atomic<int> ready{0};
            auto work = [&ready](QString d) {
                QMessageLogContext c("f.cpp", 1, "void f()", "cat");
                ready.fetch_add(1);
                while (ready.load() < 2) { }
                RotatingFileSink s(d + "/app.log", 0, 0, RotatingFileSink::Options(5));
                LogMessage m(QtInfoMsg, c, QStringLiteral("z"));
                s.send(m);
                s.flush();
            };
            std::thread t1(work, QString::fromLocal8Bit(a.value(0))), t2(work, QString::fromLocal8Bit(a.value(1)));
            t1.join(); t2.join();
            std::cout << "C" << std::endl;
        } else if (op == 'P') {
            QString s; s += QChar(0xE9); s += QChar(0x20AC);
            std::cout << "P " << s.toLocal8Bit().toHex().constData() << std::endl;
        }
    }
    sink.reset();
    return 0;
}
