// C19 harness (configuration front-ends): ONE configuration per process.  The process writes
// nothing to stdout / stderr / the log directory except what the library writes.
//
//   h_config run <script>       executes the script below
//   h_config mkini <ini path> <group> {<key>=<hex utf-8 value>}...    writes an INI file with QSettings
//   h_config pretty <script>    several PrettyFormatter objects in ONE process, 1 + 3 emitting threads; prints one line
//                               "<object> <record, hex UTF-8>" per record an object produced, in order.  Script lines:
//       layout <L|P|F>          L: every object is the formatter of its own (not installed) Logger: formatPretty(c, w) + a
//                                  capturing sink, messages by Logger::processMessage from the emitting thread
//                               P: ONE installed Logger with one scoped sub-pipeline per object (pipeline().formatPretty(c, w) +
//                                  capturing sink), messages through Qt's macros (every message reaches every object)
//                               F: bare PrettyFormatter objects, format() called on a LogMessage built by the emitting thread
//       obj <colorize 0/1> <maxCategoryWidth>
//       time <epoch seconds>
//       msg <object mask> <d|w|c|i> <thread 0..3> <category|-> <text>     (mask bit k = delivered to object k; P: all objects)
//
// script lines (strings = hex UTF-8 bytes, "-" = empty):
//   shape <file>                      where to write "<handler classes> <own thread running 0/1>"
//   ini <ini path> <group|->          gQtLogger.configureFromIniFile(path[, group])
//   inis <ini path> <group|->         QSettings s(path, IniFormat); gQtLogger.configure(s[, group])
//   oneline <path|-> <size> <count> <options> <async>      gQtLogger.configure(path, size, count, options, async)
//   foreign <file>                    qInstallMessageHandler(F): F appends "<d|w|c|i|f> <category hex> <message hex>" per message to <file>
//   clear                             gQtLogger.clear()   (then a further ini / inis / oneline line re-configures)
//   restore                           Logger::restorePreviousMessageHandler()
//   codec <name>                      QTextCodec::setCodecForLocale(codecForName(name)) (e.g. ISO-8859-1)
//   time <epoch seconds>              virtual wall clock (TZ=UTC)
//   msg <d|w|c|i> <thread 0..3> <category|-> <text>        qDebug / qCInfo(cat) ... from that thread ("%s")
//   end <exec|reset>                  exec: QTimer 0 -> quit, app.exec()  (aboutToQuit drains the own thread)
//                                     reset: gQtLogger.resetOwnThread() while the application object lives
#ifdef VERIF_HEADER_ONLY
#include "qtlogger.h"
#else
#include "qtlogger/qtlogger.h"
#endif
#include <QCoreApplication>
#include <QLoggingCategory>
#include <QSettings>
#include <QTextCodec>
#include <QTimer>
#include <condition_variable>
#include <fstream>
#include <functional>
#include <map>
#include <memory>
#include <mutex>
#include <sstream>
#include <thread>
#include <vector>
#include <sys/syscall.h>
#include <sys/time.h>
#include <time.h>
#include <unistd.h>
using namespace QtLogger;

// ---- virtual wall clock (the monotonic clocks stay real)
static long long g_sec = 1700000000LL;
extern "C" int gettimeofday(struct timeval *tv, void *) noexcept { if (tv) { tv->tv_sec = g_sec; tv->tv_usec = 0; } return 0; }
extern "C" int clock_gettime(clockid_t id, struct timespec *ts) noexcept
{
    if (id == CLOCK_REALTIME || id == CLOCK_REALTIME_COARSE) { ts->tv_sec = g_sec; ts->tv_nsec = 0; return 0; }
    return (int)syscall(SYS_clock_gettime, id, ts);
}
extern "C" time_t time(time_t *t) noexcept { time_t v = (time_t)g_sec; if (t) *t = v; return v; }

static QByteArray unhex(const std::string &h) { return h == "-" ? QByteArray() : QByteArray::fromHex(QByteArray::fromStdString(h)); }

struct Worker {
    std::thread th; std::mutex m; std::condition_variable cv; std::function<void()> job; bool has = false, done = false, quit = false;
    Worker() { th = std::thread([this] { std::unique_lock<std::mutex> l(m); while (true) { cv.wait(l, [this] { return has || quit; }); if (quit) return; job(); has = false; done = true; cv.notify_all(); } }); }
    void run(std::function<void()> f) { std::unique_lock<std::mutex> l(m); job = f; has = true; done = false; cv.notify_all(); cv.wait(l, [this] { return done; }); }
    ~Worker() { { std::lock_guard<std::mutex> l(m); quit = true; } cv.notify_all(); th.join(); }
};

static std::ofstream g_foreign;
static void foreignHandler(QtMsgType t, const QMessageLogContext &ctx, const QString &msg)
{
    const char *l = t == QtDebugMsg ? "d" : t == QtInfoMsg ? "i" : t == QtWarningMsg ? "w" : t == QtCriticalMsg ? "c" : "f";
    const QByteArray cat = QByteArray(ctx.category ? ctx.category : "").toHex();
    const QByteArray m = msg.toUtf8().toHex();
    g_foreign << l << " " << (cat.isEmpty() ? "-" : cat.constData()) << " " << (m.isEmpty() ? "-" : m.constData()) << "\n";
    g_foreign.flush();
}
static const char *cmode(ColorMode m) { return m == ColorMode::Auto ? "Auto" : m == ColorMode::Always ? "Always" : "Never"; }
static std::string shape()
{
    std::string s;
    for (const auto &h : static_cast<const Logger &>(gQtLogger).handlers()) {
        if (!s.empty()) s += ",";
        if (h.dynamicCast<CategoryFilter>()) s += "CategoryFilter";
        else if (h.dynamicCast<RegExpFilter>()) s += "RegExpFilter";
        else if (h.dynamicCast<PatternFormatter>()) s += "PatternFormatter";
        else if (h.dynamicCast<PrettyFormatter>()) s += "PrettyFormatter";
        else if (h.dynamicCast<FunctionFormatter>()) s += "FunctionFormatter";
        else if (auto o = h.dynamicCast<StdOutSink>()) s += std::string("StdOutSink:") + cmode(o->colorMode());
        else if (auto e = h.dynamicCast<StdErrSink>()) s += std::string("StdErrSink:") + cmode(e->colorMode());
        else if (h.dynamicCast<SyslogSink>()) s += "SyslogSink";
        else if (h.dynamicCast<RotatingFileSink>()) s += "RotatingFileSink";
        else if (h.dynamicCast<FileSink>()) s += "FileSink";
        else s += "Other";
    }
    if (s.empty()) s = "-";
    return s;
}

static int mkini(int argc, char **argv)
{
    if (argc < 4) return 2;
    QSettings st(QString::fromLocal8Bit(argv[2]), QSettings::IniFormat);
    const QString group = QString::fromLocal8Bit(argv[3]);
    for (int i = 4; i < argc; i++) {
        std::string kv = argv[i];
        auto p = kv.find('=');
        if (p == std::string::npos) return 2;
        st.setValue(group + "/" + QString::fromStdString(kv.substr(0, p)), QString::fromUtf8(unhex(kv.substr(p + 1))));
    }
    st.sync();
    return st.status() == QSettings::NoError ? 0 : 1;
}

// ---- several PrettyFormatter objects in one process
static std::mutex g_capm;
struct CaptureSink : public Sink {
    int k;
    explicit CaptureSink(int k_) : k(k_) { }
    void send(const LogMessage &lmsg) override
    {
        const QByteArray h = lmsg.formattedMessage().toUtf8().toHex();
        std::lock_guard<std::mutex> l(g_capm);
        printf("%d %s\n", k, h.isEmpty() ? "-" : h.constData());
    }
};
static int prettyObjects(const char *script)
{
    std::ifstream in(script);
    std::string line;
    char layout = 'L';
    std::vector<std::unique_ptr<Logger>> loggers;
    std::vector<PrettyFormatterPtr> bare;
    int nobj = 0;
    bool installed = false;
    std::map<std::string, std::unique_ptr<QLoggingCategory>> cats;
    std::vector<std::unique_ptr<QByteArray>> names;
    std::unique_ptr<Worker> pool[3];
    while (std::getline(in, line)) {
        std::istringstream is(line);
        std::string op;
        is >> op;
        if (op == "layout") { std::string l; is >> l; layout = l.empty() ? 'L' : l[0]; }
        else if (op == "time") { is >> g_sec; }
        else if (op == "obj") {
            int c, w; is >> c >> w;
            const int k = nobj++;
            if (layout == 'L') {
                loggers.emplace_back(new Logger());
                loggers.back()->formatPretty(c != 0, w);
                loggers.back()->appendSink(QSharedPointer<CaptureSink>::create(k));
            } else if (layout == 'P') {
                SimplePipeline &sub = gQtLogger.pipeline();
                sub.formatPretty(c != 0, w);
                sub.appendSink(QSharedPointer<CaptureSink>::create(k));
                if (!installed) { gQtLogger.installMessageHandler(); installed = true; }
            } else {
                bare.push_back(PrettyFormatterPtr::create(c != 0, w));
            }
        } else if (op == "msg") {
            unsigned mask; std::string t, c, x; int w; is >> mask >> t >> w >> c >> x;
            const QByteArray text = unhex(x);
            const QByteArray cat = c == "-" ? QByteArray("default") : unhex(c);
            QLoggingCategory *lc = nullptr;
            if (c != "-") {
                auto it = cats.find(c);
                if (it == cats.end()) {
                    names.emplace_back(new QByteArray(unhex(c)));
                    it = cats.emplace(c, std::unique_ptr<QLoggingCategory>(new QLoggingCategory(names.back()->constData()))).first;
                }
                lc = it->second.get();
            }
            const QtMsgType ty = t[0] == 'd' ? QtDebugMsg : t[0] == 'i' ? QtInfoMsg : t[0] == 'w' ? QtWarningMsg : QtCriticalMsg;
            auto emit_ = [&] {
                const char *s = text.constData();
                if (layout == 'P') {
                    switch (t[0]) {
                    case 'd': if (lc) qCDebug((*lc), "%s", s); else qDebug("%s", s); break;
                    case 'i': if (lc) qCInfo((*lc), "%s", s); else qInfo("%s", s); break;
                    case 'w': if (lc) qCWarning((*lc), "%s", s); else qWarning("%s", s); break;
                    case 'c': if (lc) qCCritical((*lc), "%s", s); else qCritical("%s", s); break;
                    }
                    return;
                }
                const QMessageLogContext ctx("pretty.cpp", 1, "emit", cat.constData());
                const QString m = QString::fromUtf8(text);
                for (int k = 0; k < nobj; k++) {
                    if (!(mask & (1u << k))) continue;
                    if (layout == 'L') loggers[k]->processMessage(ty, ctx, m);
                    else {
                        const LogMessage lmsg(ty, ctx, m);
                        const QByteArray h = bare[k]->format(lmsg).toUtf8().toHex();
                        std::lock_guard<std::mutex> l(g_capm);
                        printf("%d %s\n", k, h.isEmpty() ? "-" : h.constData());
                    }
                }
            };
            if (w <= 0 || w > 3) emit_();
            else { if (!pool[w - 1]) pool[w - 1].reset(new Worker()); pool[w - 1]->run(emit_); }
        }
    }
    for (auto &p : pool) p.reset();
    if (installed) { Logger::restorePreviousMessageHandler(); gQtLogger.clear(); }
    loggers.clear();
    fflush(stdout);
    return 0;
}

int main(int argc, char **argv)
{
    setenv("TZ", "UTC", 1);
    tzset();
    if (argc >= 2 && std::string(argv[1]) == "mkini") return mkini(argc, argv);
    if (argc < 3 || (std::string(argv[1]) != "run" && std::string(argv[1]) != "pretty")) return 2;
    QCoreApplication app(argc, argv);
    if (std::string(argv[1]) == "pretty") return prettyObjects(argv[2]);
    std::ifstream in(argv[2]);
    std::string line, shapeFile, endMode = "exec";
    std::map<std::string, std::unique_ptr<QLoggingCategory>> cats;
    std::vector<std::unique_ptr<QByteArray>> names;
    std::unique_ptr<Worker> pool[3];
    while (std::getline(in, line)) {
        std::istringstream is(line);
        std::string op;
        is >> op;
        if (op == "shape") { is >> shapeFile; }
        else if (op == "ini" || op == "inis") {
            std::string p, g; is >> p >> g;
            const QString path = QString::fromUtf8(unhex(p));
            if (op == "ini") { if (g == "-") gQtLogger.configureFromIniFile(path); else gQtLogger.configureFromIniFile(path, QString::fromUtf8(unhex(g))); }
            else { QSettings s(path, QSettings::IniFormat); if (g == "-") gQtLogger.configure(s); else gQtLogger.configure(s, QString::fromUtf8(unhex(g))); }
            if (!shapeFile.empty()) { std::ofstream o(shapeFile); o << shape() << " " << (gQtLogger.ownThreadIsRunning() ? 1 : 0) << "\n"; }
        } else if (op == "oneline") {
            std::string p; int size, count, opts, async; is >> p >> size >> count >> opts >> async;
            gQtLogger.configure(QString::fromUtf8(unhex(p)), size, count, RotatingFileSink::Options(opts), async != 0);
            if (!shapeFile.empty()) { std::ofstream o(shapeFile); o << shape() << " " << (gQtLogger.ownThreadIsRunning() ? 1 : 0) << "\n"; }
        } else if (op == "foreign") {
            std::string f; is >> f;
            g_foreign.open(f, std::ios::app);
            qInstallMessageHandler(foreignHandler);
        } else if (op == "clear") { gQtLogger.clear(); }
        else if (op == "restore") { Logger::restorePreviousMessageHandler(); }
        else if (op == "codec") {
            std::string n; is >> n;
            if (auto *c = QTextCodec::codecForName(n.c_str())) QTextCodec::setCodecForLocale(c); else return 3;
        } else if (op == "time") { is >> g_sec; }
        else if (op == "msg") {
            std::string t, c, x; int w; is >> t >> w >> c >> x;
            const QByteArray text = unhex(x);
            QLoggingCategory *lc = nullptr;
            if (c != "-") {
                auto it = cats.find(c);
                if (it == cats.end()) {
                    names.emplace_back(new QByteArray(unhex(c)));
                    it = cats.emplace(c, std::unique_ptr<QLoggingCategory>(new QLoggingCategory(names.back()->constData()))).first;
                }
                lc = it->second.get();
            }
            auto emit_ = [&] {
                const char *s = text.constData();
                switch (t[0]) {
                case 'd': if (lc) qCDebug((*lc), "%s", s); else qDebug("%s", s); break;
                case 'i': if (lc) qCInfo((*lc), "%s", s); else qInfo("%s", s); break;
                case 'w': if (lc) qCWarning((*lc), "%s", s); else qWarning("%s", s); break;
                case 'c': if (lc) qCCritical((*lc), "%s", s); else qCritical("%s", s); break;
                }
            };
            if (w <= 0 || w > 3) emit_();
            else { if (!pool[w - 1]) pool[w - 1].reset(new Worker()); pool[w - 1]->run(emit_); }
        } else if (op == "end") { is >> endMode; }
    }
    if (endMode == "reset") {
        gQtLogger.resetOwnThread();
    } else {
        QTimer::singleShot(0, &app, &QCoreApplication::quit);
        app.exec();
    }
    gQtLogger.flush();
    for (auto &p : pool) p.reset();
    return 0;
}
