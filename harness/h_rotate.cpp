// C05 C06 C07 C09 harness: executes op lines on a real RotatingFileSink in a fresh directory under
// a VIRTUAL wall clock and prints the directory listing after every line.
//   argv[1] = scratch root (a fresh sub-directory is created per case and removed afterwards)
//   case <L> <N> <opts> <gran ms> <base hex> <suffix hex> <t0 ms> <tz>   fresh directory, clock := t0, process time zone :=
//        <tz> minutes east of UTC (a POSIX TZ string such as VRF-09:00, no tz database needed), sink constructed
//        optional after <tz>: <codec> ("-" or a QTextCodec name set with QTextCodec::setCodecForLocale before the sink is
//        created) and <quiet> (1 = no flush and no listing until the `end` line: every other line prints "-") and
//        <TZ hex> (a full POSIX TZ string with daylight-saving rules, e.g. CET-1CEST,M3.5.0,M10.5.0/3; overrides <tz>)
//        and <front> (round 8; 1 = the main sink object is NOT constructed directly but obtained through the fluent front end
//        SimplePipeline().sendToFile(path, L, N, options): records go through that pipeline, flush() is the pipeline's)
//   w <payload hex> [<type>] | adv <ms> | restart | put <name hex> <bytes hex>
//        a message text is the hex of its UTF-8 bytes (U+0000 allowed) or u<hex of UTF-16BE code units> (unpaired surrogates)
//        <type> = the QtMsgType of the message, 0 debug 1 warning 2 critical 3 fatal 4 info (default); the sink is called
//        directly, so a fatal-typed record does not abort the process
//   w <raw hex> <type> <fmt mode> <fmt hex> [<age ms>]   the long form: <raw> is LogMessage::message(); <fmt mode> 0 = no formatted
//        text set (isFormatted() false: the raw text is shown), 1 = setFormattedMessage(<fmt>) - "-" is the EMPTY, non-null
//        string, which is what is shown then; <age> = the message object was constructed that many ms before it is sent
//        (LogMessage samples the wall clock when it is constructed: a queued message of asynchronous logging)
//   mkdir <name hex>     somebody creates a sub-directory of that name (a rename onto it is refused by the kernel / QFile)
//   w2 <payload hex> [<type>]   write through a SECOND live sink object on the same path (created at its first use)
//   wo <file name hex> <payload hex> [<type> [<N>]]   write through a live sink object (same L, options; N as given at its
//        first use, else the case's; created at its first use, destroyed by restart / end) on ANOTHER log file of the same
//        directory: two unrelated sinks of one process
//   sparse <bytes>       truncate(2) the active file to that size (a sparse file; listings show big files as @<size>)
//   end                  destroy the sink object(s) and print the listing (the only listing of a quiet case)
// output per line: <name hex>:<mtime ms>:<content hex>;...   (sorted by name hex; "-" = empty)
// The wall clock: this file defines gettimeofday / clock_gettime(CLOCK_REALTIME) / time itself
// (linked with -rdynamic so that Qt's calls resolve here).  Modification times are assigned by the
// kernel, so after every operation each file whose (inode, size, mtime) changed is re-stamped with
// utimensat to virtual-now rounded down to the granularity; renamed files keep their stamp.
#ifdef VERIF_HEADER_ONLY
#include "qtlogger.h"
#else
#include "qtlogger/qtlogger.h"
#endif
#include <QDir>
#include <QFile>
#include <QTextCodec>
#include <functional>
#include <iostream>
#include <sstream>
#include <map>
#include <vector>
#include <algorithm>
#include <sys/stat.h>
#include <sys/time.h>
#include <fcntl.h>
#include <dlfcn.h>
#include <time.h>
#include <unistd.h>
using namespace QtLogger;
static long long g_ms = 1700000000000LL;
static long long g_gran = 1;
extern "C" int gettimeofday(struct timeval *tv, void *) noexcept
{
    tv->tv_sec = g_ms / 1000; tv->tv_usec = (g_ms % 1000) * 1000; return 0;
}
extern "C" int clock_gettime(clockid_t id, struct timespec *ts) noexcept
{
    static auto real = (int (*)(clockid_t, struct timespec *))dlsym(RTLD_NEXT, "clock_gettime");
    if (id == CLOCK_REALTIME) { ts->tv_sec = g_ms / 1000; ts->tv_nsec = (g_ms % 1000) * 1000000; return 0; }
    return real(id, ts);
}
extern "C" time_t time(time_t *t) noexcept { time_t v = g_ms / 1000; if (t) *t = v; return v; }

struct St { ino_t ino; off_t size; long long mt_ns; };
static std::map<std::string, St> snap;   // path -> state after the previous operation
static QString dir;
static long long mt_ns(const struct stat &s) { return (long long)s.st_mtim.tv_sec * 1000000000LL + s.st_mtim.tv_nsec; }
static void restamp()
{
    std::map<std::string, St> cur;
    const auto entries = QDir(dir).entryList(QDir::Files | QDir::Hidden);
    for (const auto &e : entries) {
        std::string p = QFile::encodeName(dir + "/" + e).toStdString();
        struct stat s;
        if (stat(p.c_str(), &s)) continue;
        St st{s.st_ino, s.st_size, mt_ns(s)};
        bool known = false, changed = true;
        for (auto &kv : snap)
            if (kv.second.ino == st.ino) { known = true; changed = kv.second.size != st.size || kv.second.mt_ns != st.mt_ns; break; }
        if (!known || changed) {
            long long v = (g_ms / g_gran) * g_gran;
            struct timespec ts[2] = {{(time_t)(v / 1000), (long)((v % 1000) * 1000000)}, {(time_t)(v / 1000), (long)((v % 1000) * 1000000)}};
            utimensat(AT_FDCWD, p.c_str(), ts, 0);
            stat(p.c_str(), &s);
            st.mt_ns = mt_ns(s);
        }
        cur[p] = st;
    }
    snap = cur;
}
static std::string hex(const QByteArray &b) { return b.isEmpty() ? std::string("-") : b.toHex().toStdString(); }
static QByteArray unhex(const std::string &h) { return h == "-" ? QByteArray() : QByteArray::fromHex(QByteArray::fromStdString(h)); }
// the QString of a message-text token: hex of its UTF-8 bytes (embedded U+0000 included: the length is explicit, QString::fromUtf8(
// QByteArray) would stop at the first NUL), or 'u' + hex of UTF-16BE code units (a text with unpaired surrogates has no UTF-8 form)
static QString text(const std::string &h)
{
    if (!h.empty() && h[0] == 'u') {
        const QByteArray b = QByteArray::fromHex(QByteArray::fromStdString(h.substr(1)));
        QString s;
        for (int i = 0; i + 1 < b.size(); i += 2) s.append(QChar(ushort(((uchar)b[i] << 8) | (uchar)b[i + 1])));
        return s;
    }
    const QByteArray b = unhex(h);
    return b.isNull() ? QString() : QString::fromUtf8(b.constData(), b.size());
}
static void dump()
{
    std::vector<std::string> items;
    const auto entries = QDir(dir).entryList(QDir::Files | QDir::Hidden);
    for (const auto &e : entries) {
        struct stat s;
        stat(QFile::encodeName(dir + "/" + e).constData(), &s);
        std::ostringstream o;
        o << hex(QFile::encodeName(e)) << ":" << ((long long)s.st_mtim.tv_sec * 1000 + s.st_mtim.tv_nsec / 1000000) << ":";
        if (s.st_size > (16 << 20)) {
            o << "@" << (long long)s.st_size;          // never read the content of a huge (sparse) file
        } else {
            QFile f(dir + "/" + e);
            f.open(QIODevice::ReadOnly);
            o << hex(f.readAll());
        }
        items.push_back(o.str());
    }
    std::sort(items.begin(), items.end());
    for (size_t i = 0; i < items.size(); i++) std::cout << (i ? ";" : "") << items[i];
    std::cout << std::endl;
}
int main(int argc, char **argv)
{
    if (argc < 2) return 2;
    const QString root = QString::fromLocal8Bit(argv[1]);
    setenv("TZ", "UTC", 1);
    tzset();
    QMessageLogContext ctx("f.cpp", 1, "void f()", "cat");
    // the main sink: constructed directly, or the pipeline the fluent front end built around it
    struct Main {
        RotatingFileSink *direct = nullptr; SimplePipeline *pipe = nullptr;
        void make(bool fluent, const QString &path, int L, int N, int o)
        {
            if (fluent) { pipe = new SimplePipeline(); pipe->sendToFile(path, L, N, RotatingFileSink::Options(o)); }
            else direct = new RotatingFileSink(path, L, N, RotatingFileSink::Options(o));
        }
        void drop() { delete direct; direct = nullptr; delete pipe; pipe = nullptr; }
        void send(const LogMessage &m) { if (direct) direct->send(m); else if (pipe) { LogMessage c(m); pipe->process(c); } }
        void flush() { if (direct) direct->flush(); else if (pipe) pipe->flush(); }
    } sinkm;
    Main *sink = &sinkm;
    bool fluent = false;
    RotatingFileSink *sink2 = nullptr;
    std::map<std::string, RotatingFileSink *> others;
    auto drop_others = [&others]() { for (auto &kv : others) delete kv.second; others.clear(); };
    auto mtype = [](std::istringstream &is) {
        int t = 4;
        if (!(is >> t)) t = 4;
        return t == 0 ? QtDebugMsg : t == 1 ? QtWarningMsg : t == 2 ? QtCriticalMsg : t == 3 ? QtFatalMsg : QtInfoMsg;
    };
    // builds the message of a `w` line (short or long form) and hands it to f
    auto with_msg = [&mtype, &ctx](std::istringstream &is, const std::function<void(const LogMessage &)> &f) {
        std::string h; is >> h;
        const auto ty = mtype(is);
        int mode = 0; std::string fh = "-"; long long age = 0;
        is >> mode >> fh >> age;
        if (age > 0) g_ms -= age;                         // the message object is older than the send
        LogMessage m(ty, ctx, text(h));
        if (age > 0) g_ms += age;
        if (mode == 1) {
            m.setFormattedMessage(fh == "-" || fh.empty() ? QStringLiteral("") : text(fh));   // "" is empty but NOT null
        }
        f(m);
    };
    bool quiet = false;
    int L = 0, N = 0, o = 0, ncase = 0;
    QString path;
    std::string line;
    while (std::getline(std::cin, line)) {
        std::istringstream is(line);
        std::string op;
        is >> op;
        if (op == "case") {
            sink->drop();
            delete sink2; sink2 = nullptr;
            drop_others();
            if (!dir.isEmpty()) QDir(dir).removeRecursively();
            std::string b, s, codec = "-", tzs = "-"; long long t0; int tz = 0, q = 0, fr = 0;
            is >> L >> N >> o >> g_gran >> b >> s >> t0 >> tz >> codec >> q >> tzs >> fr;
            fluent = fr != 0;
            quiet = q != 0;
            QTextCodec::setCodecForLocale(codec == "-" || codec.empty() ? nullptr : QTextCodec::codecForName(codec.c_str()));
            g_ms = t0;
            {   // POSIX: the offset in TZ is what must be ADDED to local time to get UTC, i.e. west-positive
                char buf[32];
                int a = tz < 0 ? -tz : tz;
                snprintf(buf, sizeof buf, "VRF%c%02d:%02d", tz > 0 ? '-' : '+', a / 60, a % 60);
                setenv("TZ", tz == 0 ? "UTC" : buf, 1);
                if (tzs != "-" && !tzs.empty()) setenv("TZ", unhex(tzs).constData(), 1);
                tzset();
            }
            dir = root + QStringLiteral("/c%1").arg(ncase++);
            QDir(dir).removeRecursively();
            QDir().mkpath(dir);
            snap.clear();
            const auto suffix = QString::fromUtf8(unhex(s));
            path = dir + "/" + QString::fromUtf8(unhex(b)) + (suffix.isEmpty() ? QString() : QStringLiteral(".") + suffix);
            sink->make(fluent, path, L, N, o);
        } else if (op == "restart") {
            delete sink2; sink2 = nullptr;
            drop_others();
            sink->drop();
            sink->make(fluent, path, L, N, o);
        } else if (op == "w") {
            with_msg(is, [&](const LogMessage &m) { sink->send(m); });
            if (!quiet) sink->flush();
        } else if (op == "w2") {
            if (!sink2) sink2 = new RotatingFileSink(path, L, N, RotatingFileSink::Options(o));
            with_msg(is, [&](const LogMessage &m) { sink2->send(m); });
            sink2->flush();
        } else if (op == "wo") {
            std::string n, h; is >> n >> h;
            auto &so = others[n];
            const auto ty = mtype(is);
            int n2 = N;
            if (!(is >> n2)) n2 = N;
            if (!so) so = new RotatingFileSink(dir + "/" + QFile::decodeName(unhex(n)), L, n2, RotatingFileSink::Options(o));
            LogMessage m(ty, ctx, text(h));
            so->send(m);
            so->flush();
        } else if (op == "sparse") {
            long long n; is >> n;
            truncate(QFile::encodeName(path).constData(), n);
        } else if (op == "end") {
            delete sink2; sink2 = nullptr;
            drop_others();
            sink->drop();
            quiet = false;
        } else if (op == "adv") {
            long long d; is >> d; if (d > 0) g_ms += d;
        } else if (op == "mkdir") {
            std::string n; is >> n;
            QDir(dir).mkdir(QFile::decodeName(unhex(n)));
        } else if (op == "put") {
            std::string n, h; is >> n >> h;
            QFile f(dir + "/" + QFile::decodeName(unhex(n)));
            f.open(QIODevice::WriteOnly | QIODevice::Truncate);
            f.write(unhex(h));
            f.close();
        }
        restamp();
        if (quiet) std::cout << "-" << std::endl; else dump();
    }
    delete sink2;
    drop_others();
    sink->drop();
    if (!dir.isEmpty()) QDir(dir).removeRecursively();
    return 0;
}
