// C02 harness: N producer threads log concurrently through the REAL library — through Qt's macros against an
// installed Logger ("logger"), or by direct process() calls on a bare OwnThreadHandler<SimplePipeline> in
// synchronous mode ("bare").  The pipeline is: enter probe, random-duration handler, SeqNumberAttr,
// [DuplicateFilter], random-duration handler, recording sink.  Every probe takes a global atomic ticket, so the
// recorded events are totally ordered; the schedule-point hook (QTLOGGER_VERIF_POINT) injects seeded
// yields/sleeps and records the lock acquisitions.  One run per input line:
//     <mode> <threads> <messages per thread> <seed> <perturb 0..3> <dup 0|1> [<stall ms>]
// (stall: the first handler sleeps that long once, on message 1 of producer 0 — a handler of long duration)
// output per run:  "RUN ..." then one line of events in ticket order, tokens
//     E.<p>.<i>  pipeline entered with message i of producer p      X.<p>.<i>.<seq>  sink received it
//     L.<p>.<i>  "logger.locked" passed                              M.<p>.<i>  "own.locked" passed
// signal modes ("signal", "signalmain", "baresignal", "baresignalmain"): behind the recording sink the pipeline has two
// SignalSinks created in the main thread — one observed by a directly connected functor (= the emission itself, token
//     S.<p>.<i>.<seq>), one added by the library's own sendToSignal(receiver, SIGNAL(...)) (string-based AutoConnection) to a
// receiver QObject living in the main thread (token Q.<p>.<i>.<seq>, recorded when the receiver gets the message).  The N
// producer threads log concurrently while the main thread pumps its event queue; in the "...main" variants the main thread
// is producer number N as well (it logs and pumps in turn).
// reset modes ("resetwhile", "bareresetwhile"): the pipeline starts ASYNCHRONOUS (moveToOwnThread); while the producers keep
// logging and a backlog is queued another thread calls resetOwnThread(); the producers go on logging during the drain and
// after it (synchronous again).  Handshakes only (no timing assumptions): phase 1 free, phase 2 starts when the reset is
// about to be called, phase 3 starts when resetOwnThread() has returned.
// "twopipes": two bare pipelines A and B, each built with addSeqNumber() + its own sink; even producers log through A, odd ones
// through B; the check splits the trace by pipeline and requires consecutive numbers 0,1,2,... in delivery order PER PIPELINE.
// slow-handler reset modes ("resetslow", "bareresetslow"): the pipeline starts asynchronous; every producer logs its first half, then
// producer 0 logs the MARKER (its message number per/2), the last queued message, whose handler is slow: it sleeps <stall ms> and
// then waits (at most 3 s) until a logging call made AFTER the reset began has returned.  As soon as the worker is inside that
// handler (handshake) another thread calls resetOwnThread(); stall/4 ms later every producer logs its second half.  Nobody may
// enter the pipeline while the worker is still inside it, and those messages are delivered after the marker.
#ifdef VERIF_HEADER_ONLY
#include "qtlogger.h"
#else
#include "qtlogger/qtlogger.h"
#endif
#include <QCoreApplication>
#include <QDir>
#include <QFile>
#include <atomic>
#include <cstring>
#include <iostream>
#include <mutex>
#include <stdexcept>
#include <random>
#include <sstream>
#include <thread>
#include <vector>
#include <unistd.h>
using namespace QtLogger;

struct Ev { char kind; int prod, idx, seq; };
static std::vector<Ev> g_events;
static std::atomic<long> g_ticket{0};
static int g_perturb = 1;
static int g_stall_ms = 0;
static std::atomic<long> g_runs_worker{0}, g_runs_caller{0};   // pipeline runs entered on a thread without / with producer identity
thread_local int tl_prod = -1;
thread_local int tl_idx = -1;
thread_local std::mt19937 tl_rng;

static inline void record(char k, int p, int i, int s)
{
    long t = g_ticket.fetch_add(1, std::memory_order_relaxed);
    if (t < (long)g_events.size())
        g_events[t] = Ev { k, p, i, s };
}
static void perturb()
{
    if (g_perturb == 0)
        return;
    unsigned r = tl_rng() % 64;
    if (g_perturb >= 3 && r < 48)
        std::this_thread::yield();
    else if (r < 24)
        std::this_thread::yield();
    else if (r < 28 && g_perturb >= 2)
        usleep(tl_rng() % 60);
    else if (r < 40) {
        volatile unsigned x = 0;
        for (unsigned k = tl_rng() % 400; k; --k) x += k;
    }
}
// ThreadSanitizer build (thorough tier, supporting evidence): libQt5Core is not instrumented, so the contended path of
// QMutex / every QRecursiveMutex operation is invisible to TSan.  The happens-before edges the two mutexes provide are
// therefore announced at the schedule points that lie inside the critical sections ("*.locked" after the acquisition;
// "logger.processed" / the end of the last handler before the release).  An edge is only created when the release
// really precedes the acquire in time, so truly overlapping accesses are still reported.
#if defined(__SANITIZE_THREAD__)
extern "C" void __tsan_acquire(void *addr);
extern "C" void __tsan_release(void *addr);
static char g_tokL, g_tokM;
#define TSAN_ACQ(a) __tsan_acquire(a)
#define TSAN_REL(a) __tsan_release(a)
#else
#define TSAN_ACQ(a) do { } while (0)
#define TSAN_REL(a) do { } while (0)
#endif
extern "C" void qtlogger_verif_point(const char *name)
{
    if (!strcmp(name, "logger.locked")) TSAN_ACQ(&g_tokL);
    else if (!strcmp(name, "own.locked")) TSAN_ACQ(&g_tokM);
    else if (!strcmp(name, "logger.processed")) TSAN_REL(&g_tokL);
    if (tl_prod < 0) {
        // the worker thread / the thread inside resetOwnThread(): no producer identity, but the schedule is perturbed there too
        if (!strncmp(name, "worker.", 7) || !strncmp(name, "reset.", 6)) perturb();
        return;
    }
    if (!strcmp(name, "logger.locked"))
        record('L', tl_prod, tl_idx, 0);
    else if (!strcmp(name, "own.locked"))
        record('M', tl_prod, tl_idx, 0);
    perturb();
}
static void parse(const LogMessage &m, int &p, int &i)
{
    p = i = -1;
    sscanf(m.message().toUtf8().constData(), "%d %d", &p, &i);
}
struct EnterProbe : Handler {
    bool process(LogMessage &m) override
    {
        int p, i; parse(m, p, i); record('E', p, i, 0);
        if (tl_prod < 0) g_runs_worker++; else g_runs_caller++;
        return true;
    }
};
struct RandomWork : Handler {   // a handler of random duration
    bool stalls = false;
    bool process(LogMessage &m) override
    {
        if (stalls && g_stall_ms > 0) {
            int p, i; parse(m, p, i);
            if (p == 0 && i == 1) usleep(g_stall_ms * 1000);
        }
        unsigned r = tl_rng() % 16;
        if (r < 5) std::this_thread::yield();
        else if (r < 6 && g_perturb >= 2) usleep(tl_rng() % 80);
        else if (r < 12) { volatile unsigned x = 0; for (unsigned k = tl_rng() % 2000; k; --k) x += k; }
        return true;
    }
};
struct HoldOnMarker : Handler {   // the handler of long duration of the resetslow modes
    int marker = 0;
    std::atomic<bool> entered{false};
    std::atomic<int> late_returned{0};
    bool process(LogMessage &m) override
    {
        int p, i; parse(m, p, i);
        if (p == 0 && i == marker && !entered.exchange(true)) {
            usleep((g_stall_ms > 0 ? g_stall_ms : 400) * 1000);
            for (int k = 0; k < 3000 && late_returned.load() == 0; k++) usleep(1000);
        }
        return true;
    }
};
struct SlowWork : Handler {     // a handler that takes 50..350 us: lets a backlog build up in front of a worker thread
    bool process(LogMessage &) override { usleep(50 + tl_rng() % 300); return true; }
};
static void record_msg(char kind, const LogMessage &m)
{
    int p, i; parse(m, p, i);
    QVariant v = m.attribute("seq_number");
    record(kind, p, i, v.isValid() ? v.toInt() : -1);
}
struct RecSink : Sink {
    void send(const LogMessage &m) override
    {
        int p, i; parse(m, p, i);
        QVariant v = m.attribute("seq_number");
        record('X', p, i, v.isValid() ? v.toInt() : -1);
        TSAN_REL(&g_tokM);      // last handler of the pipeline: still inside the critical section of the handler mutex
    }
    bool flush() override
    {
        record('F', tl_prod, tl_idx, 0);
        unsigned r = tl_rng() % 8;
        if (r < 3) std::this_thread::yield();
        else { volatile unsigned x = 0; for (unsigned k = tl_rng() % 3000; k; --k) x += k; }
        record('G', tl_prod, tl_idx, 0);
        return true;
    }
};
struct ThrowOnMarker : Handler {
    bool process(LogMessage &m) override
    {
        if (m.message() == QLatin1String("throw")) throw std::runtime_error("handler failed");
        return true;
    }
};
struct EnterExitSink : Sink {      // for pipelines built with the fluent API: entry and delivery recorded by the sink itself
    void send(const LogMessage &m) override
    {
        int p, i; parse(m, p, i);
        record('E', p, i, 0);
        QVariant v = m.attribute("seq_number");
        record('X', p, i, v.isValid() ? v.toInt() : -1);
    }
};
static std::mutex g_fmt_mx;
static long g_fmt_checked = 0, g_fmt_bad = 0;
static std::string g_fmt_first;
struct FmtSink : Sink {
    char tag; QString pre, post; bool calibrating = true;
    explicit FmtSink(char t) : tag(t) { }
    void send(const LogMessage &m) override
    {
        const QString got = m.formattedMessage();
        if (calibrating) {        // single-threaded: learn what this pipeline's formatter puts around the message text
            int at = got.indexOf(m.message());
            pre = got.left(at); post = got.mid(at + m.message().size());
            return;
        }
        const QString want = pre + m.message() + post;
        std::lock_guard<std::mutex> l(g_fmt_mx);
        g_fmt_checked++;
        if (got != want) {
            if (!g_fmt_bad++) {
                int p, i; parse(m, p, i);
                g_fmt_first = std::string(1, tag) + ":" + std::to_string(p) + ":" + std::to_string(i) + ":" +
                              got.toUtf8().toHex().constData() + ":" + want.toUtf8().toHex().constData();
            }
        }
    }
};
template <class P> static void build(P &pl, bool dup)
{
    auto first = QSharedPointer<RandomWork>::create();
    first->stalls = true;
    pl << QSharedPointer<EnterProbe>::create() << first << SeqNumberAttrPtr::create();
    if (dup) pl << DuplicateFilterPtr::create();
    pl << QSharedPointer<RandomWork>::create() << QSharedPointer<RecSink>::create();
}
int main(int argc, char **argv)
{
    QCoreApplication app(argc, argv);
    std::string line;
    while (std::getline(std::cin, line)) {
        std::istringstream is(line);
        std::string mode; int n = 2, per = 10, dup = 0; unsigned seed = 1;
        g_stall_ms = 0;
        is >> mode >> n >> per >> seed >> g_perturb >> dup >> g_stall_ms;
        if (mode.empty()) continue;
        g_events.assign((size_t)(n + 1) * per * 10 + 64, Ev { '?', 0, 0, 0 });
        g_ticket = 0; g_runs_worker = 0; g_runs_caller = 0;
        std::atomic<int> ready{0};
        int nbar = n;            // threads that start together (n + 1 when the main thread produces too)
        auto producer = [&](int p, std::function<void(int, int)> send_one) {
            tl_prod = p; tl_rng.seed(seed * 7919u + p * 104729u + 17);
            ready++; while (ready.load() < nbar) std::this_thread::yield();     // start together
            for (int i = 0; i < per; i++) { tl_idx = i; send_one(p, i); if (tl_rng() % 8 == 0) perturb(); }
            tl_prod = -1;
        };
        std::vector<std::thread> ths;
        std::atomic<bool> finished{false};
        g_fmt_checked = g_fmt_bad = 0; g_fmt_first.clear();
        auto dump_run = [&](const char *extra) {
            long cnt = std::min<long>(g_ticket.load(), (long)g_events.size());
            std::ostringstream o;
            o << "RUN " << mode << " " << n << " " << per << " " << seed << " " << g_perturb << " " << dup
              << " events=" << g_ticket.load() << (g_ticket.load() > (long)g_events.size() ? " OVERFLOW" : "") << extra;
            if (mode.find("reset") != std::string::npos) o << " worker_runs=" << g_runs_worker.load() << " caller_runs=" << g_runs_caller.load();
            if (mode == "pattern") o << " fmt_checked=" << g_fmt_checked << " fmt_bad=" << g_fmt_bad << " first_bad=" << (g_fmt_first.empty() ? "-" : g_fmt_first);
            o << "\n";
            for (long k = 0; k < cnt; k++) {
                const Ev &e = g_events[k];
                o << e.kind << "." << e.prod << "." << e.idx;
                if (e.kind == 'X' || e.kind == 'S' || e.kind == 'Q') o << "." << e.seq;
                o << " ";
            }
            std::cout << o.str() << std::endl;
        };
        if (mode == "throw" || mode == "throwlogger") {
            std::thread([&] {        // watchdog: a handler mutex left locked blocks every later message for ever
                for (int k = 0; k < 80 && !finished.load(); k++) usleep(100 * 1000);
                if (!finished.load()) { dump_run(" HANG"); fflush(stdout); _exit(0); }
            }).detach();
        }
        if (mode == "throw" || mode == "throwlogger") {
            OwnThreadHandler<SimplePipeline> h;
            Logger lg;
            const bool viaLogger = mode == "throwlogger";
            SimplePipeline &pl = viaLogger ? static_cast<SimplePipeline &>(lg) : static_cast<SimplePipeline &>(h);
            pl << QSharedPointer<ThrowOnMarker>::create();
            if (viaLogger) build(lg, dup); else build(h, dup);
            for (int p = 0; p < n; p++)
                ths.emplace_back(producer, p, [&](int p, int i) {
                    QMessageLogContext ctx("throw.cpp", i, "void thrower()", "default");
                    const QString text = QString::number(p) + QLatin1Char(' ') + QString::number(i);
                    if (viaLogger) lg.processMessage((i & 1) ? QtWarningMsg : QtInfoMsg, ctx, text);
                    else { LogMessage m((i & 1) ? QtWarningMsg : QtInfoMsg, ctx, text); h.process(m); }
                    if (p == 0 && i == 0) {          // the marker: the user handler throws, the caller catches and goes on
                        tl_idx = -1;
                        try {
                            if (viaLogger) lg.processMessage(QtWarningMsg, ctx, QStringLiteral("throw"));
                            else { LogMessage m(QtWarningMsg, ctx, QStringLiteral("throw")); h.process(m); }
                        } catch (const std::exception &) { }
                    }
                });
            for (auto &t : ths) t.join();
        } else if (mode == "filtered") {
            OwnThreadHandler<SimplePipeline> h;
            h.filterLevel(QtWarningMsg).addSeqNumber();
            h << QSharedPointer<RandomWork>::create() << QSharedPointer<EnterExitSink>::create();
            for (int p = 0; p < n; p++)
                ths.emplace_back(producer, p, [&h](int p, int i) {
                    QMessageLogContext ctx("filtered.cpp", i, "void filtered()", "default");
                    if (i % 2 == 0) {      // below the level: must be rejected by the filter and must not consume a sequence number
                        LogMessage low((i & 2) ? QtDebugMsg : QtInfoMsg, ctx, QString::number(p) + QStringLiteral(" -1"));
                        h.process(low);
                    }
                    LogMessage m((i & 1) ? QtCriticalMsg : QtWarningMsg, ctx, QString::number(p) + QLatin1Char(' ') + QString::number(i));
                    h.process(m);
                });
            for (auto &t : ths) t.join();
        } else if (mode == "twopipes") {
            // TWO pipeline objects in one process, each configured through the fluent helper addSeqNumber() and each with its own
            // collecting sink; producers with an even number log through pipeline A, the others through pipeline B (different
            // locks: runs of A and B may overlap, runs of one pipeline may not).  Each pipeline numbers ITS OWN deliveries 0,1,2,...
            OwnThreadHandler<SimplePipeline> a, b;
            a.addSeqNumber(); b.addSeqNumber();
            a << QSharedPointer<RandomWork>::create() << QSharedPointer<EnterExitSink>::create();
            b << QSharedPointer<RandomWork>::create() << QSharedPointer<EnterExitSink>::create();
            for (int p = 0; p < n; p++)
                ths.emplace_back(producer, p, [&a, &b](int p, int i) {
                    QMessageLogContext ctx("twopipes.cpp", i, "void twopipes()", "default");
                    LogMessage m((i & 1) ? QtWarningMsg : QtInfoMsg, ctx, QString::number(p) + QLatin1Char(' ') + QString::number(i));
                    if (p & 1) b.process(m); else a.process(m);
                });
            for (auto &t : ths) t.join();
        } else if (mode == "filesink") {
            // round 8: a REAL file sink behind the recording sink (fluent sendToFile: the plain FileSink), a formatter that yields the
            // EMPTY text for every fifth message (a blank line is a delivery too): after the run the file must hold exactly one line
            // per delivery, every producer's lines in its program order
            const QString fpath = QDir::tempPath() + QStringLiteral("/h_conc_%1_%2.log").arg(getpid()).arg(seed);
            QFile::remove(fpath);
            long lines = 0, blank = 0, bad = 0, disorder = 0;
            {
                OwnThreadHandler<SimplePipeline> h;
                h.addSeqNumber();
                h << QSharedPointer<RandomWork>::create() << QSharedPointer<EnterExitSink>::create();
                h.format([](const LogMessage &lm) { int p, i; parse(lm, p, i); return i % 5 == 2 ? QStringLiteral("") : lm.message(); });
                h.sendToFile(fpath);
                for (int p = 0; p < n; p++)
                    ths.emplace_back(producer, p, [&h](int p, int i) {
                        QMessageLogContext ctx("filesink.cpp", i, "void filesink()", "default");
                        LogMessage m((i & 1) ? QtWarningMsg : QtInfoMsg, ctx, QString::number(p) + QLatin1Char(' ') + QString::number(i));
                        h.process(m);
                    });
                for (auto &t : ths) t.join();
                h.flush();
            }
            {
                QFile f(fpath);
                std::vector<int> last(size_t(n), -1), count(size_t(n), 0);
                if (f.open(QIODevice::ReadOnly)) {
                    while (!f.atEnd()) {
                        const QByteArray l = f.readLine();
                        if (!l.endsWith('\n')) { bad++; continue; }
                        lines++;
                        if (l.size() == 1) { blank++; continue; }
                        int p = -1, i = -1;
                        if (sscanf(l.constData(), "%d %d", &p, &i) != 2 || p < 0 || p >= n || i < 0 || i >= per || i % 5 == 2) { bad++; continue; }
                        if (i <= last[size_t(p)]) disorder++;
                        last[size_t(p)] = i; count[size_t(p)]++;
                    }
                }
                QFile::remove(fpath);
            }
            std::ostringstream ex;
            ex << " file_lines=" << lines << " file_blank=" << blank << " file_bad=" << bad << " file_disorder=" << disorder;
            dump_run(ex.str().c_str());
            ths.clear();
            continue;
        } else if (mode == "pattern") {
            Logger lg;
            OwnThreadHandler<SimplePipeline> audit;
            auto sl = QSharedPointer<FmtSink>::create('L'), sa = QSharedPointer<FmtSink>::create('A');
            lg.format(QStringLiteral("<%{user?1,1}> %{message}")); lg << sl;
            audit.format(QStringLiteral("[audit] %{message}")); audit << sa;
            {   // calibration, single-threaded
                QMessageLogContext ctx("pattern.cpp", 1, "void pattern()", "default");
                LogMessage a(QtInfoMsg, ctx, QStringLiteral("@@calib@@")), b(QtInfoMsg, ctx, QStringLiteral("@@calib@@"));
                lg.process(a); audit.process(b);
                sl->calibrating = sa->calibrating = false;
            }
            lg.installMessageHandler();
            for (int p = 0; p < n; p++)
                ths.emplace_back(producer, p, [&audit](int p, int i) {
                    if (p & 1) {
                        QMessageLogContext ctx("pattern.cpp", i, "void audit()", "default");
                        LogMessage m(QtInfoMsg, ctx, QString::number(p) + QLatin1Char(' ') + QString::number(i));
                        audit.process(m);
                    } else qInfo("%d %d", p, i);
                });
            for (auto &t : ths) t.join();
            Logger::restorePreviousMessageHandler();
#ifndef VERIF_HEADER_ONLY      // (SignalSink needs its moc unit: not in the single-header ThreadSanitizer build)
        } else if (mode == "signal" || mode == "signalmain" || mode == "baresignal" || mode == "baresignalmain") {
            const bool bare = mode.compare(0, 4, "bare") == 0, withMain = mode.size() > 4 && mode.compare(mode.size() - 4, 4, "main") == 0;
            Logger lg;
            OwnThreadHandler<SimplePipeline> h;
            SimplePipeline &pl = bare ? static_cast<SimplePipeline &>(h) : static_cast<SimplePipeline &>(lg);
            if (bare) build(h, dup); else build(lg, dup);
            // (1) a SignalSink living in the main thread, observed by a DIRECTLY connected functor: the emission itself
            auto direct = SignalSinkPtr::create();
            QObject::connect(direct.data(), &SignalSink::message, [](const LogMessage &m) { record_msg('S', m); });
            pl.append(direct.staticCast<Sink>());
            // (2) the library's sendToSignal(): string-based AutoConnection to a receiver QObject living in the main thread
            // (the receiver is a QObject with a signal of the right signature; what it receives is observed by a functor
            // directly connected to that signal, i.e. run in the receiver's thread at the moment of reception)
            SignalSink receiver;
            QObject::connect(&receiver, &SignalSink::message, [](const LogMessage &m) { record_msg('Q', m); });
            pl.sendToSignal(&receiver, SIGNAL(message(QtLogger::LogMessage)));
            if (!bare) lg.installMessageHandler();
            auto send = [&](int p, int i) {
                if (bare) {
                    QMessageLogContext ctx("signal.cpp", i, "void signalled()", "default");
                    LogMessage m((i & 1) ? QtWarningMsg : QtInfoMsg, ctx, QString::number(p) + QLatin1Char(' ') + QString::number(i));
                    h.process(m);
                } else if (i & 1) qWarning("%d %d", p, i); else qInfo("%d %d", p, i);
            };
            std::atomic<int> done{0};
            nbar = n + (withMain ? 1 : 0);
            for (int p = 0; p < n; p++)
                ths.emplace_back([&, p] { producer(p, send); done++; });
            if (withMain) {          // the main thread (where both sinks and the receiver live) logs too, and pumps in turn
                tl_prod = n; tl_rng.seed(seed * 7919u + n * 104729u + 17);
                ready++; while (ready.load() < nbar) std::this_thread::yield();
                for (int i = 0; i < per; i++) {
                    tl_idx = i; send(n, i);
                    unsigned r = tl_rng() % 8;
                    if (r < 2) QCoreApplication::processEvents(); else if (r == 2) perturb();
                }
                tl_prod = -1;
            }
            while (done.load() < n) { QCoreApplication::processEvents(); usleep(100); }      // the running event loop
            for (auto &t : ths) t.join();
            for (int k = 0; k < 4; k++) { QCoreApplication::sendPostedEvents(); QCoreApplication::processEvents(); }
            if (!bare) Logger::restorePreviousMessageHandler();
#endif
        } else if (mode == "resetwhile" || mode == "bareresetwhile") {
            const bool bare = mode == "bareresetwhile";
            Logger lg;
            OwnThreadHandler<SimplePipeline> h;
            OwnThreadHandler<SimplePipeline> &oh = bare ? h : static_cast<OwnThreadHandler<SimplePipeline> &>(lg);
            oh << QSharedPointer<EnterProbe>::create() << QSharedPointer<SlowWork>::create() << SeqNumberAttrPtr::create();
            if (dup) oh << DuplicateFilterPtr::create();
            oh << QSharedPointer<RandomWork>::create() << QSharedPointer<RecSink>::create();
            oh.moveToOwnThread();
            if (!bare) lg.installMessageHandler();
            const int a = per * 2 / 5, b = std::max(a, per * 4 / 5);
            std::atomic<int> posted{0};
            std::atomic<bool> reset_started{false}, reset_done{false};
            for (int p = 0; p < n; p++)
                ths.emplace_back(producer, p, [&](int p, int i) {
                    if (i == a) while (!reset_started.load()) usleep(50);
                    if (i == b) while (!reset_done.load()) usleep(100);
                    if (i >= a && i < b) usleep(tl_rng() % 300);       // paced: spans the drain
                    if (bare) {
                        QMessageLogContext ctx("reset.cpp", i, "void resetting()", "default");
                        LogMessage m((i & 1) ? QtWarningMsg : QtInfoMsg, ctx, QString::number(p) + QLatin1Char(' ') + QString::number(i));
                        h.process(m);
                    } else if (i & 1) qWarning("%d %d", p, i); else qInfo("%d %d", p, i);
                    posted++;
                });
            std::thread resetter([&] {
                while (posted.load() < n * a) usleep(50);      // every producer has finished phase 1: a backlog is queued
                reset_started = true;
                oh.resetOwnThread();
                reset_done = true;
            });
            for (auto &t : ths) t.join();
            resetter.join();
            if (!bare) Logger::restorePreviousMessageHandler();
        } else if (mode == "resetslow" || mode == "bareresetslow") {
            const bool bare = mode == "bareresetslow";
            Logger lg;
            OwnThreadHandler<SimplePipeline> h;
            OwnThreadHandler<SimplePipeline> &oh = bare ? h : static_cast<OwnThreadHandler<SimplePipeline> &>(lg);
            auto hold = QSharedPointer<HoldOnMarker>::create();
            const int a = std::max(1, per / 2);
            hold->marker = a;
            oh << QSharedPointer<EnterProbe>::create() << hold << SeqNumberAttrPtr::create();
            if (dup) oh << DuplicateFilterPtr::create();
            oh << QSharedPointer<RandomWork>::create() << QSharedPointer<RecSink>::create();
            oh.moveToOwnThread();
            if (!bare) lg.installMessageHandler();
            std::atomic<int> posted{0};
            std::atomic<bool> reset_started{false}, reset_done{false};
            const int gap_us = (g_stall_ms > 0 ? g_stall_ms : 400) * 1000 / 4;
            for (int p = 0; p < n; p++)
                ths.emplace_back(producer, p, [&](int p, int i) {
                    const bool marker = p == 0 && i == a;
                    if (marker) while (posted.load() < n * a) usleep(50);              // everything else of phase 1 is queued in front of it
                    const bool late = i >= a && !marker;
                    if (late && i == a + (p == 0 ? 1 : 0)) {                            // first message of the second half
                        while (!reset_started.load()) usleep(50);
                        usleep(gap_us);                                                 // resetOwnThread() is under way, the worker inside the marker
                    }
                    if (bare) {
                        QMessageLogContext ctx("reset.cpp", i, "void resetting()", "default");
                        LogMessage m((i & 1) ? QtWarningMsg : QtInfoMsg, ctx, QString::number(p) + QLatin1Char(' ') + QString::number(i));
                        h.process(m);
                    } else if (i & 1) qWarning("%d %d", p, i); else qInfo("%d %d", p, i);
                    if (late) hold->late_returned++;
                    posted++;
                });
            std::thread resetter([&] {
                for (int k = 0; k < 20000 && !hold->entered.load(); k++) usleep(500);     // the worker is inside the slow handler of the last queued message
                reset_started = true;
                oh.resetOwnThread();
                reset_done = true;
            });
            for (auto &t : ths) t.join();
            resetter.join();
            if (!bare) Logger::restorePreviousMessageHandler();
        } else if (mode == "logger" || mode == "mixed" || mode == "fatal" || mode == "mixed+fatal") {
            Logger lg;
            build(lg, dup);
            lg.installMessageHandler();
            // "mixed+fatal": both at once — odd producers call process() directly while producer 0 logs fatal-level messages
            const bool mixed = mode == "mixed" || mode == "mixed+fatal", fatal = mode == "fatal" || mode == "mixed+fatal";
            for (int p = 0; p < n; p++)
                ths.emplace_back(producer, p, [&lg, mixed, fatal](int p, int i) {
                    if (mixed && (p & 1)) {          // the public entry point of the same Logger
                        QMessageLogContext ctx("mixed.cpp", i, "void direct()", "default");
                        LogMessage m((i & 1) ? QtWarningMsg : QtInfoMsg, ctx, QString::number(p) + QLatin1Char(' ') + QString::number(i));
                        lg.process(m);
                    } else if (fatal && p == 0 && i % 3 == 0) {
                        QMessageLogContext ctx("fatal.cpp", i, "void dying()", "default");
                        Logger::messageHandler(QtFatalMsg, ctx, QString::number(p) + QLatin1Char(' ') + QString::number(i));
                    } else if (i & 1) qWarning("%d %d", p, i); else qInfo("%d %d", p, i);
                });
            for (auto &t : ths) t.join();
            Logger::restorePreviousMessageHandler();
        } else {
            OwnThreadHandler<SimplePipeline> h;
            build(h, dup);
            for (int p = 0; p < n; p++)
                ths.emplace_back(producer, p, [&h](int p, int i) {
                    QMessageLogContext ctx("bare.cpp", i, "void bare()", "default");
                    LogMessage m((i & 1) ? QtWarningMsg : QtInfoMsg, ctx, QString::number(p) + QLatin1Char(' ') + QString::number(i));
                    h.process(m);
                });
            for (auto &t : ths) t.join();
        }
        finished = true;
        dump_run("");
    }
    return 0;
}
