// C16 harness: builds the REAL LevelFilter / DuplicateFilter / RegExpFilter / SeqNumberAttr objects of a
// scenario, places them (shared where the scenario says so) into real Pipeline objects with a probe
// after every handler, sends the messages through Pipeline::process and prints, per message, the
// handler calls that happened: verdict, and for a SeqNumberAttr the attribute value right after it.
// A message may name the harness thread (0 = main, 1..3 = persistent workers) that constructs and sends it;
// execution stays sequential.  Line protocol: see ocaml/drv_filters.ml.  mode "level": "<min> <type>" -> verdict of LevelFilter(min).
// A lower-case object kind (o:d, o:n, o:v<t>, o:r<ast>~<hex>) obtains the handler through the FLUENT API instead of
// constructing the class: SimplePipeline::filterDuplicate() / addSeqNumber(name) / filterLevel(t) / filter(regexp) is
// called on a scratch SimplePipeline and the object of the scenario is "whatever that call installed" (the handlers the
// scratch pipeline then holds, run in order, stopping at the first that says no).  mode "flevel": "<min> <type>" ->
// verdict of what SimplePipeline::filterLevel(min) installed.
#ifdef VERIF_HEADER_ONLY
#include "qtlogger.h"
#else
#include "qtlogger/qtlogger.h"
#endif
#include <iostream>
#include <sstream>
#include <string>
#include <vector>
#include <clocale>
#include <thread>
#include <chrono>
#include <mutex>
#include <condition_variable>
#include <functional>
using namespace QtLogger;

static QtMsgType mt(int t) { return static_cast<QtMsgType>(t); }
struct FmtConst : Formatter { QString format(const LogMessage &) override { return QStringLiteral("X"); } };
struct FmtTag : Formatter {
    QString format(const LogMessage &m) override { return m.formattedMessage() + QChar(256 + m.line()); }
};
struct Drop : Filter {
    int bit; explicit Drop(int b) : bit(b) {}
    bool filter(const LogMessage &m) override { return !((m.line() >> bit) & 1); }
};
// what a fluent SimplePipeline call installed, as one handler object of the scenario
struct Fluent : Handler {
    SimplePipelinePtr sp;
    explicit Fluent(const SimplePipelinePtr &p) : sp(p) {}
    bool process(LogMessage &m) override
    {
        const QList<HandlerPtr> hs = static_cast<const Pipeline &>(*sp).handlers();
        for (const auto &h : hs) if (h && !h->process(m)) return false;
        return true;
    }
};
struct Rec { std::vector<std::string> calls; };
// placed after handler number k of a pipeline: being reached means that handler returned true
struct Probe : Handler {
    Rec *rec; int seqObj; // >=0: the preceding handler is SeqNumberAttr object number seqObj
    Probe(Rec *r, int s) : rec(r), seqObj(s) {}
    bool process(LogMessage &m) override
    {
        std::string s = "1";
        if (seqObj >= 0) {
            QVariant v = m.attribute(QStringLiteral("s%1").arg(seqObj));
            s += "=" + (v.isValid() && v.type() == QVariant::Int ? std::to_string(v.toInt()) : std::string("?"));
        }
        rec->calls.push_back(s);
        return true;
    }
};
// A persistent worker thread (stable thread id): run(f) hands f over and waits until it has finished,
// so a scenario is executed strictly sequentially whatever thread each message is logged from.
class Worker {
    std::mutex mu; std::condition_variable cv; std::function<void()> job; bool busy = false, quit = false;
    std::thread th; // declared last: the thread may start only after the members above exist
public:
    Worker() : th([this] {
        std::unique_lock<std::mutex> lk(mu);
        for (;;) {
            cv.wait(lk, [this] { return busy || quit; });
            if (quit) return;
            job(); busy = false; cv.notify_all();
        }
    }) {}
    void run(std::function<void()> f)
    {
        std::unique_lock<std::mutex> lk(mu);
        job = std::move(f); busy = true; cv.notify_all();
        cv.wait(lk, [this] { return !busy; });
    }
    ~Worker() { { std::lock_guard<std::mutex> lk(mu); quit = true; } cv.notify_all(); th.join(); }
};
static const int NWORKERS = 3;
static void onThread(Worker *pool, int tag, const std::function<void()> &f)
{
    if (tag <= 0) f(); else pool[(tag - 1) % NWORKERS].run(f);
}
static QString unitsOf(const std::string &h)
{
    if (h == "-") return QString();
    QString s = QStringLiteral(""); // empty, not null
    for (size_t i = 0; i + 4 <= h.size(); i += 4) s += QChar(static_cast<ushort>(std::stoul(h.substr(i, 4), nullptr, 16)));
    return s;
}
static QString bytesOf(const std::string &h)
{
    QByteArray b;
    for (size_t i = 0; i + 2 <= h.size(); i += 2) b.append(static_cast<char>(std::stoul(h.substr(i, 2), nullptr, 16)));
    return QString::fromUtf8(b);
}
static std::vector<std::string> split(const std::string &s, char c)
{
    std::vector<std::string> r; std::string cur;
    for (char x : s) { if (x == c) { r.push_back(cur); cur.clear(); } else cur += x; }
    r.push_back(cur); return r;
}
int main(int argc, char **argv)
{
    std::string mode = argc > 1 ? argv[1] : "model";
    setlocale(LC_ALL, ""); // as QCoreApplication does on Unix: the environment's locale is in force
    Worker pool[NWORKERS];
    std::string line;
    while (std::getline(std::cin, line)) {
        if (mode == "level") {
            int a = 0, b = 0; std::istringstream(line) >> a >> b;
            LevelFilter f(mt(a));
            LogMessage m(mt(b), QMessageLogContext("f.cpp", 1, "fn", "cat"), QStringLiteral("x"));
            std::cout << (f.filter(m) ? "1" : "0") << "\n";
            continue;
        }
        if (mode == "flevel") {
            int a = 0, b = 0; std::istringstream(line) >> a >> b;
            auto sp = SimplePipelinePtr::create(); sp->filterLevel(mt(a));
            Fluent f(sp);
            LogMessage m(mt(b), QMessageLogContext("f.cpp", 1, "fn", "cat"), QStringLiteral("x"));
            std::cout << (f.process(m) ? "1" : "0") << "\n";
            continue;
        }
        std::vector<HandlerPtr> objs; std::vector<int> isSeq; std::vector<size_t> plen;
        std::vector<PipelinePtr> pipes; std::vector<std::vector<int>> pidx;
        Rec rec; std::ostringstream out;
        std::istringstream toks(line); std::string tok;
        while (toks >> tok) {
            std::string body = tok.substr(2);
            if (tok[0] == 'o') {
                int k = static_cast<int>(objs.size()); int seq = 0; HandlerPtr h;
                auto sp = SimplePipelinePtr::create();
                switch (body[0]) {
                case 'd': sp->filterDuplicate(); h = QSharedPointer<Fluent>::create(sp); break;
                case 'n': sp->addSeqNumber(QStringLiteral("s%1").arg(k)); h = QSharedPointer<Fluent>::create(sp); seq = 1; break;
                case 'v': sp->filterLevel(mt(std::stoi(body.substr(1)))); h = QSharedPointer<Fluent>::create(sp); break;
                case 'r': sp->filter(bytesOf(body.substr(body.find('~') + 1))); h = QSharedPointer<Fluent>::create(sp); break;
                case 'D': h = DuplicateFilterPtr::create(); break;
                case 'N': h = SeqNumberAttrPtr::create(QStringLiteral("s%1").arg(k)); seq = 1; break;
                case 'V': h = LevelFilterPtr::create(mt(std::stoi(body.substr(1)))); break;
                case 'R': {
                    QString pat = bytesOf(body.substr(body.find('~') + 1));
                    if (k % 2) h = RegExpFilterPtr::create(pat); else h = RegExpFilterPtr::create(QRegularExpression(pat));
                    break; }
                case 'F': if (body == "FC") h = QSharedPointer<FmtConst>::create(); else h = QSharedPointer<FmtTag>::create(); break;
                case 'X': h = QSharedPointer<Drop>::create(std::stoi(body.substr(1))); break;
                }
                objs.push_back(h); isSeq.push_back(seq);
            } else if (tok[0] == 'p') {
                auto p = PipelinePtr::create();
                std::vector<int> idx; int n = 0;
                for (auto &x : split(body, ',')) if (!x.empty()) {
                    int i = std::stoi(x); idx.push_back(i);
                    HandlerPtr h = i < static_cast<int>(objs.size()) ? objs[i] : HandlerPtr();
                    if (!h) continue; // null handler: Pipeline::append ignores it
                    if (pipes.size() % 2) *p << h; else p->append(h);
                    p->append(QSharedPointer<Probe>::create(&rec, isSeq[i] ? i : -1));
                    n++;
                }
                pipes.push_back(p); pidx.push_back(idx); plen.push_back(n);
            } else if (tok[0] == 'm' || tok[0] == 'a') {
                auto f = split(body, ':');
                size_t p = std::stoul(f[0]);
                QString text = unitsOf(f[3]);
                int tag = f.size() > 4 && !f[4].empty() ? std::stoi(f[4]) : 0;
                // optional 6th field: wall-clock pause (ms) before the message is constructed (the rules of C16 do not mention time)
                if (f.size() > 5 && !f[5].empty()) std::this_thread::sleep_for(std::chrono::milliseconds(std::stoi(f[5])));
                rec.calls.clear();
                size_t n = 0;
                const bool direct = tok[0] == 'a';
                // the message is constructed (LogMessage samples the thread id there) and processed on the
                // harness thread the scenario names; the call returns only when that has finished
                onThread(pool, tag, [&] {
                    LogMessage m(mt(std::stoi(f[1])), QMessageLogContext("f.cpp", std::stoi(f[2]), "fn", "cat"), text);
                    if (!direct) {
                        if (p < pipes.size()) { pipes[p]->process(m); n = plen[p]; }
                        return;
                    }
                    // step "a:": another user of the object calls its public entry point directly
                    HandlerPtr h = p < objs.size() ? objs[p] : HandlerPtr();
                    if (!h) return;
                    n = 1;
                    if (auto fw = h.dynamicCast<Fluent>()) {
                        // a fluently installed object has no other public entry point than process()
                        if (fw->process(m)) {
                            if (!isSeq[p]) { rec.calls.push_back("1"); return; }
                            QVariant v = m.attribute(QStringLiteral("s%1").arg(p));
                            rec.calls.push_back("1=" + (v.isValid() && v.type() == QVariant::Int ? std::to_string(v.toInt()) : std::string("?")));
                        }
                    } else if (auto a = h.dynamicCast<AttrHandler>()) {
                        const QVariantHash r = a->attributes(m);
                        QVariant v = r.value(QStringLiteral("s%1").arg(p));
                        rec.calls.push_back("1=" + (v.isValid() && v.type() == QVariant::Int ? std::to_string(v.toInt()) : std::string("?")));
                    } else if (auto fl = h.dynamicCast<Filter>()) {
                        if (fl->filter(m)) rec.calls.push_back("1");
                    } else if (h->process(m)) {
                        rec.calls.push_back("1");
                    }
                });
                for (size_t i = 0; i < rec.calls.size(); i++) out << (i ? "," : "") << rec.calls[i];
                if (rec.calls.size() < n) out << (rec.calls.empty() ? "" : ",") << "0"; // the handler after the last probe reached said no
                out << ";";
            }
        }
        std::cout << out.str() << "\n";
    }
}
