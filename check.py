#!/usr/bin/env python3
"""Single entry point of the /verif checks.

  python3 check.py C17 [--tier quick|thorough] [--replay <file>]

exit 0: the property held on everything explored (KNOWN-FINDING lines may be printed);
exit 1: `VIOLATION property=<id> replay=<path>[ no-failing-input-found]` was printed.
VERIF_SEED / VERIF_TIER are honoured.  evidence/<id>.json is rewritten on every run."""
import importlib, os, sys, traceback

sys.path.insert(0, os.path.dirname(os.path.abspath(__file__)))


def main(argv):
    if not argv:
        print(__doc__); return 2
    pid = argv[0].upper()
    args = argv[1:]
    tier = os.environ.get('VERIF_TIER') or 'quick'
    replay = None
    while args:
        a = args.pop(0)
        if a == '--tier':
            tier = args.pop(0)
        elif a == '--replay':
            replay = args.pop(0)
    os.environ['VERIF_TIER'] = tier if tier in ('quick', 'thorough') else 'quick'
    mod = importlib.import_module('checks.' + pid.lower())
    if replay:
        return mod.replay(replay)
    try:
        return mod.run()
    except Exception:
        # an infrastructure failure is not a verdict about the property; make it loud and non-zero
        traceback.print_exc()
        print('CHECK-ERROR property=%s (infrastructure failure, no verdict)' % pid)
        return 3


if __name__ == '__main__':
    sys.exit(main(sys.argv[1:]))
