"""Shared machinery of the /verif checks: builds (Coq, extraction, OCaml drivers, C++ harnesses
against /repo's working tree), the proof leg, differential runs, verdict protocol, evidence files,
known findings.  See DESIGN.md section 2."""
import fcntl, hashlib, json, os, random, re, subprocess, sys, time, glob, shutil, tempfile

VERIF = os.path.dirname(os.path.abspath(__file__))
REPO = os.environ.get('VERIF_REPO', '/repo')
BUILD = os.path.join(VERIF, 'build')
COQ = os.path.join(VERIF, 'coq')
TH = os.path.join(COQ, 'theories')
EVID = os.path.join(VERIF, 'evidence')
REPLAYS = os.path.join(EVID, 'replays')
NCPU = os.cpu_count() or 4

STD_AXIOMS_ALLOWED = {
    # standard-library axioms that may appear (named in DESIGN.md 2.7); the development is intended
    # to be axiom-free, so anything listed here still gets reported in the evidence.
    'functional_extensionality_dep', 'proof_irrelevance', 'JMeq_eq', 'eq_rect_eq', 'classic',
    'propositional_extensionality',
}

FORBIDDEN = re.compile(r'\b(Admitted|admit|Axiom|Axioms|Parameter|Parameters|Conjecture|Hypothesis|Variable'
                       r'|Unset\s+Guard|bypass_check|Admit\s+Obligations)\b|type-in-type|impredicative-set')


def sh(cmd, timeout=600, cwd=None, env=None, inp=None, check=False):
    """run a command (list or string), return (rc, stdout, stderr)"""
    e = dict(os.environ)
    if env:
        e.update(env)
    try:
        p = subprocess.run(cmd, shell=isinstance(cmd, str), cwd=cwd, env=e, input=inp,
                           stdout=subprocess.PIPE, stderr=subprocess.PIPE, timeout=timeout)
        rc, out, err = p.returncode, p.stdout, p.stderr
    except subprocess.TimeoutExpired as ex:
        rc, out, err = 124, ex.stdout or b'', (ex.stderr or b'') + b'\nTIMEOUT'
    if inp is None or isinstance(inp, bytes):
        out = out.decode('utf-8', 'replace')
        err = err.decode('utf-8', 'replace')
    if check and rc != 0:
        raise RuntimeError('command failed (%d): %s\n%s\n%s' % (rc, cmd, out[-2000:], err[-2000:]))
    return rc, out, err


class Lock:
    """inter-process lock around builds sharing /verif/build and coq/"""
    def __init__(self, name):
        os.makedirs(BUILD, exist_ok=True)
        self.path = os.path.join(BUILD, '.lock_' + name)

    def __enter__(self):
        self.f = open(self.path, 'w')
        fcntl.flock(self.f, fcntl.LOCK_EX)
        return self

    def __exit__(self, *a):
        fcntl.flock(self.f, fcntl.LOCK_UN)
        self.f.close()


# --------------------------------------------------------------------------------------- Coq side
def gen_src(areas):
    """regenerate Src<Area>.v from /repo; returns {area: {'ok':bool, ...}}.  When an anchor is
    missing the last committed default (coq/src_defaults) is put in place so that the rest of the
    development still builds; the caller must treat the tie as broken."""
    rc, out, err = sh([sys.executable, os.path.join(VERIF, 'tools', 'src2coq.py'), '--repo', REPO] + list(areas))
    try:
        st = json.loads(out.strip().splitlines()[-1])
    except Exception:
        st = {a: {'ok': False, 'error': 'translator crashed: ' + (err or out)[-500:]} for a in areas}
    for a, s in st.items():
        if not s.get('ok'):
            for d in glob.glob(os.path.join(COQ, 'src_defaults', 'Src%s*.v' % a.capitalize())):
                shutil.copy(d, os.path.join(TH, os.path.basename(d)))
    return st


def coq_project():
    """(re)generate _CoqProject and the coq_makefile Makefile when the set of files changed"""
    files = sorted(os.path.relpath(p, COQ) for p in glob.glob(os.path.join(TH, '*.v')))
    text = '-Q theories QtlVerif\n' + '\n'.join(files) + '\n'
    cp = os.path.join(COQ, '_CoqProject')
    old = open(cp).read() if os.path.exists(cp) else ''
    if old != text or not os.path.exists(os.path.join(COQ, 'Makefile')):
        open(cp, 'w').write(text)
        sh('coq_makefile -f _CoqProject -o Makefile', cwd=COQ, check=True)


def coq_make(targets, timeout=1500, keep_going=True, remove_first=()):
    """make the given .vo targets (paths relative to coq/); full .vo build, never -vos"""
    with Lock('coq'):
        for f in remove_first:
            if os.path.exists(f):
                os.remove(f)
        coq_project()
        # every coqc is bounded: a diverging tactic must not hold the shared build lock
        cmd = ['make', '-j%d' % NCPU, 'COQC=timeout 900 coqc'] + (['-k'] if keep_going else []) + list(targets)
        return sh(cmd, cwd=COQ, timeout=timeout, env={'TIMED': ''})


def theorem_names(vfile):
    src = open(vfile).read()
    return re.findall(r'^\s*(?:Theorem|Example)\s+([A-Za-z0-9_\']+)', src, re.M)


def strip_coq_comments(s):
    out, depth, i = [], 0, 0
    while i < len(s):
        if s.startswith('(*', i):
            depth += 1; i += 2
        elif s.startswith('*)', i) and depth:
            depth -= 1; i += 2
        else:
            if not depth:
                out.append(s[i])
            i += 1
    return ''.join(out)


def forbidden_scan(files):
    bad = []
    for f in files:
        txt = strip_coq_comments(open(f).read())
        # Variable/Hypothesis are allowed inside Sections only
        depth = 0
        for ln, line in enumerate(txt.splitlines(), 1):
            if re.match(r'\s*Section\b', line):
                depth += 1
            if re.match(r'\s*End\b', line) and depth:
                depth -= 1
            for m in FORBIDDEN.finditer(line):
                w = m.group(0)
                if w in ('Variable', 'Hypothesis') and depth > 0:
                    continue
                if re.match(r'Variables?|Hypothes[ie]s', w) and depth > 0:
                    continue
                bad.append('%s:%d: %s' % (os.path.basename(f), ln, w))
    return bad


def deps_of(vfile, seen=None):
    """transitive QtlVerif dependencies of a .v file (by its Require lines)"""
    seen = seen if seen is not None else set()
    for m in re.finditer(r'(?:QtlVerif\.)([A-Za-z0-9_]+)', strip_coq_comments(open(vfile).read())):
        p = os.path.join(TH, m.group(1) + '.v')
        if os.path.exists(p) and p not in seen:
            seen.add(p)
            deps_of(p, seen)
    return seen


def coqchk(prop_file, timeout=1200):
    """independent re-check of the compiled property file and everything it depends on; returns
    (ok, axioms list, summary text).  Thorough tier only (30-120 s)."""
    with Lock('coq'):
        rc, out, err = sh(['coqchk', '-o', '-silent', '-Q', 'theories', 'QtlVerif', 'QtlVerif.' + prop_file], cwd=COQ, timeout=timeout)
    txt = out + err
    m = re.search(r'\* Axioms:(.*?)\n\s*\n\* Constants', txt, re.S)
    axioms = []
    if m and '<none>' not in m.group(1):
        axioms = [a.strip() for a in m.group(1).strip().splitlines() if a.strip()]
    unsafe = []
    for key in ('type-in-type', 'unsafe (co)fixpoints', 'positivity is assumed'):
        mm = re.search(re.escape(key) + r':(.*?)(?:\n\s*\n|\Z)', txt, re.S)
        if mm and '<none>' not in mm.group(1):
            unsafe.append(key + ': ' + ' '.join(mm.group(1).split()))
    return rc == 0 and not unsafe, axioms, txt[-1500:]


def proof_leg(prop_file, areas=(), thorough=None):
    """Re-check the property theorems against the freshly regenerated source constants.
    Returns dict(ok, obligations, discharged, theorems, translator, errors, checker_cmd, axioms)."""
    t0 = time.time()
    res = {'ok': False, 'errors': [], 'translator': {}, 'theorems': [], 'axioms': []}
    if areas:
        res['translator'] = gen_src(areas)
        for a, s in res['translator'].items():
            if not s.get('ok'):
                res['errors'].append('translator[%s]: %s' % (a, s.get('error')))
    vfile = os.path.join(TH, prop_file + '.v')
    names = theorem_names(vfile)
    res['obligations'] = len(names)
    target = 'theories/%s.vo' % prop_file
    vo = os.path.join(COQ, target)
    # always re-check the property file itself (prints the assumptions); removed under the build lock
    rc, out, err = coq_make([target], remove_first=[vo])
    res['checker_cmd'] = 'python3 tools/src2coq.py %s && cd coq && coq_makefile -f _CoqProject -o Makefile && make -k -j%d %s' % (
        ' '.join(areas), NCPU, target)
    log = out + '\n' + err
    res['log_tail'] = log[-3000:]
    if rc != 0 or not os.path.exists(vo):
        res['discharged'] = 0
        m = re.search(r'File "([^"]+)", line (\d+), characters [\d-]+:\s*\n(Error:.*?)(?:\n\n|\nmake|\Z)', log, re.S)
        if m:
            f, ln, msg = m.group(1), int(m.group(2)), m.group(3)
            where = os.path.basename(f)
            thm = None
            try:
                lines = open(os.path.join(COQ, f) if not os.path.isabs(f) else f).read().splitlines()
                for k in range(min(ln, len(lines)) - 1, -1, -1):
                    mm = re.match(r'\s*(?:Theorem|Lemma|Example|Definition|Corollary)\s+([A-Za-z0-9_\']+)', lines[k])
                    if mm:
                        thm = mm.group(1); break
            except Exception:
                pass
            res['failed_at'] = {'file': where, 'line': ln, 'theorem': thm, 'message': re.sub(r'\s+', ' ', msg)[:600]}
            res['errors'].append('proof obligation no longer checks: %s (%s:%d): %s' % (thm, where, ln, re.sub(r'\s+', ' ', msg)[:300]))
        else:
            res['errors'].append('coq build failed: ' + log[-600:])
    else:
        # Print Assumptions output, in order of appearance
        blocks = re.findall(r'(Closed under the global context|Axioms:\n(?:.+\n?)+?(?=\n|\Z))', log)
        ax = []
        for b in blocks:
            if b.startswith('Axioms:'):
                ax += re.findall(r'^\s*([A-Za-z0-9_.\']+)\s*:', b, re.M)
        res['axioms'] = sorted(set(ax))
        res['assumption_reports'] = len(blocks)
        res['closed_reports'] = sum(1 for b in blocks if b.startswith('Closed'))
        not_allowed = [a for a in res['axioms'] if a.split('.')[-1] not in STD_AXIOMS_ALLOWED]
        if not_allowed:
            res['errors'].append('axioms outside the stated trusted base: ' + ', '.join(not_allowed))
        res['discharged'] = len(names)
    if thorough is None:
        thorough = os.environ.get('VERIF_TIER') == 'thorough'
    if thorough and not res['errors']:
        ok, axs, summary = coqchk(prop_file)
        res['coqchk'] = {'ok': ok, 'axioms': axs}
        res['checker_cmd'] += ' && coqchk -o -silent -Q theories QtlVerif QtlVerif.' + prop_file
        if not ok:
            res['errors'].append('coqchk rejects the compiled development: ' + summary[-400:])
        bad_ax = [a for a in axs if a.split('.')[-1] not in STD_AXIOMS_ALLOWED]
        if bad_ax:
            res['errors'].append('coqchk reports axioms outside the stated trusted base: ' + ', '.join(bad_ax))
    files = sorted(deps_of(vfile) | {vfile})
    bad = forbidden_scan(files)
    if bad:
        res['errors'].append('forbidden vernacular: ' + '; '.join(bad[:10]))
    res['theorems'] = names
    res['files'] = [os.path.basename(f) for f in files]
    res['ok'] = not res['errors']
    res['wall_s'] = round(time.time() - t0, 2)
    return res


# ------------------------------------------------------------------------ extraction / executables
def _digest(paths, extra=''):
    h = hashlib.sha256(extra.encode())
    for p in sorted(paths):
        h.update(p.encode())
        try:
            h.update(open(p, 'rb').read())
        except FileNotFoundError:
            h.update(b'<missing>')
    return h.hexdigest()


def build_model(name):
    """Extract coq/extract/Ex_<name>.v (ExtrOcamlBasic only) and link it with ocaml/drv_<name>.ml
    into build/m_<name>.  Rebuilt whenever the extraction file, the driver or any .v it depends on
    changed."""
    ex = os.path.join(COQ, 'extract', 'Ex_%s.v' % name)
    drv = os.path.join(VERIF, 'ocaml', 'drv_%s.ml' % name)
    exe = os.path.join(BUILD, 'm_' + name)
    deps = sorted(deps_of(ex))
    with Lock('model_' + name):
        dg = _digest([ex, drv] + deps)
        stamp = exe + '.digest'
        if os.path.exists(exe) and os.path.exists(stamp) and open(stamp).read() == dg:
            return exe
        rc, out, err = coq_make(['theories/%s.vo' % os.path.splitext(os.path.basename(d))[0] for d in deps], keep_going=False)
        if rc != 0:
            raise RuntimeError('model %s: dependencies do not build:\n%s' % (name, (out + err)[-1500:]))
        wd = os.path.join(BUILD, 'ex_' + name)
        shutil.rmtree(wd, ignore_errors=True)
        os.makedirs(wd)
        sh(['coqc', '-Q', TH, 'QtlVerif', ex, '-o', os.path.join(wd, 'Ex_%s.vo' % name)], cwd=wd, check=True, timeout=600)
        mls = sorted(glob.glob(os.path.join(wd, '*.ml')))
        mlis = sorted(glob.glob(os.path.join(wd, '*.mli')))
        shutil.copy(drv, os.path.join(wd, 'drv.ml'))
        sh(['ocamlfind', 'ocamlopt', '-w', '-a'] + [os.path.basename(x) for x in mlis + mls] + ['drv.ml', '-o', exe],
           cwd=wd, check=True, timeout=600)
        open(stamp, 'w').write(dg)
    return exe


def build_harness(name, variant=''):
    """build build/h_<name>[.san|.hdr] against /repo's current sources (make tracks dependencies)"""
    tgt = os.path.join(BUILD, 'h_' + name + (('.' + variant) if variant else ''))
    with Lock('harness'):
        rc, out, err = sh(['make', '-j%d' % NCPU, '-f', os.path.join(VERIF, 'harness', 'Makefile'),
                           'REPO=' + REPO, 'BUILD=' + BUILD, tgt], cwd=os.path.join(VERIF, 'harness'), timeout=900)
    if rc != 0:
        raise RuntimeError('harness %s does not build against %s:\n%s' % (name, REPO, (out + err)[-3000:]))
    return tgt


def run_lines(exe, lines, args=(), timeout=600, env=None, cwd=None):
    """feed lines on stdin, get stdout lines"""
    data = ('\n'.join(lines) + '\n').encode()
    rc, out, err = sh([exe] + list(args), inp=data, timeout=timeout, env=env, cwd=cwd)
    return rc, out.splitlines(), err



# ------------------------------------------------------------------ change-aware search budget
# The quick tier is what runs on every change.  When the library source the property depends on
# differs (token-wise: comments and white space ignored) from the tree the models were last
# validated against (src_baseline.json, committed), the quick run uses the thorough tier's search
# budget for its correspondence / oracle legs (more seeds, bigger scopes, sanitizer legs) - the
# proofs and translators run identically in both cases and coqchk stays in the thorough tier.
# This changes how hard the check looks, never what counts as a violation.
def _norm_source(text, cpp=True):
    if not cpp:
        return text
    out, i, n = [], 0, len(text)
    while i < n:
        c = text[i]
        if text.startswith('//', i):
            j = text.find('\n', i)
            i = n if j < 0 else j
        elif text.startswith('/*', i):
            j = text.find('*/', i + 2)
            i = n if j < 0 else j + 2
            out.append(' ')
        elif c in '"\'':
            j = i + 1
            while j < n and text[j] != c:
                j += 2 if text[j] == '\\' else 1
            out.append(text[i:j + 1]); i = j + 1
        else:
            out.append(c); i += 1
    return re.sub(r'\s+', ' ', ''.join(out)).strip()


def source_fingerprint(repo=None):
    repo = repo or REPO
    fp = {}
    pats = ['src/qtlogger/**/*.h', 'src/qtlogger/**/*.cpp', 'qtlogger.h', 'tools/gen_qtlogger.h.py']
    for pat in pats:
        for f in glob.glob(os.path.join(repo, pat), recursive=True):
            rel = os.path.relpath(f, repo)
            try:
                txt = open(f, encoding='utf-8', errors='replace').read()
            except OSError:
                continue
            fp[rel] = hashlib.sha256(_norm_source(txt, not rel.endswith('.py')).encode('utf-8', 'replace')).hexdigest()[:24]
    return fp


def changed_files():
    """files whose token text differs from the validated baseline (or that were added/removed)"""
    try:
        base = json.load(open(os.path.join(VERIF, 'src_baseline.json')))['files']
    except Exception:
        return []
    cur = source_fingerprint()
    return sorted(f for f in set(base) | set(cur) if base.get(f) != cur.get(f))


# files every property depends on besides its own anchors
_SHARED = ['src/qtlogger/logmessage.h', 'src/qtlogger/handler.h', 'src/qtlogger/pipeline.cpp', 'src/qtlogger/pipeline.h',
           'src/qtlogger/utils.cpp', 'src/qtlogger/utils.h', 'src/qtlogger/logger_global.h']
_EXTRA = {
    'C02': ['src/qtlogger/simplepipeline.cpp', 'src/qtlogger/sinks/', 'src/qtlogger/formatters/patternformatter.cpp'],
    'C03': ['src/qtlogger/simplepipeline.cpp'],
    'C04': ['src/qtlogger/simplepipeline.cpp'],
    'C11': ['src/qtlogger/sinks/rotatingfilesink.cpp', 'src/qtlogger/configure.cpp', 'src/qtlogger/ownthreadhandler.h'],
    'C12': ['src/qtlogger/formatters/patternformatter.h', 'src/qtlogger/messagepatterns.h'],
    'C14': ['src/qtlogger/filters/', 'src/qtlogger/formatters/'],
    'C16': ['src/qtlogger/filters/', 'src/qtlogger/attrhandlers/', 'src/qtlogger/simplepipeline.cpp'],
    'C19': ['src/qtlogger/'],
    'C20': ['src/qtlogger/', 'qtlogger.h', 'tools/gen_qtlogger.h.py'],
}


def relevant_changes(pid, changed):
    if not changed:
        return []
    pref = list(_SHARED) + _EXTRA.get(pid, [])
    covered = set()
    try:
        for l in open(os.path.join(VERIF, 'properties.jsonl')):
            p = json.loads(l)
            fs = [f for f in p.get('anchors', {}).get('files', [])]
            covered.update(fs)
            if p['id'] == pid:
                pref += fs
                for f in fs:          # a .cpp anchor brings its header and vice versa
                    b, e = os.path.splitext(f)
                    pref += [b + '.h', b + '.cpp']
    except Exception:
        pass
    rel = [f for f in changed if any(f == q or (q.endswith('/') and f.startswith(q)) for q in pref)]
    # a change in a file no property names: nobody can tell whom it concerns - everybody looks harder
    orphan = [f for f in changed if f not in covered and f != 'qtlogger.h' and not any(f.startswith(q) for q in _SHARED)]
    return sorted(set(rel + orphan))

# ----------------------------------------------------------------------------------- verdicts
class Check:
    """One check run: collects the legs' results, decides, writes evidence, prints the verdict."""

    def __init__(self, pid, level='proof'):
        self.pid = pid
        self.level = level
        self.t0 = time.time()
        self.tier = os.environ.get('VERIF_TIER', 'quick')
        self.requested_tier = self.tier
        self.escalated = []
        if self.tier == 'quick' and os.environ.get('VERIF_ESCALATE', '1') != '0':
            try:
                self.escalated = relevant_changes(pid, changed_files())
            except Exception:
                self.escalated = []
            if self.escalated:
                self.tier = 'thorough'      # search budget only; see "change-aware search budget" above
        self.seed = int(os.environ.get('VERIF_SEED', '1') or 1)
        self.rng = random.Random(self.seed * 1000003 + int(re.sub(r'\D', '', pid) or 0))
        self.cov = {}
        self.assumptions = []
        self.trusted = []
        self.failing = []       # (what, replay_obj): property falsified on the implementation
        self.broken = []        # (what, replay_obj): theorem / correspondence no longer checks
        self.known_hits = []
        self.samples = []
        self.kf = load_known_findings(pid)
        os.makedirs(REPLAYS, exist_ok=True)

    # -- findings
    def fail(self, what, replay, kind=None):
        """the property is falsified on the implementation by a concrete input"""
        for k in self.kf:
            if k.get('status') == 'open' and kind is not None and k.get('match', {}).get('kind') == kind \
               and match_known(k.get('match', {}), replay):
                if k['id'] not in [h['id'] for h in self.known_hits]:
                    self.known_hits.append(k)
                return
        self.failing.append((what, replay))

    def broke(self, what, replay):
        self.broken.append((what, replay))

    def proof(self, res):
        self.cov['obligations'] = res.get('obligations', 0)
        self.cov['discharged'] = res.get('discharged', 0)
        self.cov['checker_cmd'] = res.get('checker_cmd', '')
        self.cov['theorems'] = res.get('theorems', [])
        self.cov['axioms_reported'] = res.get('axioms', [])
        self.cov['assumption_reports'] = res.get('assumption_reports', 0)
        self.cov['closed_under_global_context'] = res.get('closed_reports', 0)
        self.cov['translator'] = res.get('translator', {})
        self.cov['proof_files'] = res.get('files', [])
        self.cov['proof_wall_s'] = res.get('wall_s')
        if 'coqchk' in res:
            self.cov['coqchk'] = res['coqchk']
        if not res['ok']:
            for e in res['errors']:
                self.broke(e, {'kind': 'proof', 'error': e, 'failed_at': res.get('failed_at'), 'log_tail': res.get('log_tail', '')[-1500:]})
        return res['ok']

    def _write_replay(self, n, what, obj):
        path = os.path.join(REPLAYS, '%s-%d-%d.json' % (self.pid, self.seed, n))
        with open(path, 'w') as f:
            json.dump({'property': self.pid, 'what': what, 'seed': self.seed, 'tier': self.tier, 'replay': obj}, f, indent=1, default=str)
        return path

    def finish(self):
        rc = 0
        lines = []
        for k in self.known_hits:
            lines.append('KNOWN-FINDING: property=%s %s' % (self.pid, k['what']))
        n = 0
        if self.failing:
            for what, obj in self.failing[:5]:
                p = self._write_replay(n, what, obj); n += 1
                lines.append('VIOLATION property=%s replay=%s' % (self.pid, p))
            rc = 1
        elif self.broken:
            p = self._write_replay(n, '; '.join(w for w, _ in self.broken)[:2000], [o for _, o in self.broken][:10])
            lines.append('VIOLATION property=%s replay=%s no-failing-input-found' % (self.pid, p))
            rc = 1
        cov = dict(self.cov)
        cov.setdefault('obligations', 0)
        cov.setdefault('discharged', 0)
        cov.setdefault('checker_cmd', '')
        cov['trusted_base'] = self.trusted
        cov['samples'] = self.samples[:6]
        cov['known_findings_matched'] = [k['id'] for k in self.known_hits]
        cov['falsified_on_implementation'] = [w for w, _ in self.failing][:20]
        cov['broken_obligations_or_correspondence'] = [w for w, _ in self.broken][:20]
        if self.escalated:
            cov['search_budget'] = 'thorough budget in a quick run: source differs from the validated baseline in ' + ', '.join(self.escalated[:8])
        ev = {'property_id': self.pid, 'tier': self.requested_tier if self.requested_tier in ('quick', 'thorough') else 'quick',
              'seed': self.seed, 'level': self.level, 'coverage': cov, 'assumptions': self.assumptions,
              'wall_s': round(time.time() - self.t0, 2), 'violations': len(self.failing) + (1 if (self.broken and not self.failing) else 0)}
        os.makedirs(EVID, exist_ok=True)
        tmp = os.path.join(EVID, '.%s.json.tmp' % self.pid)
        with open(tmp, 'w') as f:
            json.dump(ev, f, indent=1, default=str)
        os.replace(tmp, os.path.join(EVID, '%s.json' % self.pid))
        for l in lines:
            print(l)
        print('%s %s tier=%s seed=%d obligations=%d/%d evaluations=%s wall=%.1fs' % (
            self.pid, 'OK' if rc == 0 else 'FAIL', self.requested_tier + ('+escalated' if self.escalated else ''), self.seed, cov['discharged'], cov['obligations'],
            cov.get('evaluations', '-'), time.time() - self.t0))
        sys.stdout.flush()
        return rc


def load_known_findings(pid):
    try:
        kf = json.load(open(os.path.join(VERIF, 'known_findings.json')))
    except FileNotFoundError:
        return []
    return [k for k in kf.get('findings', []) if k.get('property') == pid]


def match_known(match, replay):
    """a known finding matches only the specific failing-input class recorded for it; the
    per-property checkers pass `kind` and put the discriminating fields into the replay"""
    for k, v in match.items():
        if k == 'kind':
            continue
        if k.endswith('_min'):
            if not (replay.get(k[:-4]) is not None and replay.get(k[:-4]) >= v):
                return False
        elif k.endswith('_in'):
            if replay.get(k[:-3]) not in v:
                return False
        elif replay.get(k) != v:
            return False
    return True


def shrink_list(items, still_fails, max_steps=400):
    """greedy delta-debugging on a list"""
    cur = list(items)
    steps = 0
    chunk = max(1, len(cur) // 2)
    while chunk >= 1 and steps < max_steps:
        i = 0
        changed = False
        while i < len(cur) and steps < max_steps:
            cand = cur[:i] + cur[i + chunk:]
            steps += 1
            if cand != cur and still_fails(cand):
                cur = cand
                changed = True
            else:
                i += chunk
        if not changed:
            chunk //= 2
    return cur
