#!/bin/bash
# usage: tools/verify_mutant.sh <worktree> <n>
# Re-verifies an independently written breaking change in its scratch worktree: applies
# out/<n>/patch.diff, rebuilds, runs the unchanged test suite (must pass), builds and runs the
# demo (must fail), reverts, rebuilds, runs the demo again (must pass).  Prints one JSON line.
wt=$1; n=$2; cd "$wt" || exit 9
J=${J:-6}
# MODE=static (default): demo links the static library of _build; MODE=header: header-only build against <wt>/qtlogger.h;
# if out/<n>/run.sh exists it is used as the whole demonstration (build + run) instead.
MODE=${MODE:-static}
demo_build() {
  if [ -x out/$n/run.sh ] || [ -f out/$n/demo.sh ]; then return 0; fi
  if [ "$MODE" = script ]; then (cd "$wt" && sh out/build_demo.sh $n) >/tmp/vm_$$.log 2>&1; return $?; fi
  if [ "$MODE" = header ]; then
    (cd out/$n && g++ -std=c++17 -fPIC -w -pthread -I"$wt" -I"$wt/out" $(pkg-config --cflags Qt5Core) demo.cpp -o demo_v -rdynamic $(pkg-config --libs Qt5Core) -lz -lutil) >/tmp/vm_$$.log 2>&1
  else
    (cd out/$n && g++ -std=c++17 -fPIC -w -pthread -DQTLOGGER_STATIC -I"$wt/src" -I"$wt/out" -I"$wt/out/common" $(pkg-config --cflags Qt5Core) demo.cpp -o demo_v -rdynamic "$wt/_build/src/qtlogger/libqtlogger.a" $(pkg-config --libs Qt5Core) -lz -lutil) >/tmp/vm_$$.log 2>&1
  fi; }
demo_run() {
  if [ -x out/$n/run.sh ]; then (cd "$wt" && timeout 300 out/$n/run.sh)
  elif [ -f out/$n/demo.sh ]; then (cd "$wt" && timeout 600 sh out/$n/demo.sh "$wt")
  elif [ "$MODE" = script ]; then (cd "$wt" && timeout 300 out/$n/demo)
  else (cd out/$n && timeout 300 ./demo_v); fi; }
git checkout -q -- . ; git clean -fdq src tools 2>/dev/null; git apply out/$n/patch.diff || { echo "{\"n\":$n,\"error\":\"patch does not apply\"}"; exit 1; }
cmake --build _build -j$J >/tmp/vm_$$.b 2>&1; b1=$?
ctest --test-dir _build -j$J --timeout 900 >/tmp/vm_$$.ct 2>&1
ct=$(grep -E "tests passed" /tmp/vm_$$.ct | head -1)
failed=$(grep -E "^\s+[0-9]+ - " /tmp/vm_$$.ct | tr -s ' ' | tr '\n' ';')
# OwnThreadHandlerTest is timing-sensitive under machine load (also on the clean tree): one retry of the failed tests
if ! echo "$ct" | grep -q "100% tests passed"; then
  ctest --test-dir _build --rerun-failed --timeout 900 >/tmp/vm_$$.ct2 2>&1
  ct2=$(grep -E "tests passed" /tmp/vm_$$.ct2 | head -1)
  if echo "$ct2" | grep -q "100% tests passed"; then ct="100% tests passed after one retry of: $failed ($ct)"; fi
fi
demo_build; db1=$?
demo_run >/tmp/vm_$$.o1 2>&1; d1=$?
git checkout -q -- . ; git clean -fdq src tools 2>/dev/null
cmake --build _build -j$J >/tmp/vm_$$.b 2>&1; b2=$?
demo_build; db2=$?
demo_run >/tmp/vm_$$.o2 2>&1; d2=$?
rm -f out/$n/demo_v
ok=false; [ $b1 = 0 ] && [ $b2 = 0 ] && [ $db1 = 0 ] && [ $db2 = 0 ] && [ $d1 != 0 ] && [ $d2 = 0 ] && echo "$ct" | grep -q "100% tests passed" && ok=true
echo "{\"wt\":\"$wt\",\"n\":$n,\"ok\":$ok,\"build_with\":$b1,\"ctest_with\":\"$ct\",\"demo_with_exit\":$d1,\"demo_clean_exit\":$d2,\"demo_with_tail\":$(tail -2 /tmp/vm_$$.o1 | python3 -c 'import json,sys;print(json.dumps(sys.stdin.read()[-300:]))')}"
rm -f /tmp/vm_$$.*
