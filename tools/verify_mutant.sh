#!/bin/bash
# usage: tools/verify_mutant.sh <worktree> <n>
# Re-verifies an independently written breaking change in its scratch worktree: applies
# out/<n>/patch.diff, rebuilds, runs the unchanged test suite (must pass), builds and runs the
# demo (must fail), reverts, rebuilds, runs the demo again (must pass).  Prints one JSON line.
wt=$1; n=$2; cd "$wt" || exit 9
J=${J:-6}
demo_build() { (cd out/$n && g++ -std=c++17 -fPIC -w -DQTLOGGER_STATIC -I"$wt/src" -I"$wt/out" -I"$wt/out/common" $(pkg-config --cflags Qt5Core) demo.cpp -o demo_v "$wt/_build/src/qtlogger/libqtlogger.a" $(pkg-config --libs Qt5Core) -lpthread) >/tmp/vm_$$.log 2>&1; }
git checkout -q -- . ; git apply out/$n/patch.diff || { echo "{\"n\":$n,\"error\":\"patch does not apply\"}"; exit 1; }
cmake --build _build -j$J >/tmp/vm_$$.b 2>&1; b1=$?
ct=$(ctest --test-dir _build -j$J --timeout 900 2>&1 | grep -E "tests passed" | head -1)
demo_build; db1=$?
(cd out/$n && timeout 120 ./demo_v >/tmp/vm_$$.o1 2>&1); d1=$?
git checkout -q -- .
cmake --build _build -j$J >/tmp/vm_$$.b 2>&1; b2=$?
demo_build; db2=$?
(cd out/$n && timeout 120 ./demo_v >/tmp/vm_$$.o2 2>&1); d2=$?
rm -f out/$n/demo_v
ok=false; [ $b1 = 0 ] && [ $b2 = 0 ] && [ $db1 = 0 ] && [ $db2 = 0 ] && [ $d1 != 0 ] && [ $d2 = 0 ] && echo "$ct" | grep -q "100% tests passed" && ok=true
echo "{\"wt\":\"$wt\",\"n\":$n,\"ok\":$ok,\"build_with\":$b1,\"ctest_with\":\"$ct\",\"demo_with_exit\":$d1,\"demo_clean_exit\":$d2,\"demo_with_tail\":$(tail -2 /tmp/vm_$$.o1 | python3 -c 'import json,sys;print(json.dumps(sys.stdin.read()[-300:]))')}"
rm -f /tmp/vm_$$.*
