#!/usr/bin/env python3
"""print a markdown status table from evidence/*.json and seeded/*/meta.json"""
import json, glob, os, collections
ROOT = os.path.join(os.path.dirname(os.path.abspath(__file__)), '..')
det = collections.defaultdict(collections.Counter)
for mp in glob.glob(os.path.join(ROOT, 'seeded', '*', 'meta.json')):
    name = os.path.basename(os.path.dirname(mp)); m = json.load(open(mp)); d = m.get('detected_by')
    if not isinstance(d, dict): continue
    for pid, r in d.items():
        kind = 'harmless' if ('harmless' in name or m.get('harmless')) else ('ind' if '-ind-' in name else 'own')
        det[pid][(kind, r['verdict'])] += 1
print('| Id | obligations | axioms | evaluations (quick) | wall s | known findings printed | own: input / tie-only / missed | ind: input / tie-only / missed | harmless: silent / tie-only / false input |')
print('|----|-------------|--------|---------------------|--------|------------------------|------|------|------|')
for f in sorted(glob.glob(os.path.join(ROOT, 'evidence', 'C*.json'))):
    e = json.load(open(f)); c = e['coverage']; pid = e['property_id']; d = det[pid]
    def tri(k): return '%d / %d / %d' % (d[(k, 'violation-with-failing-input')], d[(k, 'broken-tie-no-failing-input')], d[(k, 'not-detected')])
    harm = '%d / %d / %d' % (d[('harmless', 'not-detected')], d[('harmless', 'broken-tie-no-failing-input')], d[('harmless', 'violation-with-failing-input')])
    print('| %s | %s/%s | %s | %s | %.0f | %s | %s | %s | %s |' % (pid, c.get('discharged'), c.get('obligations'), ', '.join(c.get('axioms_reported', [])) or 'none',
          c.get('evaluations', '-'), e['wall_s'], ', '.join(c.get('known_findings_matched', [])) or '-', tri('own'), tri('ind'), harm))
