#!/bin/sh
# usage: coqdbg.sh <file.v> <line> ["tactics to insert before Show."]  — shows the goals at a line (replaces it)
f=$1; n=$2; t=$3
sed "${n}s/.*/  $t Show. admit./" "$f" > /tmp/D.v && cd /verif/coq && timeout 120 coqc -Q theories QtlVerif /tmp/D.v 2>&1 | head -${4:-60}
