#!/usr/bin/env python3
"""(re)write src_baseline.json: token fingerprints of the library sources of the tree the models were
last validated against (= /repo HEAD).  Run after every commit to /repo, never at check time."""
import json, os, subprocess, sys
ROOT = os.path.join(os.path.dirname(os.path.abspath(__file__)), '..')
sys.path.insert(0, ROOT)
import vlib
dirty = subprocess.run(['git', '-C', vlib.REPO, 'status', '--porcelain', '--untracked-files=no'], stdout=subprocess.PIPE, text=True).stdout.strip()
if dirty:
    print('refusing: /repo has uncommitted changes\n' + dirty); sys.exit(1)
head = subprocess.run(['git', '-C', vlib.REPO, 'rev-parse', 'HEAD'], stdout=subprocess.PIPE, text=True).stdout.strip()
json.dump({'repo_head': head, 'files': vlib.source_fingerprint()}, open(os.path.join(ROOT, 'src_baseline.json'), 'w'), indent=0, sort_keys=True)
print('baseline written for', head)
