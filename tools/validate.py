#!/usr/bin/env python3-vt
"""validate MANIFEST.json and evidence/*.json against the schemas (uses the tooling venv's jsonschema)"""
import json, jsonschema, glob, sys
ok = True
def v(f, s):
    global ok
    try:
        jsonschema.validate(json.load(open(f)), json.load(open(s))); print('valid  ', f)
    except Exception as e:
        ok = False; print('INVALID', f, str(e)[:300])
v('/verif/MANIFEST.json', '/root/.vp/MANIFEST.schema.json')
for f in sorted(glob.glob('/verif/evidence/*.json')):
    v(f, '/root/.vp/EVIDENCE.schema.json')
sys.exit(0 if ok else 1)
