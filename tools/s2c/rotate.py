"""C05 C06 C07 C09: the decision shapes of RotatingFileSink (rotatingfilesink.cpp) and the open mode
of FileSink (filesink.cpp) -> SrcRotate.v (a `shape` record, see RotateDefs.v)."""
import re
from .common import rd, need, fn_body, strip_comments, AnchorError, HDR


def _flat(s):
    return re.sub(r'\s+', ' ', s)


def generate():
    src = strip_comments(rd('sinks/rotatingfilesink.cpp'))
    fsrc = strip_comments(rd('sinks/filesink.cpp'))

    # ---- findRotatedFiles(): the two name patterns and the ordering key
    frf = _flat(fn_body(src, 'QStringList findRotatedFiles'))
    pats = re.findall(r'QStringLiteral\("((?:[^"\\]|\\.)*)"\)', frf)
    need(len(pats) == 2, 'findRotatedFiles: two name patterns (empty / non-empty suffix)')
    datepart = r'\\\\\.\(?\\\\d\{4\}-\\\\d\{2\}-\\\\d\{2\}\)?\\\\\.\(?\\\\d\+\)?'
    END = '\\\\z'          # the C++ text \\\\z = the regex \\z: the very end of the subject (`$` would also match before a final LF)

    def core(p):
        """pattern text without its anchors"""
        p = p[1:] if p.startswith('^') else p
        for e in (END, '$'):
            if p.endswith(e):
                return p[:-len(e)]
        return p
    anchored = all(p.startswith('^') and p.endswith(END) for p in pats)
    gz_opt = all(core(p).endswith('(\\\\.gz)?') for p in pats)
    need(re.fullmatch(r'%1' + datepart + r'\(\\\\\.gz\)\?', core(pats[0])),
         'findRotatedFiles: pattern for an empty suffix  base\\.DATE\\.(\\d+)(\\.gz)?  (got %r)' % pats[0])
    need(re.fullmatch(r'%1' + datepart + r'\\\\\.%2\(\\\\\.gz\)\?', core(pats[1])),
         'findRotatedFiles: pattern for a non-empty suffix  base\\.DATE\\.(\\d+)\\.suffix(\\.gz)?  (got %r)' % pats[1])
    esc_frf = len(re.findall(r'QRegularExpression::escape\((baseName|suffix)\)', frf)) == 3
    m = need(re.search(r'const auto entries = dir\.entryList\((QDir::Files( \| QDir::Hidden)?), QDir::Name\);', frf),
             'findRotatedFiles: entries = dir.entryList(QDir::Files | QDir::Hidden, QDir::Name) (no name filter)')
    hidden_frf = bool(m.group(2))
    need(re.search(r'if \(re\.match\(entry\)\.hasMatch\(\)\) \{ result\.append\(dir\.filePath\(entry\)\); \}', frf),
         'findRotatedFiles: candidates = entries matching the pattern')
    if re.search(r'std::sort\(result\.begin\(\), result\.end\(\), \[\]\(const QString &a, const QString &b\) \{ '
                 r'return QFileInfo\(a\)\.lastModified\(\) < QFileInfo\(b\)\.lastModified\(\); \}\)', frf):
        victim = 'VKMtime'
    elif re.search(r'return std::make_tuple\(match\.captured\(1\), match\.captured\(2\)\.toInt\(\), path\);', frf) and \
            re.search(r'std::sort\(result\.begin\(\), result\.end\(\), \[&key\]\(const QString &a, const QString &b\) '
                      r'\{ return key\(a\) < key\(b\); \}\)', frf) and \
            re.search(r'const auto match = re\.match\(QFileInfo\(path\)\.fileName\(\)\);', frf):
        victim = 'VKName'
    else:
        raise AnchorError('ANCHOR NOT FOUND: findRotatedFiles: unrecognised ordering of the candidates')

    # ---- removeOldFiles()
    rof = _flat(fn_body(src, 'void removeOldFiles'))
    le0 = bool(re.search(r'if \(m_maxFileCount <= 0\) return;', rof))
    m = re.search(r'while \(rotatedFiles\.size\(\) > m_maxFileCount( - (\d+))?\) \{', rof)
    if m:
        keep_off = int(m.group(2)) if m.group(1) else 0
    else:
        m = need(re.search(r'while \(rotatedFiles\.size\(\) >= m_maxFileCount( \+ (\d+))?\) \{', rof),
                 'removeOldFiles: while (rotatedFiles.size() > m_maxFileCount - 1)')
        keep_off = 1 - (int(m.group(2)) if m.group(1) else 0)        # size >= N + k  <=>  size > N - (1 - k)
    need(re.search(r'const QString &?oldestFile = rotatedFiles\.(first\(\)|constFirst\(\)|front\(\)|at\(0\));', rof) and
         re.search(r'QFile::remove\(oldestFile\)', rof) and re.search(r'rotatedFiles\.(removeFirst\(\)|removeAt\(0\)|pop_front\(\));', rof),
         'removeOldFiles: removes rotatedFiles.first()')
    need(re.search(r'auto rotatedFiles = findRotatedFiles\(\);', rof), 'removeOldFiles: candidates from findRotatedFiles()')

    # ---- checkSizeRotation() / rotateIfNeeded()
    csr = _flat(fn_body(src, 'void checkSizeRotation'))
    m = need(re.search(r'if \((currentSize > 0 && )?\(currentSize \+ additionalSize\) (>=?) m_maxFileSize\) \{ rotate\(\); \}', csr),
             'checkSizeRotation: if (currentSize > 0 && (currentSize + additionalSize) > m_maxFileSize) rotate()')
    nonempty, strict = bool(m.group(1)), m.group(2) == '>'
    need(re.search(r'const auto currentSize = q_ptr->file\(\)->size\(\);', csr), 'checkSizeRotation: currentSize = file()->size()')
    rin = _flat(fn_body(src, 'void rotateIfNeeded'))
    m = need(re.search(r'const auto additionalSize = lmsg\.formattedMessage\(\)\.toUtf8\(\)\.size\(\)( \+ (\d+))?;', rin),
             'rotateIfNeeded: additionalSize = formattedMessage().toUtf8().size() + 1')
    newline = int(m.group(2)) if m.group(1) else 0
    need(re.search(r'if \(m_rotationDaily\) \{ checkDailyRotation\(messageDate\); \} if \(m_maxFileSize > 0\) \{', rin),
         'rotateIfNeeded: daily check first, then the size check when m_maxFileSize > 0')
    need(re.search(r'const auto messageDate = lmsg\.time\(\)\.date\(\);', rin), 'rotateIfNeeded: messageDate = lmsg.time().date()')
    cdr = _flat(fn_body(src, 'void checkDailyRotation'))
    need(re.search(r'if \(messageDate != m_currentLogDate && q_ptr->file\(\)->size\(\) > 0\) \{ rotate\(\); m_currentLogDate = messageDate; \}', cdr),
         'checkDailyRotation: date differs && size > 0 -> rotate(); m_currentLogDate = messageDate')
    cst = _flat(fn_body(src, 'void checkStartupRotation'))
    need(re.search(r'if \(q_ptr->file\(\)->size\(\) > 0\) \{ rotate\(\); \}', cst), 'checkStartupRotation: size > 0 -> rotate()')
    ini = _flat(fn_body(src, 'void init'))
    need(re.search(r'if \(fi\.exists\(\) && fi\.size\(\) > 0\) \{ m_currentLogDate = fi\.lastModified\(\)\.date\(\); \} '
                   r'else \{ m_currentLogDate = QDate::currentDate\(\); \} if \(m_rotationOnStartup\) \{ checkStartupRotation\(\); \}', ini),
         'init: current date from the non-empty file\'s lastModified, else today; then the startup check')

    # ---- findNextIndexForDate()
    fni = _flat(fn_body(src, 'int findNextIndexForDate'))
    ip = re.findall(r'QStringLiteral\("((?:[^"\\]|\\.)*)"\)', fni)
    def date_shape(body, where):
        """True: toString(Qt::ISODate) - always ASCII digits; False: toString("yyyy-MM-dd"), which in Qt 5 goes through
        QLocale::system() and uses the locale's native digits"""
        if re.search(r'const auto dateStr = date\.toString\(Qt::ISODate\);', body):
            return True
        if re.search(r'const auto dateStr = date\.toString\(QStringLiteral\("yyyy-MM-dd"\)\);', body):
            return False
        raise AnchorError('ANCHOR NOT FOUND: %s: dateStr = date.toString(Qt::ISODate)' % where)
    ascii_fni = date_shape(fni, 'findNextIndexForDate')
    ip = [x for x in ip if x != 'yyyy-MM-dd']
    ip = [None] + ip
    need(len(ip) == 3, 'findNextIndexForDate: two patterns')
    need(re.fullmatch(r'%1\\\\\.%2\\\\\.\(\\\\d\+\)\(\\\\\.gz\)\?', core(ip[1])) and
         re.fullmatch(r'%1\\\\\.%2\\\\\.\(\\\\d\+\)\\\\\.%3\(\\\\\.gz\)\?', core(ip[2])),
         'findNextIndexForDate: patterns base\\.DATE\\.(\\d+)[\\.suffix](\\.gz)?')
    anchored = anchored and all(p.startswith('^') and p.endswith(END) for p in ip[1:])
    gz_opt = gz_opt and all('(\\\\.gz)?' in p for p in ip[1:])
    esc_fni = len(re.findall(r'QRegularExpression::escape\((baseName|dateStr|suffix)\)', fni)) == 5
    m = need(re.search(r'const auto entries = dir\.entryList\((QDir::Files( \| QDir::Hidden)?)\);', fni),
             'findNextIndexForDate: entries = dir.entryList(QDir::Files | QDir::Hidden) (no name filter)')
    hidden_fni = bool(m.group(2))
    idx_max1 = bool(re.search(r'auto maxIndex = 0;', fni) and
                    re.search(r'auto index = match\.captured\(1\)\.toInt\(\); if \(index > maxIndex\) \{ maxIndex = index; \}', fni) and
                    re.search(r'return maxIndex \+ 1;', fni) and
                    re.search(r'for \(const QString &entry : entries\) \{ auto match = re\.match\(entry\); if \(match\.hasMatch\(\)\)', fni))
    if not idx_max1:
        raise AnchorError('ANCHOR NOT FOUND: findNextIndexForDate: index = 1 + max captured index over the matching entries')

    # ---- generateRotatedFileName()
    grn = _flat(fn_body(src, 'QString generateRotatedFileName'))
    ascii_grn = date_shape(grn, 'generateRotatedFileName')
    if re.search(r'QStringLiteral\("%1\.%2\.%3"\)\.arg\(baseName, dateStr, QString::number\(index\)\);', grn) and \
       re.search(r'QStringLiteral\("%1\.%2\.%3\.%4"\) ?\.arg\(baseName, dateStr, QString::number\(index\), suffix\);', grn):
        onepass = True
    elif re.search(r'QStringLiteral\("%1\.%2\.%3"\)\.arg\(baseName, dateStr\)\.arg\(index\)', grn) and \
            re.search(r'QStringLiteral\("%1\.%2\.%3\.%4"\) ?\.arg\(baseName, dateStr\)\.arg\(index\)\.arg\(suffix\)', grn):
        onepass = False         # chained arg(): a place marker inside the base name is substituted again
    else:
        raise AnchorError('ANCHOR NOT FOUND: generateRotatedFileName: base.yyyy-MM-dd.index[.suffix] built with arg()')
    need(re.search(r'if \(suffix\.isEmpty\(\)\) \{ rotatedName = QStringLiteral\("%1\.%2\.%3"\)', grn) and
         re.search(r'return QDir\(baseDir\(\)\)\.filePath\(rotatedName\);', grn), 'generateRotatedFileName: two forms, placed in baseDir()')

    # ---- rotate()
    rot = _flat(fn_body(src, 'void rotate'))
    one = bool(re.match(r' ?if \(m_maxFileCount == 1\) return;', rot))
    m = need(re.search(r'const auto rotationDate = (.*?);', rot), 'rotate: rotationDate')
    if m.group(1) == 'm_currentLogDate.isValid() ? m_currentLogDate : QDate::currentDate()':
        by_cur = True
    elif m.group(1) == 'QDate::currentDate()':
        by_cur = False
    else:
        raise AnchorError('ANCHOR NOT FOUND: rotate: unrecognised rotationDate expression %r' % m.group(1))
    seq = [r'q_ptr->file\(\)->close\(\);', r'const auto nextIndex = findNextIndexForDate\(rotationDate\);',
           r'const auto rotatedFileName = generateRotatedFileName\(rotationDate, nextIndex\);',
           r'if \(!QFile::rename\(currentFileName, rotatedFileName\)\)', r'else if \(m_compression\) \{ compressFile\(rotatedFileName\); \}',
           r'removeOldFiles\(\);', r'q_ptr->file\(\)->open\(', r'm_currentLogDate = QDate::currentDate\(\);']
    pos = 0
    for pat in seq:
        mm = re.compile(pat).search(rot, pos)
        need(mm, 'rotate: step sequence close/index/name/rename/compress/cleanup/reopen/date (missing %s)' % pat)
        pos = mm.end()
    mm = need(re.search(r'q_ptr->file\(\)->open\(([^)]*)\)', rot), 'rotate: reopen')
    append = 'QIODevice::Append' in mm.group(1) and 'Truncate' not in mm.group(1)
    ctor = _flat(fn_body(fsrc, 'FileSink::FileSink'))
    mm = need(re.search(r'file\(\)->open\(([^)]*)\)', ctor), 'FileSink constructor: open')
    append = append and 'QIODevice::Append' in mm.group(1) and 'Truncate' not in mm.group(1)

    # ---- send()
    snd = _flat(fn_body(src, 'RotatingFileSink::send'))
    need(re.search(r'd->init\(\); d->rotateIfNeeded\(lmsg\); FileSink::send\(lmsg\);', snd),
         'send: init(); rotateIfNeeded(lmsg); FileSink::send(lmsg)')
    io = _flat(fn_body(strip_comments(rd('sinks/iodevicesink.cpp')), 'IODeviceSink::send'))
    need(re.search(r'm_device->write\(lmsg\.formattedMessage\(\)\.toLocal8Bit\(\)\.append\("\\n"\)\);', io),
         'IODeviceSink::send: one write of toLocal8Bit() + "\\n"')

    def b(x):
        return 'true' if x else 'false'

    out = HDR % 'src/qtlogger/sinks/rotatingfilesink.cpp, filesink.cpp, iodevicesink.cpp'
    out += 'Require Import ZArith.\nRequire Import QtlVerif.RotateDefs.\nLocal Open Scope Z_scope.\n'
    out += 'Definition src_shape : shape := {|\n'
    out += '  s_victim := %s; s_keep_off := %d; s_size_strict := %s; s_size_nonempty := %s; s_newline := %d;\n' % (
        victim, keep_off, b(strict), b(nonempty), newline)
    out += '  s_one_disables := %s; s_le0_keeps := %s; s_index_max1 := %s; s_name_by_cur := %s;\n' % (
        b(one), b(le0), b(idx_max1), b(by_cur))
    out += '  s_anchored := %s; s_escaped := %s; s_gz_optional := %s; s_append := %s;\n' % (
        b(anchored), b(esc_frf and esc_fni), b(gz_opt), b(append))
    out += '  s_lists_hidden := %s; s_name_onepass := %s; s_date_ascii := %s |}.\n' % (b(hidden_frf and hidden_fni), b(onepass), b(ascii_fni and ascii_grn))
    # ---- the fluent front end SimplePipeline::sendToFile (round 8): when does it build the rotating sink?
    sp = _flat(fn_body(strip_comments(rd('simplepipeline.cpp')), 'SimplePipeline::sendToFile'))
    fm = need(re.search(r'if \(((?:(?!if \().)*?)\) \{ append\(RotatingFileSinkPtr::create\(([^;]*?)\)\); \} else \{ append\(FileSinkPtr::create\(([^;]*?)\)\); \}', sp),
              'sendToFile: if (<rotation asked for>) append(RotatingFileSinkPtr::create(...)) else append(FileSinkPtr::create(...))')
    KNOWN = {'maxFileSize > 0': 'size', 'options.testFlag(RotatingFileSink::RotationOnStartup)': 'startup',
             'options.testFlag(RotatingFileSink::RotationDaily)': 'daily',
             'options.testFlag(RotatingFileSink::Compression)': 'compression'}   # more rotating sinks than needed: harmless
    asked = set()
    for d in fm.group(1).split(' || '):
        d = d.strip()
        if d not in KNOWN:
            raise AnchorError('ANCHOR NOT FOUND: sendToFile: unrecognised condition %r for building the rotating sink' % d)
        asked.add(KNOWN[d])
    args_ok = fm.group(2).strip() == 'fileName, maxFileSize, maxFileCount, options' and fm.group(3).strip() == 'fileName'
    need(sp[:fm.start()].strip() == 'if (fileName.isEmpty()) return *this;', 'sendToFile: nothing but the empty-name guard before the choice')
    need(sp[fm.end():].strip() == 'return *this;', 'sendToFile: nothing after the choice')
    out2 = HDR % 'src/qtlogger/simplepipeline.cpp (SimplePipeline::sendToFile)'
    out2 += 'Require Import QtlVerif.RotateDefs QtlVerif.RotateFrontDefs.\n'
    out2 += 'Definition src_front : front := {| f_size := %s; f_startup := %s; f_daily := %s; f_args := %s |}.\n' % (
        b('size' in asked), b('startup' in asked), b('daily' in asked), b(args_ok))
    return {'SrcRotate.v': out, 'SrcRotateFront.v': out2}
