"""C16: decision rules of LevelFilter / DuplicateFilter / RegExpFilter / SeqNumberAttr read from the source.

LevelFilter::priority's switch becomes a Gallina function over the message types, the comparison
in LevelFilter::filter a comparison operator; for DuplicateFilter which accessor is compared with
m_lastMessage, which accessor is stored, whether the store also happens on a drop and the initial
value of the member; for SeqNumberAttr the initial value, the emitted expression (m_count++ /
++m_count) and the total increment per call; for RegExpFilter the accessor and that the verdict is
match(...).hasMatch() (search).  Anything that does not have one of the recognised shapes raises
AnchorError: the tie is then reported as broken instead of guessing.  fluent(): the SimplePipeline methods
filterLevel / filterDuplicate / filter(QString) / addSeqNumber must append exactly one object of the translated class,
built from the caller's argument (the harness also obtains every handler kind through them)."""
import re
from .common import rd, need, fn_body, strip_comments, AnchorError, HDR

MT = {'QtDebugMsg': 'Debug', 'QtInfoMsg': 'Info', 'QtWarningMsg': 'Warning', 'QtCriticalMsg': 'Critical',
      'QtFatalMsg': 'Fatal'}
OPS = {'>=': 'CGe', '>': 'CGt', '<=': 'CLe', '<': 'CLt', '==': 'CEq', '!=': 'CNe'}
FLIP = {'CGe': 'CLe', 'CGt': 'CLt', 'CLe': 'CGe', 'CLt': 'CGt', 'CEq': 'CEq', 'CNe': 'CNe'}
FIELD = {'message': 'FMessage', 'formattedMessage': 'FFormatted'}


def sq(s):
    return re.sub(r'\s+', ' ', s).strip()


def c_string(lit):
    """code units of a simple C string literal body (ASCII, \\n \\t \\\\ \\" escapes)"""
    out, i = [], 0
    while i < len(lit):
        c = lit[i]
        if c == '\\':
            i += 1
            e = lit[i]
            m = {'n': 10, 't': 9, '\\': 92, '"': 34, '0': 0, 'r': 13}
            if e not in m:
                raise AnchorError('ANCHOR NOT FOUND: DuplicateFilter::m_lastMessage initialiser: unsupported escape')
            out.append(m[e])
        else:
            if ord(c) > 127:
                raise AnchorError('ANCHOR NOT FOUND: DuplicateFilter::m_lastMessage initialiser: non-ASCII literal')
            out.append(ord(c))
        i += 1
    return out


def level():
    s = strip_comments(rd('filters/levelfilter.h'))
    fb = sq(fn_body(s, 'bool filter', 'LevelFilter::filter'))
    m = re.fullmatch(r'return priority\((\w+)\.type\(\)\) (>=|>|<=|<|==|!=) priority\(m_minLevel\);', fb)
    if m:
        op = OPS[m.group(2)]
    else:
        m = re.fullmatch(r'return priority\(m_minLevel\) (>=|>|<=|<|==|!=) priority\((\w+)\.type\(\)\);', fb)
        need(m, 'LevelFilter::filter: return priority(type) OP priority(m_minLevel)')
        op = FLIP[OPS[m.group(1)]]
    pb = sq(fn_body(s, 'int priority', 'LevelFilter::priority'))
    m = need(re.fullmatch(r'switch \(type\) \{(.*)\} return (-?\d+);', pb), 'LevelFilter::priority: switch (type) {...} return d;')
    default = int(m.group(2))
    cases = {}
    rest = m.group(1).strip()
    for cm in re.finditer(r'((?:case \w+: )+)return (-?\d+);', rest):
        for lab in re.findall(r'case (\w+):', cm.group(1)):
            need(lab in MT, 'LevelFilter::priority: known QtMsgType label (%s)' % lab)
            if lab in cases:
                raise AnchorError('ANCHOR NOT FOUND: LevelFilter::priority: duplicate case ' + lab)
            cases[lab] = int(cm.group(2))
    if re.sub(r'((?:case \w+: )+)return (-?\d+);', '', rest).strip():
        raise AnchorError('ANCHOR NOT FOUND: LevelFilter::priority: switch body has an unrecognised statement')
    ctor = need(re.search(r'explicit LevelFilter\(QtMsgType minLevel(?: = \w+)?\) : m_minLevel\(minLevel\) \{ \}', sq(s)),
                'LevelFilter constructor stores minLevel')
    arms = ' | '.join('%s => %d' % (MT[k], cases.get(k, default)) for k in MT)
    return 'fun t => match t with %s end' % arms, op


def duplicate():
    h = strip_comments(rd('filters/duplicatefilter.h'))
    s = strip_comments(rd('filters/duplicatefilter.cpp'))
    m = need(re.search(r'QString m_lastMessage\s*(?:;|=\s*(.*?);|\{(.*?)\}\s*;)', h), 'DuplicateFilter::m_lastMessage declaration')
    init = (m.group(1) or m.group(2) or '').strip()
    if init in ('', 'QString()', 'QStringLiteral("")', '""', 'QLatin1String("")'):
        units = []
    else:
        lm = need(re.fullmatch(r'(?:QStringLiteral|QLatin1String|QString)?\(?"((?:[^"\\]|\\.)*)"\)?', init),
                  'DuplicateFilter::m_lastMessage initialiser is a string literal')
        units = c_string(lm.group(1))
    b = sq(fn_body(s, 'DuplicateFilter::filter'))
    acc = r'(\w+)\.(message|formattedMessage)\(\)'
    # shape 1 (today's code): compare; drop; store; pass
    m = re.fullmatch(r'if \(%s == m_lastMessage\) \{ return false; \} m_lastMessage = %s; return true;' % (acc, acc), b)
    if m:
        return FIELD[m.group(2)], FIELD[m.group(4)], 'false', units
    # shape 2: the store happens on both paths
    m = re.fullmatch(r'(?:const )?(?:bool|auto) (\w+) = %s == m_lastMessage; m_lastMessage = %s; return !\1;' % (acc, acc), b)
    if m:
        return FIELD[m.group(3)], FIELD[m.group(5)], 'true', units
    m = re.fullmatch(r'if \(%s == m_lastMessage\) \{ m_lastMessage = %s; return false; \} m_lastMessage = %s; return true;' % (acc, acc, acc), b)
    if m and m.group(4) == m.group(6):
        return FIELD[m.group(2)], FIELD[m.group(4)], 'true', units
    # shape 3: inverted test
    m = re.fullmatch(r'if \(%s != m_lastMessage\) \{ m_lastMessage = %s; return true; \} return false;' % (acc, acc), b)
    if m:
        return FIELD[m.group(2)], FIELD[m.group(4)], 'false', units
    raise AnchorError('ANCHOR NOT FOUND: DuplicateFilter::filter: unrecognised shape: ' + b[:200])


def seqnumber():
    h = strip_comments(rd('attrhandlers/seqnumberattr.h'))
    s = strip_comments(rd('attrhandlers/seqnumberattr.cpp'))
    m = need(re.search(r'\bint m_count\s*(?:=\s*(-?\d+)|\{\s*(-?\d+)\s*\})?\s*;', h), 'SeqNumberAttr::m_count declaration (int)')
    init = int(m.group(1) or m.group(2) or 0)
    if re.search(r'\bstatic\b[^;]*m_count', h):
        raise AnchorError('ANCHOR NOT FOUND: SeqNumberAttr::m_count is not a per-object member')
    need(re.search(r'SeqNumberAttr::SeqNumberAttr\(const QString &name\) : m_name\(name\) \{ \}', sq(s)),
         'SeqNumberAttr constructor leaves m_count alone')
    b = sq(fn_body(s, 'SeqNumberAttr::attributes'))
    b = re.sub(r'Q_UNUSED\(\w+\);? ?', '', b).strip()
    m = need(re.search(r'return \{ \{ m_name, ([^{}]+?) \} \};$', b), 'SeqNumberAttr::attributes: return { { m_name, <expr> } }')
    expr = m.group(1).strip()
    before = b[:m.start()].strip()
    inc_before = 0
    for st in [x.strip() for x in before.split(';') if x.strip()]:
        im = re.fullmatch(r'(?:m_count\+\+|\+\+m_count)', st)
        if im:
            inc_before += 1
            continue
        im = re.fullmatch(r'm_count \+= (\d+)', st)
        if im:
            inc_before += int(im.group(1))
            continue
        raise AnchorError('ANCHOR NOT FOUND: SeqNumberAttr::attributes: unrecognised statement: ' + st)
    if expr == 'm_count++':
        if inc_before:
            # value emitted = count + inc_before, counter afterwards = count + inc_before + 1: neither
            # pure post- nor pure pre-increment of the total; not expressible -> refuse
            raise AnchorError('ANCHOR NOT FOUND: SeqNumberAttr::attributes: increments before a post-increment')
        return init, 'true', 1
    if expr == '++m_count':
        return init, 'false', inc_before + 1
    if expr == 'm_count':
        return init, 'false', inc_before
    raise AnchorError('ANCHOR NOT FOUND: SeqNumberAttr::attributes: emitted expression ' + expr)


def regexp():
    s = strip_comments(rd('filters/regexpfilter.cpp'))
    b = sq(fn_body(s, 'RegExpFilter::filter'))
    m = need(re.fullmatch(r'return m_regExp\.match\((\w+)\.(message|formattedMessage)\(\)\)\.hasMatch\(\);', b),
             'RegExpFilter::filter: return m_regExp.match(lmsg.message()).hasMatch()')
    t = sq(s)
    need(re.search(r'RegExpFilter::RegExpFilter\(const QRegularExpression &regExp\) : m_regExp\(regExp\) \{ \}', t),
         'RegExpFilter(const QRegularExpression&) stores the expression unchanged')
    need(re.search(r'RegExpFilter::RegExpFilter\(const QString &regExp\) : m_regExp\(QRegularExpression\(regExp\)\) \{ \}', t),
         'RegExpFilter(const QString&) compiles the pattern without options')
    return FIELD[m.group(2)], 'RSearch'


def fluent():
    """what the fluent SimplePipeline methods install: each must append exactly one object of the class the rules
    are stated (and translated above) for, with the caller's argument, and nothing else"""
    t = sq(strip_comments(rd('simplepipeline.cpp')))
    pre = r'SimplePipeline &SimplePipeline::'
    post = r' \{ append\(%s\); return \*this; \}'
    for sig, made, what in [
            (r'filterLevel\(QtMsgType (\w+)\)', r'LevelFilterPtr::create\(\1\)', 'filterLevel(t) appends LevelFilterPtr::create(t)'),
            (r'filterDuplicate\(\)', r'DuplicateFilterPtr::create\(\)', 'filterDuplicate() appends DuplicateFilterPtr::create()'),
            (r'filter\(const QString &(\w+)\)', r'RegExpFilterPtr::create\(\1\)', 'filter(QString) appends RegExpFilterPtr::create(regexp)'),
            (r'addSeqNumber\(const QString &(\w+)\)', r'SeqNumberAttrPtr::create\(\1\)', 'addSeqNumber(name) appends SeqNumberAttrPtr::create(name)')]:
        need(re.search(pre + sig + post % made, t), 'SimplePipeline::' + what + ' and returns *this')
    for f, cls in [('filters/levelfilter.h', 'LevelFilter'), ('filters/duplicatefilter.h', 'DuplicateFilter'),
                   ('filters/regexpfilter.h', 'RegExpFilter'), ('attrhandlers/seqnumberattr.h', 'SeqNumberAttr')]:
        need(re.search(r'using %sPtr = QSharedPointer<%s>;' % (cls, cls), sq(strip_comments(rd(f)))),
             '%sPtr is QSharedPointer<%s>' % (cls, cls))
    h = sq(strip_comments(rd('simplepipeline.h')))
    need(re.search(r'class (?:\w+ )?SimplePipeline : public SortedPipeline', h), 'SimplePipeline derives from SortedPipeline')
    need(not re.search(r'\bappend\s*\(', h + sq(strip_comments(rd('sortedpipeline.h')))),
         'SimplePipeline / SortedPipeline do not redeclare append (Pipeline::append adds the handler at the end)')
    pb = sq(fn_body(strip_comments(rd('pipeline.cpp')), 'void Pipeline::append'))
    need(re.fullmatch(r'if \(handler\.isNull\(\)\) return; m_handlers\.append\(handler\);', pb),
         'Pipeline::append(handler) appends the non-null handler')


def zlit(n):
    return '(%d)%%Z' % n


def generate():
    prio, op = level()
    dcmp, dstore, dalways, dinit = duplicate()
    sinit, spost, sinc = seqnumber()
    rfield, rmode = regexp()
    fluent()
    out = HDR % 'src/qtlogger/filters/{levelfilter.h,duplicatefilter.*,regexpfilter.cpp}, attrhandlers/seqnumberattr.*'
    out += 'Require Import List NArith ZArith.\nImport ListNotations.\nRequire Import QtlVerif.FiltersDefs.\n'
    out += 'Definition src_cfg : filters_cfg := {|\n'
    out += '  prio := (%s)%%Z;\n' % prio
    out += '  level_cmp := %s;\n' % op
    out += '  dup_cmp := %s; dup_store := %s; dup_store_on_drop := %s;\n' % (dcmp, dstore, dalways)
    out += '  dup_init := [%s]%%N;\n' % '; '.join(str(u) for u in dinit)
    out += '  seq_init := %s; seq_post := %s; seq_inc := %s;\n' % (zlit(sinit), spost, zlit(sinc))
    out += '  re_field := %s; re_mode := %s |}.\n' % (rfield, rmode)
    return {'SrcFilters.v': out}
