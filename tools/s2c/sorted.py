"""C17: search shapes of insertBetweenNearLeft/Right and the class sets of the typed calls"""
import re
from .common import rd, need, fn_body, strip_comments, AnchorError, HDR, CLS


def generate():
    s = strip_comments(rd('sortedpipeline.cpp'))

    def shape_left(body):
        b = re.sub(r'\s+', ' ', body)
        need(re.search(r'firstRight = std::find_if\(handlers\(\)\.begin\(\), handlers\(\)\.end\(\),', b),
             'insertBetweenNearLeft: forward search for firstRight')
        need(re.search(r'rightType\.contains\(x->type\(\)\)', b), 'NearLeft rightType predicate')
        need(re.search(r'leftType\.contains\(x->type\(\)\)', b), 'NearLeft leftType predicate')
        if re.search(r'lastLeft = std::find_if\(firstRight, handlers\(\)\.begin\(\),', b) and \
           re.search(r'handlers\(\)\.insert\(lastLeft, handler\)', b):
            return 'SReversedRange'
        if re.search(r'lastLeft = std::find_if\(std::make_reverse_iterator\(firstRight\), handlers\(\)\.rend\(\),', b) and \
           re.search(r'handlers\(\)\.insert\(lastLeft\.base\(\), handler\)', b):
            return 'SBackward'
        raise AnchorError('ANCHOR NOT FOUND: insertBetweenNearLeft: unrecognised search shape')

    def shape_right(body):
        b = re.sub(r'\s+', ' ', body)
        need(re.search(r'rightType\.contains\(x->type\(\)\)', b), 'NearRight rightType predicate')
        need(re.search(r'leftType\.contains\(x->type\(\)\)', b), 'NearRight leftType predicate')
        need(re.search(r'handlers\(\)\.insert\(firstRight, handler\)', b), 'NearRight insert(firstRight)')
        if re.search(r'lastLeft = std::find_if\(handlers\(\)\.end\(\), handlers\(\)\.begin\(\),', b) and \
           re.search(r'firstRight = std::find_if\(lastLeft, handlers\(\)\.end\(\),', b):
            return 'SReversedRange'
        if re.search(r'lastLeft = std::find_if\(handlers\(\)\.rbegin\(\), handlers\(\)\.rend\(\),', b) and \
           re.search(r'firstRight = std::find_if\(lastLeft\.base\(\), handlers\(\)\.end\(\),', b):
            return 'SBackward'
        raise AnchorError('ANCHOR NOT FOUND: insertBetweenNearRight: unrecognised search shape')

    nl = shape_left(fn_body(s, 'SortedPipeline::insertBetweenNearLeft'))
    nr = shape_right(fn_body(s, 'SortedPipeline::insertBetweenNearRight'))

    def sets(txt):
        return '[' + '; '.join(CLS[x] for x in re.findall(r'HandlerType::(\w+)', txt)) + ']'

    def place(fn, arg):
        b = re.sub(r'\s+', ' ', fn_body(s, 'SortedPipeline::' + fn))
        m = re.search(r'(insertBetweenNearLeft|insertBetweenNearRight)\(\s*\{([^{}]*)\}\s*,\s*\{([^{}]*)\}\s*,\s*%s\s*\)' % arg, b)
        if m:
            return ('PNearLeft' if m.group(1).endswith('Left') else 'PNearRight') + ' %s %s' % (sets(m.group(2)), sets(m.group(3)))
        if re.search(r'\bappend\(%s\)' % arg, b):
            return 'PAppend'
        raise AnchorError('ANCHOR NOT FOUND: SortedPipeline::%s: unrecognised placement' % fn)

    fb = re.sub(r'\s+', ' ', fn_body(s, 'SortedPipeline::setFormatter'))
    clears = bool(re.search(r'clearFormatters\(\);.*insertBetween', fb))
    cb = re.sub(r'\s+', ' ', fn_body(s, 'SortedPipeline::clear'))
    need(re.search(r'if \(iter\.next\(\)->type\(\) == type\) \{ iter\.remove\(\); \}', cb), 'SortedPipeline::clear(type) loop')
    out = HDR % 'src/qtlogger/sortedpipeline.cpp'
    out += 'Require Import List.\nImport ListNotations.\nRequire Import QtlVerif.SortedDefs.\n'
    out += 'Definition src_cfg : sorted_cfg := {|\n'
    out += '  nl_shape := %s; nr_shape := %s;\n' % (nl, nr)
    out += '  p_attr := %s;\n' % place('appendAttrHandler', 'attrHandler')
    out += '  p_filter := %s;\n' % place('appendFilter', 'filter')
    out += '  p_formatter := %s;\n' % place('setFormatter', 'formatter')
    out += '  p_sink := %s;\n' % place('appendSink', 'sink')
    out += '  p_pipeline := %s;\n' % place('appendPipeline', 'pipeline')
    out += '  fmt_clears_first := %s |}.\n' % ('true' if clears else 'false')
    return {'SrcSorted.v': out}


