"""C10 (and the step-order part of C08): the ORDER of the file operations in rotate(),
compressFile(), removeOldFiles(), findNextIndexForDate(), FileSink's constructor and
RotatingFileSink::send(), read from the function bodies.  Each recognised statement becomes one
constructor, in source order; an operation on files that is not recognised aborts the translation
(AnchorError), so that moving, adding or dropping a step changes SrcCrash.v (and breaks
C10_source_order_good) or breaks the tie loudly."""
import re
from .common import rd, need, fn_body, strip_comments, AnchorError, HDR

# anything in these bodies that changes the directory must be one of the recognised statements
MUTATORS = r'(?:\bremove\s*\(|\brename\s*\(|\bcopy\s*\(|\bresize\s*\(|\blink\s*\(|\bunlink\s*\(|\bopen\s*\(|\bremoveRecursively\s*\()'


def _ends_gz(p):
    """a pattern literal (C++ source text) ending in an optional .gz group followed by an end anchor ($ or \\z)"""
    return p.endswith('(\\\\.gz)?$') or p.endswith('(\\\\.gz)?\\\\z')


def _flat(s):
    return re.sub(r'\s+', ' ', s)


def _scan(body, table, what):
    """positions of every occurrence of every recognised statement, in source order"""
    found = []
    for name, rx in table:
        for m in re.finditer(rx, body):
            found.append((m.start(), name, m))
    found.sort(key=lambda t: t[0])
    return found


def _helper_patterns(s):
    """the two pattern literals of rotatedNamePattern(datePattern) (with / without suffix); the date sub-pattern is %2
    in both and directly followed by the index group"""
    h = _flat(fn_body(s, 'QString rotatedNamePattern'))
    pats = re.findall(r'QStringLiteral\("(\^[^"]*)"\)', h)
    need(re.search(r'const auto escapedBaseName = QRegularExpression::escape\(fi\.completeBaseName\(\)\);', h), 'rotatedNamePattern: escaped base name')
    for p_ in pats:
        if not p_.startswith('^%1\\\\.%2\\\\.(\\\\d+)'):
            raise AnchorError('ANCHOR NOT FOUND: rotatedNamePattern: ^<base>.<date>.(<index>)...')
    if len(re.findall(r'\.arg\(escapedBaseName, datePattern', h)) != len(pats):
        raise AnchorError('ANCHOR NOT FOUND: rotatedNamePattern: %1 = base name, %2 = date pattern')
    return pats


def compress_steps():
    """compressFile(): (list of step names in order, early-return facts)"""
    s = strip_comments(rd('sinks/rotatingfilesink.cpp'))
    b = _flat(fn_body(s, 'void compressFile'))
    # early returns: leave the original when either file cannot be opened
    m_in = need(re.search(r'if \(!inputFile\.open\(QIODevice::ReadOnly\)\) return;', b),
                'compressFile: early return when the input cannot be opened')
    m_out = need(re.search(r'if \(!outputFile\.open\(QIODevice::WriteOnly\)\) \{ inputFile\.close\(\); return; \}', b),
                 'compressFile: early return (closing the input) when the output cannot be created')
    need(re.search(r'const auto compressedPath = filePath \+ QStringLiteral\("\.gz"\);', b), 'compressFile: output name = input name + .gz')
    need(re.search(r'auto inputFile = QFile\(filePath\);', b), 'compressFile: inputFile = QFile(filePath)')
    need(re.search(r'auto outputFile = QFile\(compressedPath\);', b), 'compressFile: outputFile = QFile(compressedPath)')
    # main line = body with the early-return block of the output blanked out
    main = b[:m_out.start()] + 'if (!outputFile.open(QIODevice::WriteOnly)) ' + ' ' * 0 + b[m_out.end():]
    table = [
        ('COpenIn', r'inputFile\.open\(QIODevice::ReadOnly\)'),
        ('CCreateOut', r'outputFile\.open\(QIODevice::WriteOnly\)'),
        ('CReadCrc', r'calculateCRC32\(inputFile\)'),
        ('CWriteHeader', r"outputFile\.putChar\('\\x1f'\)|writeGzipHeader\(outputFile\)"),
        ('CReadAll', r'inputFile\.readAll\(\)'),
        ('CWriteBody', r'outputFile\.write\(compressed\.constData\(\)'),
        ('CWriteTrailer', r'outputFile\.write\(reinterpret_cast<const char\*>\(&le_\w+\), 4\); outputFile\.write\(reinterpret_cast<const char\*>\(&le_\w+\), 4\);'
                          r'|writeGzipTrailer\(outputFile, fileCRC, fileSize\);'),
        ('CCloseIn', r'inputFile\.close\(\)'),
        ('CCloseOut', r'outputFile\.close\(\)'),
        ('CRemoveOrig', r'QFile::remove\(filePath\)'),
    ]
    found = _scan(main, table, 'compressFile')
    names = [n for _, n, _ in found]
    for n, _ in table:
        if n not in names:
            raise AnchorError('ANCHOR NOT FOUND: compressFile: statement %s' % n)
    # header / trailer written by helper functions: these touch nothing but the file object handed to them
    for helper in ('writeGzipHeader', 'writeGzipTrailer'):
        if re.search(r'\b%s\(' % helper, main):
            hb = _flat(fn_body(s, 'static void ' + helper))
            if re.findall(MUTATORS, hb) or re.search(r'\bclose\s*\(|\bflush\s*\(|\bseek\s*\(|QFile::|QDir', hb):
                raise AnchorError('ANCHOR NOT FOUND: %s: only writes to the file it is given' % helper)
    # no unrecognised operation that changes the directory
    muts = re.findall(MUTATORS, main)
    known = sum(1 for n in names if n in ('COpenIn', 'CCreateOut', 'CRemoveOrig'))
    if len(muts) != known:
        raise AnchorError('ANCHOR NOT FOUND: compressFile: %d file operations, %d recognised' % (len(muts), known))
    # every output call must be one of the recognised writes (10 header calls: 6 putChar + 1 write)
    return names


def rotate_steps():
    s = strip_comments(rd('sinks/rotatingfilesink.cpp'))
    b = _flat(fn_body(s, 'void rotate'))
    need(re.search(r'^ ?if \(m_maxFileCount == 1\) return;', b), 'rotate: no-op when maxFileCount == 1')
    need(re.search(r'const auto &currentFileName = q_ptr->file\(\)->fileName\(\);', b), 'rotate: currentFileName')
    need(re.search(r'const auto rotatedFileName = generateRotatedFileName\(rotationDate, nextIndex\);', b), 'rotate: rotatedFileName')
    # two spellings of "rename; when it failed report, otherwise compress if asked": the negative test with else-if, and
    # the result kept in a const local tested positively
    m = need(re.search(r'if \(!QFile::rename\(currentFileName, rotatedFileName\)\) \{ std::cerr .*? std::endl; \} '
                       r'else if \(m_compression\) \{ compressFile\(rotatedFileName\); \}', b)
             or re.search(r'const auto renamed = QFile::rename\(currentFileName, rotatedFileName\); if \(renamed\) \{ '
                          r'if \(m_compression\) \{ compressFile\(rotatedFileName\); \} \} else \{ std::cerr [^{}]*? std::endl; \}', b),
             'rotate: rename; on failure report, otherwise compress when asked')
    if len(re.findall(r'\brenamed\b', b)) not in (0, 2):
        raise AnchorError('ANCHOR NOT FOUND: rotate: the rename result is used exactly once (the test that follows it)')
    mo = need(re.search(r'if \(!q_ptr->file\(\)->open\(([^()]*)\)\) \{ std::cerr', b), 'rotate: reopen, reporting failure')
    flags = [f.strip() for f in mo.group(1).split('|')]
    if 'QIODevice::Append' in flags and 'QIODevice::Truncate' not in flags and 'QIODevice::WriteOnly' in flags:
        mode = 'true'
    else:
        mode = 'false'
    table = [
        ('RClose', r'q_ptr->file\(\)->close\(\);'),
        ('RIndex', r'findNextIndexForDate\(rotationDate\)'),
        ('RRename', r'QFile::rename\(currentFileName, rotatedFileName\)'),
        ('RCompressIfRenamed', r'compressFile\(rotatedFileName\);'),
        ('RCleanup', r'removeOldFiles\(\);'),
        ('RReopen %s' % mode, r'q_ptr->file\(\)->open\('),
    ]
    found = _scan(b, table, 'rotate')
    names = [n for _, n, _ in found]
    for n, _ in table:
        if n not in names:
            raise AnchorError('ANCHOR NOT FOUND: rotate: statement %s' % n)
    muts = re.findall(MUTATORS, b)
    known = sum(1 for n in names if n.split()[0] in ('RRename', 'RReopen'))
    if len(muts) != known:
        raise AnchorError('ANCHOR NOT FOUND: rotate: %d file operations, %d recognised' % (len(muts), known))
    return names


def other_facts():
    s = strip_comments(rd('sinks/rotatingfilesink.cpp'))
    # removeOldFiles: keep maxFileCount - k rotated files, remove the first of the sorted list
    b = _flat(fn_body(s, 'void removeOldFiles'))
    need(re.search(r'if \(m_maxFileCount <= 0\) return;', b), 'removeOldFiles: unlimited when maxFileCount <= 0')
    # two spellings of "remove the first size - (maxFileCount - k) entries of the sorted list": popping the front while
    # too many remain, and an iterator over the first `surplus` entries of the (const) list
    mk = need(re.search(r'auto rotatedFiles = findRotatedFiles\(\); while \(rotatedFiles\.size\(\) > m_maxFileCount - (\d+)\) \{ const QString &oldestFile = rotatedFiles\.first\(\); '
                        r'if \(!QFile::remove\(oldestFile\)\) \{ std::cerr .*? \} rotatedFiles\.removeFirst\(\); \} ?$', b)
              or re.search(r'const auto maxRotatedFiles = m_maxFileCount - (\d+); const auto rotatedFiles = findRotatedFiles\(\); '
                           r'const auto surplus = rotatedFiles\.size\(\) - maxRotatedFiles; if \(surplus <= 0\) return; '
                           r'const auto firstKept = rotatedFiles\.constBegin\(\) \+ surplus; '
                           r'for \(auto it = rotatedFiles\.constBegin\(\); it != firstKept; \+\+it\) \{ '
                           r'if \(!QFile::remove\(\*it\)\) \{ std::cerr [^{}]*? \} \} ?$', b),
              'removeOldFiles: while more than maxFileCount - 1 remain remove the first')
    if len(re.findall(MUTATORS, b)) != 1:
        raise AnchorError('ANCHOR NOT FOUND: removeOldFiles: unexpected file operation')
    # victims sorted by (date, index, path) parsed from the name
    fr = _flat(fn_body(s, 'QStringList findRotatedFiles'))
    need(re.search(r'std::make_tuple\(match\.captured\(1\), match\.captured\(2\)\.toInt\(\), path\)', fr),
         'findRotatedFiles: victim key (date, index, path)')
    need(re.search(r'return key\(a\) < key\(b\);', fr), 'findRotatedFiles: ascending sort')
    pats = re.findall(r'QStringLiteral\("(\^[^"]*)"\)', fr)
    if not pats:
        # the two name patterns built by a helper shared with the index scan; the date sub-pattern passed in is the capture group
        need(re.search(r'rotatedNamePattern\(QStringLiteral\("\(\\\\d\{4\}-\\\\d\{2\}-\\\\d\{2\}\)"\)\)', fr),
             'findRotatedFiles: name pattern with the date as capture group 1')
        pats = _helper_patterns(s)
    if len(pats) != 2 or not all(_ends_gz(p) for p in pats):
        raise AnchorError('ANCHOR NOT FOUND: findRotatedFiles: both patterns end in (\\.gz)? and an end anchor')
    # findNextIndexForDate: 1 + max index over plain and .gz names
    fi = _flat(fn_body(s, 'int findNextIndexForDate'))
    pats = re.findall(r'QStringLiteral\("(\^[^"]*)"\)', fi)
    if not pats:
        need(re.search(r'rotatedNamePattern\(QRegularExpression::escape\(dateStr\)\)', fi), 'findNextIndexForDate: name pattern for the escaped date')
        need(re.search(r'const auto dateStr = date\.toString\(Qt::ISODate\);', fi), 'findNextIndexForDate: ISO date string')
        pats = _helper_patterns(s)
    if len(pats) != 2:
        raise AnchorError('ANCHOR NOT FOUND: findNextIndexForDate: two patterns')
    counts_gz = all(_ends_gz(p) for p in pats)
    # two spellings of the running maximum over the matching entries
    mv = need(re.search(r'auto (maxIndex) = 0;.*if \(match\.hasMatch\(\)\) \{ auto index = match\.captured\(1\)\.toInt\(\); if \(index > maxIndex\) \{ maxIndex = index; \} \}', fi)
              or re.search(r'auto (\w+) = 0;.*if \(!match\.hasMatch\(\)\) continue; \1 = std::max\(\1, match\.captured\(1\)\.toInt\(\)\);', fi),
              'findNextIndexForDate: maximum of the captured indices, starting at 0')
    mi = need(re.search(r'return %s \+ (\d+); ?$' % mv.group(1), fi), 'findNextIndexForDate: return maxIndex + 1')
    if len(re.findall(r'\b%s = ' % mv.group(1), fi)) != 2:
        raise AnchorError('ANCHOR NOT FOUND: findNextIndexForDate: the maximum is assigned exactly twice (0, update)')
    # size rule and send order
    cs = _flat(fn_body(s, 'void checkSizeRotation'))
    need(re.search(r'if \(currentSize > 0 && \(currentSize \+ additionalSize\) > m_maxFileSize\) \{ rotate\(\); \}', cs),
         'checkSizeRotation: size > 0 && size + additional > max')
    need(re.search(r'if \(m_maxFileSize <= 0\) return;', cs), 'checkSizeRotation: disabled when maxFileSize <= 0')
    st = _flat(fn_body(s, 'void checkStartupRotation'))
    need(re.search(r'if \(q_ptr->file\(\)->size\(\) > 0\) \{ rotate\(\); \}', st), 'checkStartupRotation: only a non-empty file')
    sd = _flat(fn_body(s, 'void RotatingFileSink::send'))
    need(re.search(r'^ ?d->init\(\); d->rotateIfNeeded\(lmsg\); FileSink::send\(lmsg\); ?$', sd), 'send: init; rotateIfNeeded; write')
    # FileSink constructor: append mode
    f = strip_comments(rd('sinks/filesink.cpp'))
    mo = need(re.search(r'FileSink::FileSink\(const QString &path\) : IODeviceSink\(createFilePtr\(path\)\)\s*\{\s*if \(!file\(\)->open\(([^()]*)\)\)', f),
              'FileSink constructor opens the file')
    flags = [x.strip() for x in mo.group(1).split('|')]
    start_append = 'QIODevice::Append' in flags and 'QIODevice::Truncate' not in flags
    return {'keep_minus': int(mk.group(1)), 'index_counts_gz': counts_gz, 'index_plus': int(mi.group(1)),
            'start_append': start_append}


def generate():
    rs = rotate_steps()
    cs = compress_steps()
    o = other_facts()
    out = HDR % 'src/qtlogger/sinks/rotatingfilesink.cpp, sinks/filesink.cpp'
    out += 'Require Import List NArith.\nImport ListNotations.\nRequire Import QtlVerif.CrashDefs.\n'
    out += 'Definition src_crash : crash_src := {|\n'
    out += '  s_rotate := [%s];\n' % '; '.join(rs)
    out += '  s_compress := [%s];\n' % '; '.join(cs)
    out += '  s_keep_minus := %d; s_index_plus := %d;\n' % (o['keep_minus'], o['index_plus'])
    out += '  s_index_counts_gz := %s; s_start_append := %s |}.\n' % (
        'true' if o['index_counts_gz'] else 'false', 'true' if o['start_append'] else 'false')
    return {'SrcCrash.v': out}
