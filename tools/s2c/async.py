"""C03: the member table of LogMessage's copy constructor (which members are re-homed into owned byte arrays, which
are copied, which are left to their default initialiser) and the skeletons of OwnThreadHandler::process (asynchronous
view) and Worker::customEvent, as values of the IR of AsyncDefs.v."""
import re
from .common import rd, need, strip_comments, AnchorError, HDR
from .conc import preprocess, Walker, parse_function, _split_args, _balanced, walk, flush_when_running

MEMBERS = {'m_type': 'FType', 'm_message': 'FText', 'm_time': 'FTime', 'm_steadyTime': 'FSteady',
           'm_qthreadptr': 'FTid', 'm_formattedMessage': 'FFmt', 'm_attributes': 'FAttrs'}
PTRS = [('m_file', 'file', 'FFile', 0), ('m_function', 'function', 'FFunc', 2), ('m_category', 'category', 'FCat', 3)]


def copy_table():
    h = strip_comments(rd('logmessage.h'))
    m = need(re.search(r'LogMessage\s*\(\s*const\s+LogMessage\s*&\s*(\w+)\s*\)\s*(?:noexcept)?\s*:', h), 'logmessage.h: copy constructor with an initialiser list')
    src = m.group(1)
    i = m.end()
    # the initialiser list ends at the '{' of the body at parenthesis depth 0
    j, depth = i, 0
    while True:
        c = h[j]
        if c in '(':
            depth += 1
        elif c == ')':
            depth -= 1
        elif c == '{' and depth == 0:
            break
        j += 1
    inits = {}
    for it in _split_args(preprocess(h[i:j])):
        mm = need(re.match(r'^(\w+)\s*[({]\s*(.*?)\s*[)}]$', it, re.S), 'copy constructor: initialiser `%s`' % it[:60])
        inits[mm.group(1)] = re.sub(r'\s+', '', mm.group(2))
    table = {}
    for mem, f in MEMBERS.items():
        if mem not in inits:
            continue                      # default member initialiser runs again: Fresh
        need(inits[mem] == '%s.%s' % (src, mem), 'copy constructor: %s initialised from `%s`' % (mem, inits[mem]))
        table[f] = 'CopyVal'
    ctx = need(inits.get('m_context'), 'copy constructor: m_context initialiser')
    args = _split_args(ctx)
    need(len(args) == 4, 'copy constructor: m_context(file, line, function, category)')
    if args[1] == '%s.m_context.line' % src or args[1] == '%s.line()' % src:
        table['FLine'] = 'CopyVal'
    for mem, cname, f, k in PTRS:
        a = args[k]
        if a in ('%s.constData()' % mem, '%s.data()' % mem):
            need(inits.get(mem) in ('%s.m_context.%s' % (src, cname), '%s.%s()' % (src, cname)),
                 'copy constructor: %s initialised from the source context' % mem)
            table[f] = 'Rehome'
        elif a in ('%s.m_context.%s' % (src, cname), '%s.%s()' % (src, cname)):
            table[f] = 'Alias'
        elif a in ('nullptr', '0', 'NULL'):
            pass
        else:
            raise AnchorError('ANCHOR NOT FOUND: copy constructor: context argument `%s`' % a)
    unknown = set(inits) - set(MEMBERS) - {'m_context', 'm_file', 'm_function', 'm_category'}
    need(not unknown, 'copy constructor: unknown member initialisers %s' % sorted(unknown))
    # the owned buffers must be declared (hence initialised) before m_context
    pc = need(re.search(r'const\s+QMessageLogContext\s+m_context\s*;', h), 'logmessage.h: m_context member').start()
    for mem, _, _, _ in PTRS:
        pm = need(re.search(r'const\s+QByteArray\s+%s\s*;' % mem, h), 'logmessage.h: %s member' % mem).start()
        need(pm < pc, 'logmessage.h: %s declared before m_context' % mem)
    return table


def time_sources():
    """PatternFormatter's TimeToken::appendToString: which clock the two RELATIVE formats read - the steady time stamp carried by
    the message (lmsg.steadyTime(): TSMessage) or the clock at the moment of formatting (TSClock), which in an asynchronous pipeline
    is the moment the logger thread got round to the message"""
    src = strip_comments(rd('formatters/patternformatter.cpp'))
    m = need(re.search(r'class\s+TimeToken\b', src), 'patternformatter.cpp: class TimeToken')
    body = src[m.end():]
    e = re.search(r'\n(?:class|struct)\s+\w+', body)
    body = body[:e.start()] if e else body
    a = need(re.search(r'void\s+appendToString\s*\(\s*const\s+LogMessage\s*&\s*(\w+)\s*,', body), 'TimeToken::appendToString(const LogMessage &, ...)')
    var = a.group(1)
    fn = body[a.end():]
    e = re.search(r'\n\s*(?:size_t|int|void|QString)\s+\w+\s*\(', fn)
    fn = fn[:e.start()] if e else fn
    out = {}
    marks = [(k, need(re.search(r'm_format\s*==\s*QLatin1String\s*\(\s*"%s"\s*\)' % k, fn), 'TimeToken: branch for the "%s" format' % k).end())
             for k in ('process', 'boot')]
    for k, at in marks:
        later = [x for _, x in marks if x > at]
        nxt = re.search(r'\belse\b', fn[at:])
        end = min(later + [at + nxt.start() if nxt else len(fn)])
        seg = fn[at:end]
        from_msg = re.search(r'\b%s\s*\.\s*steadyTime\s*\(\s*\)' % re.escape(var), seg) is not None
        from_clk = re.search(r'\bnow\s*\(|currentMSecsSinceEpoch|currentDateTime|QElapsedTimer|clock_gettime', seg) is not None
        if from_clk:
            out[k] = 'TSClock'
        elif from_msg:
            out[k] = 'TSMessage'
        else:
            raise AnchorError('ANCHOR NOT FOUND: TimeToken "%s" format: neither %s.steadyTime() nor a clock read' % (k, var))
    return out


def to_coq(ir):
    out = []
    for x in ir:
        k = x[0]
        if k in ('Lock', 'Unlock'):
            need(x[1] == 'M', 'asynchronous skeleton: only the handler mutex is expected')
            out.append('A%s MM' % k)
        elif k == 'IfWorker':
            out.append('AIfWorker %s %s' % (to_coq(x[1]), to_coq(x[2])))
        elif k == 'Guard':
            out.append('AGuard %s' % to_coq(x[1]))
        elif k in ('Inc', 'Dec', 'Work', 'Other', 'PostPrio'):
            out.append('A' + k)
        elif k == 'Post':
            out.append('APostEv')
        else:
            raise AnchorError('ANCHOR NOT FOUND: asynchronous skeleton: unexpected `%s`' % k)
    return '[' + '; '.join(out) + ']'


def worker_move(oh):
    """moveToOwnThread(): is `m_worker->moveToThread(m_thread)` an unconditional statement of the function body (WMAlways),
    nested in the `if (qApp)` block (WMIfApp), or absent / under any other condition (WMNever: nothing is claimed then)?"""
    m = need(re.search(r'&\s*moveToOwnThread\s*\(\s*\)\s*\{', oh), 'OwnThreadHandler::moveToOwnThread')
    i, depth, conds, body = m.end(), 1, [], ''
    start = i
    while i < len(oh) and depth > 0:
        c = oh[i]
        if c == '{':
            head = oh[start:i].strip().split(';')[-1].strip()
            conds.append(head); depth += 1; start = i + 1
        elif c == '}':
            depth -= 1; conds and conds.pop(); start = i + 1
        elif oh.startswith('m_worker->moveToThread(m_thread)', i):
            if not conds:
                # unconditional only if no return precedes it other than the early `if (m_thread) return *this;`
                return 'WMAlways'
            if len(conds) == 1 and re.fullmatch(r'if\s*\(\s*qApp\s*\)', conds[0]):
                return 'WMIfApp'
            return 'WMNever'
        i += 1
    return 'WMNever'


def generate():
    oh = strip_comments(rd('ownthreadhandler.h'))
    m = need(re.search(r'bool\s+process\s*\(\s*LogMessage\s*&', oh), 'OwnThreadHandler::process')
    proc = Walker('OwnThreadHandler::process', 'async').block(parse_function(oh[m.start():], 'process'), top=True)
    m = need(re.search(r'void\s+customEvent\s*\(\s*QEvent\s*\*\s*event\s*\)\s*override', oh), 'Worker::customEvent')
    cev = Walker('OwnThreadHandler::Worker::customEvent', 'async').block(parse_function(oh[m.start():], 'customEvent'), top=True)
    # the event owns a LogMessage by value, built by the copy constructor
    need(re.search(r'LogEvent\s*\(\s*const\s+LogMessage\s*&\s*lmsg\s*\)\s*:\s*QEvent\s*\(\s*type\(\)\s*\)\s*,\s*lmsg\s*\(\s*lmsg\s*\)', oh),
         'LogEvent constructor copies the message')
    need(re.search(r'\n\s*LogMessage\s+lmsg\s*;', oh), 'LogEvent holds the LogMessage by value')
    need(re.search(r'm_worker->moveToThread\(m_thread\)', oh), 'the worker object lives in the own thread')
    wmove = worker_move(oh)
    # Logger::processMessage: the fatal branch may flush the sinks from the calling thread only while no own thread runs
    lg = strip_comments(rd('logger.cpp'))
    pm = walk(lg, 'Logger::processMessage', 'Logger::processMessage', view='async', guards='take')
    tab = copy_table()
    ts = time_sources()
    out = HDR % 'src/qtlogger/logmessage.h, ownthreadhandler.h, formatters/patternformatter.cpp'
    out += 'Require Import List.\nImport ListNotations.\nRequire Import QtlVerif.AsyncDefs.\n'
    out += '(* members of LogMessage as initialised by its copy constructor; a member not listed keeps its default initialiser *)\n'
    order = ['FType', 'FText', 'FFile', 'FLine', 'FFunc', 'FCat', 'FTime', 'FSteady', 'FTid', 'FFmt', 'FAttrs']
    out += 'Definition src_copy_table : list (field * ckind) :=\n  [%s].\n' % '; '.join('(%s, %s)' % (f, tab[f]) for f in order if f in tab)
    out += 'Definition src_copy_cfg : copy_cfg := cfg_of src_copy_table.\n'
    out += '(* OwnThreadHandler<BaseHandler>::process *)\nDefinition src_process : list ainstr :=\n  %s.\n' % to_coq(proc)
    out += '(* OwnThreadHandler<BaseHandler>::Worker::customEvent *)\nDefinition src_custom_event : list ainstr :=\n  %s.\n' % to_coq(cev)
    out += '(* does Logger::processMessage reach flush() (Sink::flush on the CALLING thread) while the own thread is running? *)\n'
    out += 'Definition src_caller_flushes_while_worker_runs : bool := %s.\n' % ('true' if flush_when_running(pm) else 'false')
    out += '(* PatternFormatter, TimeToken::appendToString: the clock read by %{time process} / %{time boot} *)\n'
    out += 'Definition src_time_process : tsrc := %s.\nDefinition src_time_boot : tsrc := %s.\n' % (ts['process'], ts['boot'])
    out += '(* moveToOwnThread(): under which condition the worker object is given the affinity of the own thread *)\n'
    out += 'Definition src_worker_move : wmove := %s.\n' % wmove
    return {'SrcAsync.v': out}
