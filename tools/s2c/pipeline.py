"""C01: control-flow facts of Pipeline::process, of the four per-kind process() adapters, of
LogMessage's formatted-text accessors and of SimplePipeline::pipeline()/end().

Every fact is read with a regular expression anchored on the normalised text of the function it
lives in.  A spot that has one of the recognised alternative shapes becomes a `false` field of
`src_cfg` (the theorem C01_source_configuration_good then no longer checks); any other shape raises
AnchorError (the translator tie is reported as broken and the differential run decides)."""
import re
from .common import rd, need, fn_body, strip_comments, AnchorError, HDR


def norm(s):
    return re.sub(r'\s+', ' ', s).strip()


def inline_body(src, pattern, what):
    """body of an inline member function whose header matches `pattern` (up to the opening brace)"""
    m = need(re.search(pattern + r'\s*\{', src), what)
    i = m.end() - 1
    depth, k = 0, i
    while True:
        if src[k] == '{':
            depth += 1
        elif src[k] == '}':
            depth -= 1
            if depth == 0:
                return norm(src[i + 1:k])
        k += 1


def b(x):
    return 'true' if x else 'false'


def generate():
    cfg = {}
    # ---- Pipeline::process (pipeline.cpp)
    body = norm(fn_body(strip_comments(rd('pipeline.cpp')), 'Pipeline::process'))
    m = need(re.match(
        r'^QString fmsg(?P<init>| = ""| = QString\(""\)| = QLatin1String\(""\)| = QStringLiteral\(""\)|\(""\)); '
        r'QVariantHash attrs; '
        r'if \(m_scoped\) \{ (?P<save>.*?) attrs = lmsg\.attributes\(\); \} '
        r'for \(auto &handler : m_handlers\) \{ (?P<loop>.*?) \} '
        r'(?P<restore>if \(m_scoped\) \{ .*? \} )?'
        r'return (?P<ret>.*?);$', body), 'Pipeline::process: overall shape (declarations; save under m_scoped; range-for over m_handlers; restore under m_scoped; return)')
    cfg['fmsg_init_null'] = m.group('init') == ''
    save = m.group('save')
    if save == 'if (lmsg.isFormatted()) { fmsg = lmsg.formattedMessage(); }':
        cfg['save_fmt_if_formatted'] = True
    elif save == 'fmsg = lmsg.formattedMessage();':
        cfg['save_fmt_if_formatted'] = False
    else:
        raise AnchorError('ANCHOR NOT FOUND: Pipeline::process: unrecognised save of the formatted text: ' + save)
    loop = m.group('loop')
    lm = need(re.match(r'^if \(!handler\) (?P<null>continue|break); '
                       r'if \(!handler->process\(lmsg\)\) (?P<rej>break|continue);$', loop),
              'Pipeline::process: loop body `if (!handler) continue; if (!handler->process(lmsg)) break;` (found: %s)' % loop)
    cfg['null_skips'] = lm.group('null') == 'continue'
    cfg['reject_breaks'] = lm.group('rej') == 'break'
    restore = (m.group('restore') or '').strip()
    rm = need(re.match(r'^(if \(m_scoped\) \{ (?P<stmts>.*?) \})?$', restore), 'Pipeline::process: restore block')
    stmts = [s.strip() for s in (rm.group('stmts') or '').split(';') if s.strip()]
    for s in stmts:
        if s not in ('lmsg.setFormattedMessage(fmsg)', 'lmsg.setAttributes(attrs)'):
            raise AnchorError('ANCHOR NOT FOUND: Pipeline::process: unrecognised statement in the restore block: ' + s)
    cfg['restores_fmt'] = 'lmsg.setFormattedMessage(fmsg)' in stmts
    cfg['restores_attrs'] = 'lmsg.setAttributes(attrs)' in stmts
    ret = m.group('ret')
    if ret == 'true':
        cfg['pipe_returns_true'] = True
    else:
        # any other expression (false, a flag, ...) is not the unconditional `true`
        raise AnchorError('ANCHOR NOT FOUND: Pipeline::process: `return true;` (found: return %s;)' % ret)
    # ---- the null check of the single-handler append, the unchecked list append (null entries can exist)
    ps = strip_comments(rd('pipeline.cpp'))
    need(re.search(r'void Pipeline::append\(const HandlerPtr &handler\)\s*\{\s*if \(handler\.isNull\(\)\)\s*return;\s*m_handlers\.append\(handler\);\s*\}', ps),
         'Pipeline::append(handler): null ignored, appended at the end')
    need(re.search(r'void Pipeline::append\(std::initializer_list<HandlerPtr> handlers\)\s*\{\s*m_handlers\.append\(handlers\);\s*\}', ps),
         'Pipeline::append(initializer_list): appended at the end')
    # ---- adapters
    ah = inline_body(strip_comments(rd('attrhandler.h')), r'bool process\(LogMessage &lmsg\) override', 'AttrHandler::process')
    am = need(re.match(r'^lmsg\.updateAttributes\(attributes\(lmsg\)\); return (true|false);$', ah),
              'AttrHandler::process: `lmsg.updateAttributes(attributes(lmsg)); return true;` (found: %s)' % ah)
    cfg['attr_continues'] = am.group(1) == 'true'
    fh = inline_body(strip_comments(rd('filter.h')), r'bool process\(LogMessage &lmsg\) override final', 'Filter::process')
    if fh == 'return filter(lmsg);':
        cfg['filter_returns_verdict'] = True
    elif re.match(r'^(filter\(lmsg\); )?return true;$', fh):
        cfg['filter_returns_verdict'] = False
    else:
        raise AnchorError('ANCHOR NOT FOUND: Filter::process: `return filter(lmsg);` (found: %s)' % fh)
    mh = inline_body(strip_comments(rd('formatter.h')), r'bool process\(LogMessage &lmsg\) override final', 'Formatter::process')
    mm = need(re.match(r'^(?P<guard>if \(!lmsg\.isFormatted\(\)\) )?lmsg\.setFormattedMessage\(format\(lmsg\)\); return (?P<r>true|false);$', mh),
              'Formatter::process: `lmsg.setFormattedMessage(format(lmsg)); return true;` (found: %s)' % mh)
    cfg['fmt_overwrites'] = mm.group('guard') is None
    cfg['fmt_continues'] = mm.group('r') == 'true'
    sh = inline_body(strip_comments(rd('sink.h')), r'bool process\(LogMessage &lmsg\) override final', 'Sink::process')
    sm = need(re.match(r'^send\(lmsg\); return (true|false);$', sh),
              'Sink::process: `send(lmsg); return true;` (found: %s)' % sh)
    cfg['sink_continues'] = sm.group(1) == 'true'
    gh = inline_body(strip_comments(rd('functionhandler.h')), r'bool process\(LogMessage &lmsg\) override', 'FunctionHandler::process')
    need(gh == 'return m_function(lmsg);', 'FunctionHandler::process: `return m_function(lmsg);` (found: %s)' % gh)
    # ---- LogMessage: formatted text falls back to the raw text; null string = unformatted; plain setters
    lh = strip_comments(rd('logmessage.h'))
    need(inline_body(lh, r'inline QString formattedMessage\(\) const', 'LogMessage::formattedMessage')
         == 'return isFormatted() ? m_formattedMessage : m_message;', 'LogMessage::formattedMessage: falls back to m_message')
    need(inline_body(lh, r'inline bool isFormatted\(\) const', 'LogMessage::isFormatted')
         == 'return !m_formattedMessage.isNull();', 'LogMessage::isFormatted: !isNull()')
    need(inline_body(lh, r'inline void setFormattedMessage\(const QString &formattedMessage\)', 'LogMessage::setFormattedMessage')
         == 'm_formattedMessage = formattedMessage;', 'LogMessage::setFormattedMessage: plain assignment')
    need(inline_body(lh, r'inline void setAttributes\(const QVariantHash &attrs\)', 'LogMessage::setAttributes')
         == 'm_attributes = attrs;', 'LogMessage::setAttributes: plain assignment')
    need(inline_body(lh, r'inline void setAttribute\(const QString &name, const QVariant &value\)', 'LogMessage::setAttribute')
         == 'm_attributes.insert(name, value);', 'LogMessage::setAttribute: unconditional m_attributes.insert(name, value)')
    need(inline_body(lh, r'inline void removeAttribute\(const QString &name\)', 'LogMessage::removeAttribute')
         == 'm_attributes.remove(name);', 'LogMessage::removeAttribute: m_attributes.remove(name)')
    need(inline_body(lh, r'inline QVariantHash attributes\(\) const', 'LogMessage::attributes')
         == 'return m_attributes;', 'LogMessage::attributes')
    need(re.search(r'm_attributes\.insert\(attrs\);', inline_body(lh, r'inline void updateAttributes\(const QVariantHash &attrs\)', 'LogMessage::updateAttributes')),
         'LogMessage::updateAttributes: m_attributes.insert(attrs)')
    # ---- SimplePipeline::pipeline()/end()
    sp = strip_comments(rd('simplepipeline.cpp'))
    pb = norm(fn_body(sp, 'SimplePipeline::pipeline'))
    pm = need(re.match(r'^auto pipeline = SimplePipelinePtr::create\( ?(true|false), this\); append\(pipeline\); return \*pipeline\.data\(\);$', pb),
              'SimplePipeline::pipeline: create(scoped, this); append; return child (found: %s)' % pb)
    cfg['fluent_child_scoped'] = pm.group(1) == 'true'
    eb = norm(fn_body(sp, 'SimplePipeline::end'))
    need(eb == 'if (m_parent) return *m_parent; else return *this;', 'SimplePipeline::end: returns the parent (found: %s)' % eb)
    hb = norm(fn_body(sp, 'SimplePipeline::handler'))
    need(hb == 'append(FunctionHandlerPtr::create(std::move(func))); return *this;', 'SimplePipeline::handler: plain append')
    # ---- the edits of a configured pipeline (model: apply_op): remove / clear / operator<<, the typed SortedPipeline calls
    need(norm(fn_body(ps, 'Pipeline::remove')) == 'if (handler.isNull()) return; m_handlers.removeAll(handler);',
         'Pipeline::remove: null ignored, removeAll')
    need(norm(fn_body(ps, 'Pipeline::clear')) == 'm_handlers.clear();', 'Pipeline::clear: m_handlers.clear()')
    need(norm(fn_body(ps, 'Pipeline::operator<<')) == 'append(handler); return *this;', 'Pipeline::operator<<: append')
    so = strip_comments(rd('sortedpipeline.cpp'))
    sorted_bodies = {
        'SortedPipeline::insertBetweenNearLeft':
            'auto firstRight = std::find_if(handlers().begin(), handlers().end(), [&rightType](const auto &x) { return rightType.contains(x->type()); }); '
            'auto lastLeft = std::find_if(std::make_reverse_iterator(firstRight), handlers().rend(), [&leftType](const HandlerPtr &x) { return leftType.contains(x->type()); }); '
            'handlers().insert(lastLeft.base(), handler);',
        'SortedPipeline::insertBetweenNearRight':
            'auto lastLeft = std::find_if(handlers().rbegin(), handlers().rend(), [&leftType](const HandlerPtr &x) { return leftType.contains(x->type()); }); '
            'auto firstRight = std::find_if(lastLeft.base(), handlers().end(), [&rightType](const auto &x) { return rightType.contains(x->type()); }); '
            'handlers().insert(firstRight, handler);',
        'SortedPipeline::appendAttrHandler':
            'if (attrHandler.isNull()) return; insertBetweenNearLeft({ HandlerType::AttrHandler }, '
            '{ HandlerType::Filter, HandlerType::Formatter, HandlerType::Sink, HandlerType::Pipeline }, attrHandler);',
        'SortedPipeline::appendFilter':
            'if (filter.isNull()) return; insertBetweenNearLeft({ HandlerType::AttrHandler, HandlerType::Filter }, '
            '{ HandlerType::Formatter, HandlerType::Sink, HandlerType::Pipeline }, filter);',
        'SortedPipeline::setFormatter':
            'if (formatter.isNull()) return; clearFormatters(); insertBetweenNearRight({ HandlerType::AttrHandler, HandlerType::Filter }, '
            '{ HandlerType::Sink, HandlerType::Pipeline }, formatter);',
        'SortedPipeline::appendSink':
            'if (sink.isNull()) return; insertBetweenNearRight({ HandlerType::AttrHandler, HandlerType::Filter, HandlerType::Formatter, HandlerType::Sink }, '
            '{ HandlerType::Pipeline }, sink);',
        'SortedPipeline::appendPipeline': 'append(pipeline);',
        'SortedPipeline::clearAttrHandlers': 'clear(HandlerType::AttrHandler);',
        'SortedPipeline::clearFilters': 'clear(HandlerType::Filter);',
        'SortedPipeline::clearFormatters': 'clear(HandlerType::Formatter);',
        'SortedPipeline::clearSinks': 'clear(HandlerType::Sink);',
        'SortedPipeline::clearPipelines': 'clear(HandlerType::Pipeline);',
    }
    for fn, want in sorted_bodies.items():
        got = norm(fn_body(so, fn))
        need(got == want, '%s: the shape the edit model (apply_op) assumes (found: %s)' % (fn, got))
    need(re.search(r'void SortedPipeline::clear\(HandlerType type\)\s*\{\s*QMutableListIterator<HandlerPtr> iter\(handlers\(\)\);\s*'
                   r'while \(iter\.hasNext\(\)\) \{\s*if \(iter\.next\(\)->type\(\) == type\) \{\s*iter\.remove\(\);\s*\}\s*\}\s*\}', so),
         'SortedPipeline::clear(type): removes every handler of that type')
    need(re.search(r'void SortedPipeline::clear\(\)\s*\{\s*Pipeline::clear\(\);\s*\}', so), 'SortedPipeline::clear(): Pipeline::clear()')
    for fn, want in (('SimplePipeline::attrHandler', 'append(FunctionAttrHandlerPtr::create(func)); return *this;'),):
        need(norm(fn_body(sp, fn)) == want, fn + ': plain append')
    need(re.search(r'SimplePipeline &SimplePipeline::filter\(std::function<bool\(const LogMessage &\)> func\)\s*\{\s*append\(FunctionFilterPtr::create\(func\)\);\s*return \*this;\s*\}', sp),
         'SimplePipeline::filter(function): plain append')
    need(re.search(r'SimplePipeline &SimplePipeline::format\(std::function<QString\(const LogMessage &\)> func\)\s*\{\s*append\(FunctionFormatterPtr::create\(func\)\);\s*return \*this;\s*\}', sp),
         'SimplePipeline::format(function): plain append')
    out = HDR % 'src/qtlogger/{pipeline.cpp,attrhandler.h,filter.h,formatter.h,sink.h,functionhandler.h,logmessage.h,simplepipeline.cpp,sortedpipeline.cpp}'
    out += 'Require Import QtlVerif.PipelineDefs.\n'
    order = ['null_skips', 'reject_breaks', 'pipe_returns_true', 'fmsg_init_null', 'save_fmt_if_formatted',
             'restores_fmt', 'restores_attrs', 'attr_continues', 'filter_returns_verdict', 'fmt_overwrites',
             'fmt_continues', 'sink_continues', 'fluent_child_scoped']
    out += 'Definition src_cfg : pipe_cfg := {|\n  ' + ';\n  '.join('%s := %s' % (k, b(cfg[k])) for k in order) + ' |}.\n'
    return {'SrcPipeline.v': out}
