"""C13: the built-in entries of LogMessage::allAttributes() (names, accessors, order), the overlay
of the custom attributes, qtMsgTypeToString's table, and JsonFormatter's compact/indented switch."""
import re
from .common import rd, need, fn_body, strip_comments, AnchorError, HDR

ACCESSOR = {
    'qtMsgTypeToString(type())': 'BType', 'line()': 'BLine', 'file()': 'BFile', 'function()': 'BFunction',
    'category()': 'BCategory', 'message()': 'BMessage', 'formattedMessage()': 'BFormatted',
    'time()': 'BTime', 'threadId()': 'BThreadId',
}
QTMSG = {'QtDebugMsg': 0, 'QtWarningMsg': 1, 'QtCriticalMsg': 2, 'QtFatalMsg': 3, 'QtInfoMsg': 4}


def coq_str(s):
    return '[' + ';'.join(str(ord(c)) for c in s) + ']' if s else '[]'


def inline_single_use_consts(flat):
    """`const T X = EXPR; STMT` -> STMT with X replaced by EXPR, when STMT is the very next simple statement (no braces), uses X
    exactly once and X occurs nowhere else in the function.  EXPR is moved over nothing, so the evaluation order is kept."""
    while True:
        for m in re.finditer(r'const (?:auto|[\w:]+) (\w+) = ([^;{}]+); ([^;{}]*;)', flat):
            name, expr, stmt = m.groups()
            word = r'\b%s\b' % re.escape(name)
            if len(re.findall(word, flat)) == 2 and len(re.findall(word, stmt)) == 1:
                flat = flat[:m.start()] + re.sub(word, lambda _: expr, stmt) + flat[m.end():]
                break
        else:
            return flat


def generate():
    h = strip_comments(rd('logmessage.h'))
    # preprocessor: keep the Qt >= 5.15 branch and the thread-enabled branch (the harness build)
    body = fn_body(h, 'LogMessage::allAttributes')
    flat = re.sub(r'\s+', ' ', body)
    ENTRY = r'\{ QStringLiteral\("([^"]*)"\), ([^{}]*?) \}'
    m = re.search(r'auto (\w+) = QVariantHash \{(.*?)\};', flat)
    if m:
        # shape 1: auto V = QVariantHash { { QStringLiteral("name"), accessor }, ... };
        var, inner = m.group(1), m.group(2)
        need(flat[:m.start()].strip() == '', 'allAttributes(): unrecognised text before the hash is filled: %r' % flat[:m.start()].strip())
        entries = re.findall(ENTRY, inner)
        rest = re.sub(ENTRY + ',?', '', inner)
    else:
        # shape 2: QVariantHash V; [V.reserve(...);] V.insert(QStringLiteral("name"), accessor); ... (one insert per field, nothing
        # else in between; a later insert of the same name would replace: json_cfg_goodb demands distinct names)
        m0 = need(re.search(r'QVariantHash (\w+); (?:\1\.reserve\([^;{}]*\); )?', flat), 'allAttributes(): QVariantHash initialiser list')
        var = m0.group(1)
        INS = re.escape(var) + r'\.insert\(QStringLiteral\("([^"]*)"\), ([^;{}]*?)\);'
        need(flat[:m0.start()].strip() == '', 'allAttributes(): unrecognised text before the hash is filled: %r' % flat[:m0.start()].strip())
        INS_NC = re.escape(var) + r'\.insert\(QStringLiteral\("[^"]*"\), [^;{}]*?\);'
        m = need(re.compile(r'(?:(?:' + INS_NC + r'|#ifndef QTLOGGER_NO_THREAD|#endif) ?)+').match(flat, m0.end()),
                 'allAttributes(): QVariantHash initialiser list')
        inner = m.group(0)
        entries = re.findall(INS, inner)
        rest = re.sub(INS, '', inner)
    need(entries, 'allAttributes(): entries of the initialiser list')
    # nothing else may hide between the entries
    rest = re.sub(r'#ifndef QTLOGGER_NO_THREAD|#endif', '', rest).strip()
    need(rest == '', 'allAttributes(): unrecognised text in the initialiser list: %r' % rest)
    blt = []
    for name, expr in entries:
        expr = expr.strip()
        if expr not in ACCESSOR:
            raise AnchorError('ANCHOR NOT FOUND: allAttributes(): unknown accessor %r for "%s"' % (expr, name))
        blt.append('(%s, %s)' % (coq_str(name), ACCESSOR[expr]))
    after = flat[m.end():]
    V = re.escape(var)
    overlay = bool(re.search(r'#if QT_VERSION >= QT_VERSION_CHECK\(5, 15, 0\) %s\.insert\(m_attributes\); #else' % V, after))
    need(re.search(r'return %s;\s*$' % V, after), 'allAttributes(): return attrs')
    # the accessors themselves
    need(re.search(r'inline QString message\(\) const \{ return m_message; \}', re.sub(r'\s+', ' ', h)), 'LogMessage::message() returns m_message')
    need(re.search(r'inline int line\(\) const \{ return m_context\.line; \}', re.sub(r'\s+', ' ', h)), 'LogMessage::line()')
    need(re.search(r'inline const char \*file\(\) const \{ return m_context\.file; \}', re.sub(r'\s+', ' ', h)), 'LogMessage::file()')
    need(re.search(r'inline const char \*function\(\) const \{ return m_context\.function; \}', re.sub(r'\s+', ' ', h)), 'LogMessage::function()')
    need(re.search(r'inline const char \*category\(\) const \{ return m_context\.category; \}', re.sub(r'\s+', ' ', h)), 'LogMessage::category()')
    need(re.search(r'inline QtMsgType type\(\) const \{ return m_type; \}', re.sub(r'\s+', ' ', h)), 'LogMessage::type()')
    # qtMsgTypeToString
    tb = re.sub(r'\s+', ' ', fn_body(h, 'qtMsgTypeToString'))
    tn = re.findall(r'\{ (Qt\w+Msg), QStringLiteral\("([^"]*)"\) \}', tb)
    need(tn, 'qtMsgTypeToString(): table')
    need(re.search(r'return map\.value\(type, a_default\);', tb), 'qtMsgTypeToString(): map.value(type, a_default)')
    dflt = need(re.search(r'qtMsgTypeToString\(QtMsgType type, const QString &a_default = QStringLiteral\("([^"]*)"\)\)', h),
                'qtMsgTypeToString(): default name').group(1)
    names = '; '.join('(%d, %s)' % (QTMSG[t], coq_str(s)) for t, s in tn if t in QTMSG)
    need(len(tn) == len([t for t, _ in tn if t in QTMSG]), 'qtMsgTypeToString(): unknown message type in table')

    j = strip_comments(rd('formatters/jsonformatter.cpp'))
    fb = re.sub(r'\s+', ' ', fn_body(j, 'JsonFormatter::format'))
    fb = inline_single_use_consts(fb)
    av = need(re.search(r'const (?:auto|QVariantHash) (\w+) = lmsg\.allAttributes\(\);', fb), 'JsonFormatter::format: lmsg.allAttributes()').group(1)
    A = re.escape(av)
    BEGIN, END = r'(?:cbegin|constBegin)', r'(?:cend|constEnd)'
    INSERT = r'(\w+)\.insert\(it\.key\(\), QJsonValue::fromVariant\(it\.value\(\)\)\);'
    # for (auto it = A.cbegin(); it != A.cend(); ++it) { O.insert(...); }   or the same walk written as a while loop
    lm = (re.search(r'for \(auto it = %s\.%s\(\); it != %s\.%s\(\); \+\+it\) \{ %s \}' % (A, BEGIN, A, END, INSERT), fb)
          or re.search(r'auto it = %s\.%s\(\); const auto end = %s\.%s\(\); while \(it != end\) \{ %s \+\+it; \}' % (A, BEGIN, A, END, INSERT), fb))
    ov = need(lm, 'JsonFormatter::format: every entry inserted with QJsonValue::fromVariant').group(1)
    O = re.escape(ov)
    need(re.search(r'QJsonObject %s;' % O, fb[:lm.start()]), 'JsonFormatter::format: the object starts empty')
    tail = fb[lm.end():]
    if re.search(r'return QString::fromUtf8\(QJsonDocument\(%s\)\.toJson\(m_compact \? QJsonDocument::Compact : QJsonDocument::Indented\)\);' % O, tail):
        flag = 'true'
    elif re.search(r'return QString::fromUtf8\(QJsonDocument\(%s\)\.toJson\(m_compact \? QJsonDocument::Indented : QJsonDocument::Compact\)\);' % O, tail):
        flag = 'false'
    else:
        raise AnchorError('ANCHOR NOT FOUND: JsonFormatter::format: toJson(m_compact ? Compact : Indented)')
    need(re.search(r'JsonFormatter::JsonFormatter\(bool compact\)\s*:\s*m_compact\(compact\)', j), 'JsonFormatter constructor stores the flag')

    # front ends (round 8): how formatToJson(flag) and JsonFormatter::instance() obtain the formatter object
    sp = strip_comments(rd('simplepipeline.cpp'))
    fj = inline_single_use_consts(re.sub(r'\s+', ' ', fn_body(sp, 'SimplePipeline::formatToJson')))   # `const auto f = X; append(f);` reads as append(X)
    need(re.search(r'SimplePipeline &SimplePipeline::formatToJson\(bool compact\)', sp), 'SimplePipeline::formatToJson(bool compact)')
    if re.fullmatch(r'append\(JsonFormatterPtr::create\(compact\)\); return \*this;', fj.strip()):
        fluent = 'FFresh'
    elif re.fullmatch(r'append\(JsonFormatterPtr::create\(\)\); return \*this;', fj.strip()):
        fluent = 'FFreshNoFlag'
    elif re.fullmatch(r'append\(JsonFormatter::instance\((?:compact)?\)\); return \*this;', fj.strip()):
        fluent = 'FShared'
    else:
        raise AnchorError('ANCHOR NOT FOUND: SimplePipeline::formatToJson: append(JsonFormatterPtr::create(compact)); return *this;  (got %r)' % fj.strip()[:200])
    jh = re.sub(r'\s+', ' ', strip_comments(rd('formatters/jsonformatter.h')))
    cd = need(re.search(r'explicit JsonFormatter\(bool compact = (true|false)\);', jh), 'JsonFormatter(bool compact = false) declaration').group(1)
    im = need(re.search(r'static JsonFormatterPtr instance\(([^)]*)\) \{ static const auto (\w+) = JsonFormatterPtr::create\(([^)]*)\); return \2; \}', jh),
              'JsonFormatter::instance(): function-local static created with JsonFormatterPtr::create()')
    iparams, iarg = im.group(1).strip(), im.group(3).strip()
    if iparams == '' and iarg == '':
        inst = 'None'
    elif iparams == '' and iarg in ('true', 'false'):
        inst = 'Some %s' % iarg
    else:
        raise AnchorError('ANCHOR NOT FOUND: JsonFormatter::instance() takes no argument and creates the default formatter (got parameters %r, argument %r)' % (iparams, iarg))
    sh = re.sub(r'\s+', ' ', strip_comments(rd('simplepipeline.h')))
    need(re.search(r'SimplePipeline &formatToJson\(bool compact = false\);', sh), 'SimplePipeline::formatToJson(bool compact = false) declaration')

    out = HDR % 'src/qtlogger/logmessage.h, src/qtlogger/formatters/jsonformatter.cpp, formatters/jsonformatter.h, simplepipeline.cpp'
    out += 'Require Import List NArith.\nImport ListNotations.\nRequire Import QtlVerif.JsonDefs.\nLocal Open Scope N_scope.\n'
    out += 'Definition src_json_cfg : json_cfg := {|\n'
    out += '  type_names := [%s];\n' % names
    out += '  type_default := %s;\n' % coq_str(dflt)
    out += '  builtins := [%s];\n' % ';\n               '.join(blt)
    out += '  custom_overlay := %s;\n' % ('true' if overlay else 'false')
    out += '  flag_true_is_compact := %s |}.\n' % flag
    out += 'Definition src_json_front : json_front := {| fluent_obj := %s; ctor_default_compact := %s; instance_arg := %s |}.\n' % (fluent, cd, inst)
    return {'SrcJson.v': out}
