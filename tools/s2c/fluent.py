"""C19 (round 8): the fluent front-end methods of SimplePipeline (simplepipeline.cpp): for every method that is
`append(<Class>Ptr::create(<args>)); return *this;` or `append(<Class>::instance()); return *this;` the method name, its
parameter names, the preprocessor guard it lives under, the class constructed, whether the object is a shared instance, and
the constructor arguments as written.  Methods of any other shape are listed by name only (each has its own anchor in
the area that models it: sendToFile -> rotate, format(QString) -> pattern, pipeline/end -> pipeline, ...)."""
import re
from .common import rd, need, strip_comments, AnchorError, HDR
from .json import inline_single_use_consts


def coq_string(s):
    return '"' + s.replace('"', '""') + '"'


def split_args(s):
    out, depth, cur = [], 0, ''
    for ch in s:
        if ch in '(<[{':
            depth += 1
        elif ch in ')>]}':
            depth -= 1
        if ch == ',' and depth == 0:
            out.append(cur.strip()); cur = ''
        else:
            cur += ch
    if cur.strip():
        out.append(cur.strip())
    return out


def param_name(p):
    p = re.sub(r'=.*$', '', p).strip()
    m = need(re.search(r'(\w+)\s*$', p), 'fluent: parameter name in %r' % p)
    return m.group(1)


def generate():
    src = strip_comments(rd('simplepipeline.cpp'))
    guard = []
    entries, special = [], []
    pos = 0
    lines = src.split('\n')
    text = ''
    # walk line by line to track the #if nesting of each definition
    defs = []
    cur_guard = []
    buf, depth, start_guard = None, 0, None
    for ln in lines:
        st = ln.strip()
        if buf is None:
            if st.startswith('#if'):
                cur_guard.append(re.sub(r'^#\s*', '', st)); continue
            if st.startswith('#endif'):
                if cur_guard: cur_guard.pop()
                continue
            if st.startswith('#'):
                continue
            if re.match(r'SimplePipeline &SimplePipeline::\w+\(', st):
                buf, depth, start_guard = '', 0, ' && '.join(cur_guard)
        if buf is not None:
            buf += ' ' + st
            depth += st.count('{') - st.count('}')
            if '{' in buf and depth == 0:
                defs.append((start_guard, re.sub(r'\s+', ' ', buf).strip()))
                buf = None
    need(defs, 'fluent: SimplePipeline &SimplePipeline::<method>(...) definitions')
    for g, d in defs:
        m = need(re.match(r'SimplePipeline &SimplePipeline::(\w+)\((.*?)\) \{ (.*) \}$', d), 'fluent: definition shape %r' % d[:80])
        name, params, body = m.group(1), m.group(2), inline_single_use_consts(m.group(3).strip() + ' ').strip()   # `const auto f = X; append(f);` reads as append(X)
        pnames = [param_name(p) for p in split_args(params)] if params.strip() else []
        mm = re.fullmatch(r'append\((\w+)Ptr::create\((.*)\)\); return \*this;', body)
        mi = re.fullmatch(r'append\((\w+)::instance\(\)\); return \*this;', body)
        if mm:
            entries.append((name, pnames, g, mm.group(1), False, split_args(mm.group(2))))
        elif mi:
            entries.append((name, pnames, g, mi.group(1), True, []))
        else:
            special.append((name, pnames, g))
    out = HDR % 'src/qtlogger/simplepipeline.cpp (the fluent front-end methods)'
    out += 'Require Import List String.\nImport ListNotations.\nRequire Import QtlVerif.FluentDefs.\nLocal Open Scope string_scope.\n'
    out += 'Definition src_fluent : list fentry := [\n'
    out += ';\n'.join('  {| fe_name := %s; fe_params := [%s]; fe_guard := %s; fe_class := %s; fe_shared := %s; fe_args := [%s] |}' % (
        coq_string(n), '; '.join(coq_string(p) for p in ps), coq_string(g), coq_string(c), 'true' if sh else 'false',
        '; '.join(coq_string(a) for a in args)) for n, ps, g, c, sh, args in entries)
    out += '].\n'
    out += 'Definition src_fluent_special : list (string * nat * string) := [%s].\n' % '; '.join(
        '(%s, %d%%nat, %s)' % (coq_string(n), len(ps), coq_string(g)) for n, ps, g in special)
    return {'SrcFluent.v': out}
