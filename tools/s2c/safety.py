"""C14: constants the checked models take from the source.

patternformatter.cpp  FunctionToken::cleanup: the trailing-qualifier list, the operator-symbol
                      characters, the three numbers of the `operator` look-behind
                      (`openParen >= G && func.mid(openParen - G, L) == "operator"`,
                       `if (openParen == E)`, `func.at(openParen - A)`), the keyword itself;
                      parseFormatSpec: the alignment characters, the truncate suffix
prettyformatter.cpp   the typeLetters table, the constants of the size estimate and of "[name] "
                      AttributeToken / LiteralToken: shape of the pending-remove arithmetic (anchor only)
prettyformatter.h     the default maxCategoryWidth
configure.cpp         the formatter chain of the one-line configure(pipeline, path, ...):
                      PrettyFormatterPtr::create(<colorize>) first, then a FunctionFormatter whose body removes
                      every match of ESC [ <class>* <final> (introducer, parameter class, final byte of the
                      regular expression) from the formatted message
A missing anchor raises AnchorError (the check then reports the translator tie as broken)."""
import re
from .common import rd, need, fn_body, strip_comments, AnchorError, HDR


def coq_bytes(s):
    return '[' + '; '.join('%d' % b for b in s.encode('latin-1')) + ']'


def c_unescape(s):
    return bytes(s, 'latin-1').decode('unicode_escape')


def generate():
    s = strip_comments(rd('formatters/patternformatter.cpp'))
    body = fn_body(s, 'static QByteArray cleanup', 'FunctionToken::cleanup')
    m = need(re.search(r'qualifiers\[\]\s*=\s*\{(.*?)\};', body, re.S), 'cleanup: qualifiers[] table')
    quals = [c_unescape(q) for q in re.findall(r'"((?:[^"\\]|\\.)*)"', m.group(1))]
    need(quals, 'cleanup: qualifiers[] has no entries')
    need(re.search(r'if \(func\.endsWith\(qual\)\) \{\s*func\.chop\(static_cast<int>\(qstrlen\(qual\)\)\);', body),
         'cleanup: qualifier loop chops qstrlen(qual) after endsWith(qual)')
    m = need(re.search(r'operatorChars\("((?:[^"\\]|\\.)*)"\)', body), 'cleanup: operatorChars')
    opchars = c_unescape(m.group(1))
    m = need(re.search(r'if \(openParen >= (\d+) && func\.mid\(openParen - (\d+), (\d+)\) == "(\w+)"\)', body),
             'cleanup: operator look-behind guard (openParen >= N && func.mid(openParen - N, N) == "operator")')
    g_ge, g_off, g_len, kw = int(m.group(1)), int(m.group(2)), int(m.group(3)), m.group(4)
    m = need(re.search(r'if \(openParen == (\d+)\) \{\s*isOperatorCall = true;\s*\} else \{\s*char prevChar = func\.at\(openParen - (\d+)\);', body),
             'cleanup: `if (openParen == 8) ... else func.at(openParen - 9)`')
    g_eq, g_at = int(m.group(1)), int(m.group(2))
    need(re.search(r'if \(startPos <= 0\)\s*return -1;\s*int count = 1;\s*int pos = startPos - 1;\s*while \(pos >= 0 && count > 0\)', body),
         'cleanup: findBalancedReverse prologue (startPos <= 0 -> -1; pos = startPos - 1; while (pos >= 0 && count > 0))')
    # AttributeToken: the pending-remove arithmetic the checked model transcribes (64-bit compare, saturating add)
    w = re.sub(r'\s+', ' ', s)
    need(re.search(r'if \(m_removeBefore > 0 && qint64\(dest\.size\(\)\) \+ t_pendingRemove >= m_removeBefore\) \{ '
                   r'const int fromPending = qMin\(m_removeBefore, t_pendingRemove\); t_pendingRemove -= fromPending; '
                   r'dest\.chop\(m_removeBefore - fromPending\); \}', w),
         'AttributeToken: 64-bit comparison `qint64(dest.size()) + t_pendingRemove >= m_removeBefore` and the chop block')
    need(re.search(r'if \(m_removeAfter > 0\) \{ t_pendingRemove = int\(qMin<qint64>\(qint64\(t_pendingRemove\) \+ m_removeAfter, '
                   r'std::numeric_limits<int>::max\(\)\)\); \}', w),
         'AttributeToken: saturating `t_pendingRemove = int(qMin<qint64>(qint64(t_pendingRemove) + m_removeAfter, INT_MAX))`')
    need(re.search(r'const int removeCount = t_pendingRemove; t_pendingRemove = 0; if \(removeCount > 0 && removeCount < m_text\.size\(\)\) \{ '
                   r'dest\.append\(m_text\.mid\(removeCount\)\); \} else if \(removeCount == 0\) \{ dest\.append\(m_text\); \}', w),
         'LiteralToken: removeCount guard before m_text.mid(removeCount)')
    pf = fn_body(s, 'static std::optional<FormatSpec> parseFormatSpec', 'parseFormatSpec')
    sw = fn_body(s, 'static Alignment charToAlignment', 'charToAlignment')
    amap = dict((c, a) for c, a in re.findall(r"case '(.)':\s*return Alignment::(\w+);", sw))
    m = re.search(r'QStringLiteral\("([^"]+)"\)\.contains\(possibleAlign\)', pf)
    if m:
        # shape 1: the set of alignment characters is a string literal tested with contains()
        aligns = m.group(1)
    else:
        # shape 2: the set is whatever charToAlignment maps to an alignment: a helper
        # `isAlignChar(ch) { return charToAlignment(ch) != Alignment::None; }` applied to <text>.at(1) and <text>.at(0)
        need(re.search(r'static bool isAlignChar\(QChar \w+\)\s*\{\s*return charToAlignment\(\w+\) != Alignment::None;\s*\}', s)
             and re.search(r'isAlignChar\(\w+\.at\(1\)\)', pf) and re.search(r'isAlignChar\(\w+\.at\(0\)\)', pf),
             'parseFormatSpec: alignment characters')
        need(re.search(r'default:\s*return Alignment::None;', sw), 'charToAlignment: default -> Alignment::None')
        aligns = ''.join(c for c, a in amap.items() if a != 'None')
    need(sorted(amap.get(c) for c in aligns) == ['Center', 'Left', 'Right'], 'charToAlignment: exactly one character each for Left, Right, Center')
    for c in aligns:
        need(amap.get(c) in ('Left', 'Right', 'Center'), 'charToAlignment: case for %r' % c)
    m = need(re.search(r"\b\w+\.endsWith\(QLatin1Char\('(.)'\)\)", pf), 'parseFormatSpec: truncate suffix')
    bang = m.group(1)

    p = strip_comments(rd('formatters/prettyformatter.cpp'))
    m = need(re.search(r'typeLetters\[\]\s*=\s*\{(.*?)\};', p, re.S), 'PrettyFormatter: typeLetters[] table')
    letters = re.findall(r"QLatin1Char\('(.)'\)", m.group(1))
    need(letters, 'PrettyFormatter: typeLetters[] has no entries')
    need(re.search(r'result \+= typeLetters\[type\];', p), 'PrettyFormatter: typeLetters[type]')
    m = need(re.search(r'const int estimatedSize = (\d+) \+ category\.size\(\) \+ (\d+) \+ lmsg\.message\(\)\.size\(\)\s*\+ \(m_colorize \? (\d+) : 0\);', p),
             'PrettyFormatter: estimatedSize expression')
    est = [int(x) for x in m.groups()]
    m = need(re.search(r'categoryFormatLength = isDefaultCategory \? 0 : \(category\.size\(\) \+ (\d+)\);', p),
             'PrettyFormatter: categoryFormatLength')
    cfl = int(m.group(1))

    # the default column limit, and the formatter chain of the one-line configure()
    ph = strip_comments(rd('formatters/prettyformatter.h'))
    m = need(re.search(r'explicit PrettyFormatter\(bool colorize = \w+, int maxCategoryWidth = (\d+)\);', ph),
             'PrettyFormatter: default maxCategoryWidth')
    def_maxw = int(m.group(1))
    c = strip_comments(rd('configure.cpp'))
    cb = fn_body(c, 'void configure', 'configure(Pipeline *, const QString &path, ...)')
    m = need(re.search(r'\*pipeline << PrettyFormatterPtr::create\((true|false)\);', cb), 'configure: PrettyFormatterPtr::create(<colorize>)')
    cfg_color = m.group(1)
    m = need(re.search(r'FunctionFormatterPtr::create\(\[\]\(const LogMessage &lmsg\) \{\s*auto fmsg = lmsg\.formattedMessage\(\);\s*'
                       r'static const QRegularExpression (\w+)\(QStringLiteral\("((?:[^"\\]|\\.)*)"\)\);\s*fmsg\.remove\(\1\);\s*return fmsg;\s*\}\)', cb),
             'configure: FunctionFormatter removing the colour codes with fmsg.remove(QRegularExpression)')
    rx = m.group(2)
    # the C++ literal of a regular expression of the form  <intro chars> [ <class> ]* <final char>
    m = need(re.fullmatch(r'((?:\\0?33|\\x1[bB]|\\\\\[)+)\[((?:[^\]\\]|\\\\.)+)\]\*([A-Za-z])', rx),
             'configure: colour-code expression of the form ESC \\[ [class]* final (found %r)' % rx)
    intro = [27 if t[1] in '0x' else ord('[') for t in re.findall(r'\\0?33|\\x1[bB]|\\\\\[', m.group(1))]
    cls, final = m.group(2), m.group(3)
    params, i = [], 0
    while i < len(cls):
        if i + 2 < len(cls) and cls[i + 1] == '-':
            params += list(range(ord(cls[i]), ord(cls[i + 2]) + 1)); i += 3
        else:
            need(cls[i] not in '\\^', 'configure: plain character class in the colour-code expression'); params.append(ord(cls[i])); i += 1
    need(intro == [27, 91] and params and 27 not in params and 91 not in params and ord(final) not in params,
         'configure: colour-code expression = ESC [ then a class without ESC, [ and the final byte')

    out = HDR % 'src/qtlogger/formatters/{patternformatter,prettyformatter}.cpp, configure.cpp'
    out += 'From Coq Require Import List NArith ZArith.\nImport ListNotations.\nLocal Open Scope N_scope.\n'
    out += '(* FunctionToken::cleanup *)\n'
    out += 'Definition src_qualifiers : list (list N) :=\n  [' + ';\n   '.join(coq_bytes(q) for q in quals) + '].\n'
    out += 'Definition src_opchars : list N := %s.\n' % coq_bytes(opchars)
    out += 'Definition src_operator_kw : list N := %s.\n' % coq_bytes(kw)
    out += 'Definition src_op_guard_ge : Z := %d%%Z.\n' % g_ge
    out += 'Definition src_op_mid_off : Z := %d%%Z.\n' % g_off
    out += 'Definition src_op_mid_len : Z := %d%%Z.\n' % g_len
    out += 'Definition src_op_guard_eq : Z := %d%%Z.\n' % g_eq
    out += 'Definition src_op_at_off : Z := %d%%Z.\n' % g_at
    out += '(* parseFormatSpec *)\n'
    out += 'Definition src_align_left : N := %d.\nDefinition src_align_right : N := %d.\nDefinition src_align_center : N := %d.\n' % tuple(
        ord([c for c in aligns if amap[c] == a][0]) for a in ('Left', 'Right', 'Center'))
    out += 'Definition src_trunc_suffix : N := %d.\n' % ord(bang)
    out += '(* PrettyFormatter *)\n'
    out += 'Definition src_type_letters : list N := %s.\n' % coq_bytes(''.join(letters))
    out += 'Definition src_pretty_est_base : Z := %d%%Z.\nDefinition src_pretty_est_extra : Z := %d%%Z.\nDefinition src_pretty_est_color : Z := %d%%Z.\n' % tuple(est)
    out += 'Definition src_pretty_cat_extra : Z := %d%%Z.\n' % cfl
    out += 'Definition src_pretty_default_maxw : Z := %d%%Z.\n' % def_maxw
    out += '(* configure(pipeline, path, ...): PrettyFormatter(colorize) -> FunctionFormatter removing ESC [ params* final *)\n'
    out += 'Definition src_cfg_colorize : bool := %s.\n' % cfg_color
    out += 'Definition src_sgr_esc : N := %d.\nDefinition src_sgr_open : N := %d.\n' % tuple(intro)
    out += 'Definition src_sgr_params : list N := [%s].\n' % '; '.join(str(x) for x in sorted(set(params)))
    out += 'Definition src_sgr_final : N := %d.\n' % ord(final)
    return {'SrcSafety.v': out}
