"""C08: constants and shapes of calculateCRC32() and compressFile() in rotatingfilesink.cpp:
CRC polynomial, initial value, final xor, table index mask and shift, table size and bit count,
read buffer size, the ten header bytes, qCompress level, the `> 10` guard, slice offsets 6 / 6 / 4,
trailer order (crc then size) and byte order, what the two trailer fields are computed from, and the
order of the file operations (shared with C10, see crash.py)."""
import re
from .common import rd, need, fn_body, strip_comments, AnchorError, HDR
from .crash import compress_steps


def _flat(s):
    return re.sub(r'\s+', ' ', s)


def _num(t):
    t = t.strip()
    return int(t, 16) if t.lower().startswith('0x') else int(t)


def generate():
    s = strip_comments(rd('sinks/rotatingfilesink.cpp'))
    c = _flat(fn_body(s, 'static quint32 calculateCRC32'))
    init = _num(need(re.search(r'^ ?quint32 crc = (0x[0-9A-Fa-f]+|\d+);', c), 'calculateCRC32: quint32 crc = <init>; before the loops').group(1))
    poly = _num(need(re.search(r'const quint32 polynomial = (0x[0-9A-Fa-f]+|\d+);', c), 'calculateCRC32: polynomial').group(1))
    tsize = _num(need(re.search(r'static quint32 table\[(\d+)\];', c), 'calculateCRC32: table[256]').group(1))
    mt = need(re.search(r'for \(quint32 i = 0; i < (\d+); i\+\+\) \{ quint32 value = i; for \(int j = 0; j < (\d+); j\+\+\) \{ '
                        r'if \(value & 1\) value = \(value >> 1\) \^ polynomial; else value >>= 1; \} table\[i\] = value; \}', c),
              'calculateCRC32: table generation loop (reflected shift-xor, table[i] = value)')
    if _num(mt.group(1)) != tsize:
        raise AnchorError('ANCHOR NOT FOUND: calculateCRC32: table loop bound differs from the table size')
    bits = _num(mt.group(2))
    buf = _num(need(re.search(r'char buffer\[(\d+)\];', c), 'calculateCRC32: char buffer[8192]').group(1))
    need(re.search(r'file\.seek\(0\); char buffer\[\d+\]; while \(!file\.atEnd\(\)\) \{ auto bytesRead = file\.read\(buffer, sizeof\(buffer\)\); '
                   r'for \(auto i = 0; i < bytesRead; i\+\+\) \{', c), 'calculateCRC32: chunked read loop from offset 0 over bytesRead bytes')
    mu = need(re.search(r'crc = table\[\(crc \^ static_cast<unsigned char>\(buffer\[i\]\)\) & (0x[0-9A-Fa-f]+|\d+)\] \^ \(crc >> (\d+)\);', c),
              'calculateCRC32: crc = table[(crc ^ byte) & mask] ^ (crc >> shift)')
    mask, shift = _num(mu.group(1)), _num(mu.group(2))
    if len(re.findall(r'\bcrc = ', c)) != 2:   # the declaration and the update: no re-initialisation per chunk
        raise AnchorError('ANCHOR NOT FOUND: calculateCRC32: crc is assigned exactly twice (initial value, update)')
    xorout = _num(need(re.search(r'return crc \^ (0x[0-9A-Fa-f]+|\d+); ?$', c), 'calculateCRC32: return crc ^ <final xor>').group(1))

    f = _flat(fn_body(s, 'void compressFile'))
    # header: the sequence of putChar / write calls before the body
    hdr = []
    mh = need(re.search(r"((?:outputFile\.(?:putChar\('\\x[0-9a-fA-F]{2}'\)|write\(\"(?:\\x[0-9a-fA-F]{2})+\", \d+\)); ?)+)auto rawData", f),
              'compressFile: header bytes written before the body')
    for call in re.finditer(r"putChar\('\\x([0-9a-fA-F]{2})'\)|write\(\"((?:\\x[0-9a-fA-F]{2})+)\", (\d+)\)", mh.group(1)):
        if call.group(1) is not None:
            hdr.append(int(call.group(1), 16))
        else:
            bs = [int(x, 16) for x in re.findall(r'\\x([0-9a-fA-F]{2})', call.group(2))]
            if len(bs) != int(call.group(3)):
                raise AnchorError('ANCHOR NOT FOUND: compressFile: header write length differs from its literal')
            hdr += bs
    level = _num(need(re.search(r'auto rawData = inputFile\.readAll\(\); auto compressed = qCompress\(rawData, (\d+)\);', f),
                      'compressFile: qCompress(rawData, level) of the whole input').group(1))
    mg = need(re.search(r'if \(compressed\.size\(\) > (\d+)\) \{ outputFile\.write\(compressed\.constData\(\) \+ (\d+), '
                        r'compressed\.size\(\) - (\d+) - (\d+)\); \}', f), 'compressFile: guard and slice of the qCompress output')
    guard, front, sub_a, sub_b = (_num(mg.group(i)) for i in (1, 2, 3, 4))
    # trailer: sources, byte order, order of the two writes
    need(re.search(r'auto fileCRC = calculateCRC32\(inputFile\);', f), 'compressFile: fileCRC = calculateCRC32(inputFile)')
    need(re.search(r'auto fileSize = static_cast<quint32>\(inputFile\.size\(\)\);', f), 'compressFile: fileSize = (quint32) inputFile.size()')
    need(re.search(r'inputFile\.seek\(0\); outputFile\.putChar', f), 'compressFile: input rewound before readAll')
    me = need(re.search(r'auto le_crc = (qToLittleEndian|qToBigEndian)\(fileCRC\); auto le_size = (qToLittleEndian|qToBigEndian)\(fileSize\);', f),
              'compressFile: le_crc / le_size conversions')
    if me.group(1) != me.group(2):
        raise AnchorError('ANCHOR NOT FOUND: compressFile: the two trailer fields use different byte orders')
    endian = 'LE' if me.group(1) == 'qToLittleEndian' else 'BE'
    order = re.findall(r'outputFile\.write\(reinterpret_cast<const char\*>\(&le_(crc|size)\), 4\);', f)
    if sorted(order) != ['crc', 'size']:
        raise AnchorError('ANCHOR NOT FOUND: compressFile: exactly one 4-byte write of le_crc and one of le_size')
    trailer = '; '.join({'crc': 'TCrc', 'size': 'TSize'}[x] for x in order)
    steps = compress_steps()

    out = HDR % 'src/qtlogger/sinks/rotatingfilesink.cpp'
    out += 'Require Import List NArith.\nImport ListNotations.\nRequire Import QtlVerif.GzipDefs.\nLocal Open Scope N_scope.\n'
    out += 'Definition src_gz : gz_cfg := {|\n'
    out += '  g_poly := %d; g_init := %d; g_xorout := %d;\n' % (poly, init, xorout)
    out += '  g_mask := %d; g_shift := %d; g_table_size := %d; g_bits := %d; g_buf := %d;\n' % (mask, shift, tsize, bits, buf)
    out += '  g_header := [%s];\n' % '; '.join(str(x) for x in hdr)
    out += '  g_level := %d; g_guard := %d; g_front := %d; g_sub_a := %d; g_sub_b := %d;\n' % (level, guard, front, sub_a, sub_b)
    out += '  g_trailer := [%s]; g_endian := %s |}.\n' % (trailer, endian)
    out += 'Definition src_compress_steps : list cstmt := [%s].\n' % '; '.join(steps)
    return {'SrcGzip.v': out}
