"""C08: constants and shapes of calculateCRC32() and compressFile() in rotatingfilesink.cpp:
CRC polynomial, initial value, final xor, table index mask and shift, table size and bit count,
read buffer size, the ten header bytes, qCompress level, the `> 10` guard, slice offsets 6 / 6 / 4,
trailer order (crc then size) and byte order, what the two trailer fields are computed from, and the
order of the file operations (shared with C10, see crash.py)."""
import re
from .common import rd, need, fn_body, strip_comments, AnchorError, HDR
from .crash import compress_steps


def _flat(s):
    return re.sub(r'\s+', ' ', s)


def _num(t):
    t = t.strip()
    return int(t, 16) if t.lower().startswith('0x') else int(t)


def generate():
    s = strip_comments(rd('sinks/rotatingfilesink.cpp'))
    c = _flat(fn_body(s, 'static quint32 calculateCRC32'))
    # the lazily generated table lives in calculateCRC32 itself, or in a helper crc32Table() that returns it
    if re.search(r'\bcrc32Table\(\)', c):
        t = _flat(fn_body(s, 'static const quint32 *crc32Table'))
        need(re.search(r'^ ?const quint32 \*table = crc32Table\(\); quint32 crc = ', c), 'calculateCRC32: table = crc32Table() first, then crc')
        need(re.search(r'static bool tableGenerated = false; if \(!tableGenerated\) \{ for .* tableGenerated = true; \} return table; ?$', t),
             'crc32Table: generate once, return the table')
        c_main = re.sub(r'^ ?const quint32 \*table = crc32Table\(\);', '', c)
    else:
        t, c_main = c, c
    init = _num(need(re.search(r'^ ?quint32 crc = (0x[0-9A-Fa-f]+|\d+);', c_main), 'calculateCRC32: quint32 crc = <init>; before the loops').group(1))
    poly = _num(need(re.search(r'const quint32 polynomial = (0x[0-9A-Fa-f]+|\d+);', t), 'calculateCRC32: polynomial').group(1))
    tsize = _num(need(re.search(r'static quint32 table\[(\d+)\];', t), 'calculateCRC32: table[256]').group(1))
    # the reflected shift-xor step as if/else or as a conditional expression; loop variables of any name
    mt = need(re.search(r'for \(quint32 (\w+) = 0; \1 < (\d+); \1\+\+\) \{ quint32 value = \1; for \(int (\w+) = 0; \3 < (\d+); \3\+\+\) \{ '
                        r'(?:if \(value & 1\) value = \(value >> 1\) \^ polynomial; else value >>= 1;|'
                        r'value = \(value & 1\) \? \(value >> 1\) \^ polynomial : value >> 1;) \} table\[\1\] = value; \}', t),
              'calculateCRC32: table generation loop (reflected shift-xor, table[i] = value)')
    if _num(mt.group(2)) != tsize:
        raise AnchorError('ANCHOR NOT FOUND: calculateCRC32: table loop bound differs from the table size')
    bits = _num(mt.group(4))
    buf = _num(need(re.search(r'char buffer\[(\d+)\];', c), 'calculateCRC32: char buffer[8192]').group(1))
    # the chunk walked by index or by pointer (p < end: no iteration when read() returned -1, like i < bytesRead)
    need(re.search(r'file\.seek\(0\); char buffer\[\d+\]; while \(!file\.atEnd\(\)\) \{ (?:auto|const qint64) bytesRead = file\.read\(buffer, sizeof\(buffer\)\); '
                   r'(?:for \(auto i = 0; i < bytesRead; i\+\+\)|for \(const char \*p = buffer, \*end = buffer \+ bytesRead; p < end; \+\+p\)) \{', c),
         'calculateCRC32: chunked read loop from offset 0 over bytesRead bytes')
    mu = need(re.search(r'crc = table\[\(crc \^ static_cast<unsigned char>\(buffer\[i\]\)\) & (0x[0-9A-Fa-f]+|\d+)\] \^ \(crc >> (\d+)\);', c)
              or re.search(r'const auto index = \(crc \^ static_cast<unsigned char>\(\*p\)\) & (0x[0-9A-Fa-f]+|\d+); crc = table\[index\] \^ \(crc >> (\d+)\);', c),
              'calculateCRC32: crc = table[(crc ^ byte) & mask] ^ (crc >> shift)')
    mask, shift = _num(mu.group(1)), _num(mu.group(2))
    if len(re.findall(r'\bcrc = ', c)) != 2:   # the declaration and the update: no re-initialisation per chunk
        raise AnchorError('ANCHOR NOT FOUND: calculateCRC32: crc is assigned exactly twice (initial value, update)')
    xorout = _num(need(re.search(r'return crc \^ (0x[0-9A-Fa-f]+|\d+); ?$', c), 'calculateCRC32: return crc ^ <final xor>').group(1))

    f = _flat(fn_body(s, 'void compressFile'))
    # header: the sequence of putChar / write calls before the body
    hdr = []
    if re.search(r'\bwriteGzipHeader\(', f):
        # the header calls moved into a helper whose body is nothing but them; called once, before the input is read
        need(re.search(r'writeGzipHeader\(outputFile\); .*inputFile\.readAll\(\)', f), 'compressFile: header written before the body')
        need(re.search(r'static void writeGzipHeader\(QFile &gzFile\)', s), 'writeGzipHeader(QFile &gzFile)')
        hb = _flat(fn_body(s, 'static void writeGzipHeader')).replace('gzFile.', 'outputFile.')
        mh = need(re.search(r"^ ?((?:outputFile\.(?:putChar\('\\x[0-9a-fA-F]{2}'\)|write\(\"(?:\\x[0-9a-fA-F]{2})+\", \d+\)); ?)+)$", hb),
                  'writeGzipHeader: header bytes and nothing else')
        if len(re.findall(r'\bwriteGzipHeader\(', s)) != 2:
            raise AnchorError('ANCHOR NOT FOUND: writeGzipHeader: defined once, called once')
    else:
        mh = need(re.search(r"((?:outputFile\.(?:putChar\('\\x[0-9a-fA-F]{2}'\)|write\(\"(?:\\x[0-9a-fA-F]{2})+\", \d+\)); ?)+)auto rawData", f),
                  'compressFile: header bytes written before the body')
    for call in re.finditer(r"putChar\('\\x([0-9a-fA-F]{2})'\)|write\(\"((?:\\x[0-9a-fA-F]{2})+)\", (\d+)\)", mh.group(1)):
        if call.group(1) is not None:
            hdr.append(int(call.group(1), 16))
        else:
            bs = [int(x, 16) for x in re.findall(r'\\x([0-9a-fA-F]{2})', call.group(2))]
            if len(bs) != int(call.group(3)):
                raise AnchorError('ANCHOR NOT FOUND: compressFile: header write length differs from its literal')
            hdr += bs
    level = _num(need(re.search(r'(?:const )?auto rawData = inputFile\.readAll\(\); (?:const )?auto compressed = qCompress\(rawData, (\d+)\);', f),
                      'compressFile: qCompress(rawData, level) of the whole input').group(1))
    mg = re.search(r'if \(compressed\.size\(\) > (\d+)\) \{ outputFile\.write\(compressed\.constData\(\) \+ (\d+), '
                   r'compressed\.size\(\) - (\d+) - (\d+)\); \}', f)
    if mg:
        guard, front, sub_a, sub_b = (_num(mg.group(i)) for i in (1, 2, 3, 4))
    else:
        # the same numbers as named constants (sums of literals): prefix = length + zlib header, suffix = Adler-32
        mn = need(re.search(r'const int zlibPrefix = (\d+(?: \+ \d+)*); const int zlibSuffix = (\d+(?: \+ \d+)*);', f), 'compressFile: guard and slice of the qCompress output')
        need(re.search(r'if \(compressed\.size\(\) > zlibPrefix \+ zlibSuffix\) \{ outputFile\.write\(compressed\.constData\(\) \+ zlibPrefix, '
                       r'compressed\.size\(\) - zlibPrefix - zlibSuffix\); \}', f), 'compressFile: guard and slice of the qCompress output')
        if len(re.findall(r'\bzlibPrefix\b', f)) != 4 or len(re.findall(r'\bzlibSuffix\b', f)) != 3:
            raise AnchorError('ANCHOR NOT FOUND: compressFile: zlibPrefix / zlibSuffix used in the guard and the slice only')
        pre, suf = (sum(int(x) for x in mn.group(i).split('+')) for i in (1, 2))
        guard, front, sub_a, sub_b = pre + suf, pre, pre, suf
    # trailer: sources, byte order, order of the two writes
    need(re.search(r'(?:const )?auto fileCRC = calculateCRC32\(inputFile\);', f), 'compressFile: fileCRC = calculateCRC32(inputFile)')
    need(re.search(r'(?:const )?auto fileSize = static_cast<quint32>\(inputFile\.size\(\)\);', f), 'compressFile: fileSize = (quint32) inputFile.size()')
    # the input is rewound after the CRC pass and nothing touches it between that and readAll()
    need(re.search(r'calculateCRC32\(inputFile\);.*inputFile\.seek\(0\);(?:(?!inputFile\.).)*inputFile\.readAll\(\)', f), 'compressFile: input rewound before readAll')
    if re.search(r'\bwriteGzipTrailer\(', f):
        need(re.search(r'\} writeGzipTrailer\(outputFile, fileCRC, fileSize\); inputFile\.close\(\);', f), 'compressFile: trailer written after the body')
        need(re.search(r'static void writeGzipTrailer\(QFile &gzFile, quint32 crc, quint32 uncompressedSize\)', s), 'writeGzipTrailer(file, crc, size)')
        if len(re.findall(r'\bwriteGzipTrailer\(', s)) != 2:
            raise AnchorError('ANCHOR NOT FOUND: writeGzipTrailer: defined once, called once')
        tb = _flat(fn_body(s, 'static void writeGzipTrailer'))
        me = need(re.search(r'^ ?const auto leCrc = (qToLittleEndian|qToBigEndian)\(crc\); const auto leSize = (qToLittleEndian|qToBigEndian)\(uncompressedSize\); '
                            r'((?:gzFile\.write\(reinterpret_cast<const char \*>\(&le(?:Crc|Size)\), 4\); ?){2})$', tb),
                  'writeGzipTrailer: two conversions, two 4-byte writes and nothing else')
        order = [x.lower() for x in re.findall(r'&le(Crc|Size)\)', me.group(3))]
    else:
        me = need(re.search(r'auto le_crc = (qToLittleEndian|qToBigEndian)\(fileCRC\); auto le_size = (qToLittleEndian|qToBigEndian)\(fileSize\);', f),
                  'compressFile: le_crc / le_size conversions')
        order = re.findall(r'outputFile\.write\(reinterpret_cast<const char\*>\(&le_(crc|size)\), 4\);', f)
    if me.group(1) != me.group(2):
        raise AnchorError('ANCHOR NOT FOUND: compressFile: the two trailer fields use different byte orders')
    endian = 'LE' if me.group(1) == 'qToLittleEndian' else 'BE'
    if sorted(order) != ['crc', 'size']:
        raise AnchorError('ANCHOR NOT FOUND: compressFile: exactly one 4-byte write of le_crc and one of le_size')
    trailer = '; '.join({'crc': 'TCrc', 'size': 'TSize'}[x] for x in order)
    steps = compress_steps()

    out = HDR % 'src/qtlogger/sinks/rotatingfilesink.cpp'
    out += 'Require Import List NArith.\nImport ListNotations.\nRequire Import QtlVerif.GzipDefs.\nLocal Open Scope N_scope.\n'
    out += 'Definition src_gz : gz_cfg := {|\n'
    out += '  g_poly := %d; g_init := %d; g_xorout := %d;\n' % (poly, init, xorout)
    out += '  g_mask := %d; g_shift := %d; g_table_size := %d; g_bits := %d; g_buf := %d;\n' % (mask, shift, tsize, bits, buf)
    out += '  g_header := [%s];\n' % '; '.join(str(x) for x in hdr)
    out += '  g_level := %d; g_guard := %d; g_front := %d; g_sub_a := %d; g_sub_b := %d;\n' % (level, guard, front, sub_a, sub_b)
    out += '  g_trailer := [%s]; g_endian := %s |}.\n' % (trailer, endian)
    out += 'Definition src_compress_steps : list cstmt := [%s].\n' % '; '.join(steps)
    return {'SrcGzip.v': out}
