"""C11: where/when Logger::processMessage flushes, what recursiveFlush reaches, what FileSink::flush
does, and whether RotatingFileSink::send asks size() before writing  ->  SrcFatal.v (src_fatal_cfg)

Every function body is read TWICE: as compiled without QTLOGGER_NO_THREAD (src_fatal_cfg, the default
build) and as compiled with it (src_fatal_cfg_nothread, the documented single-threaded configuration):
the flush after a fatal message must be reachable in both."""
import re
from .common import rd, need, fn_body, strip_comments, AnchorError, HDR

MT = {'QtDebugMsg': 'Debug', 'QtWarningMsg': 'Warning', 'QtCriticalMsg': 'Critical', 'QtFatalMsg': 'Fatal',
      'QtInfoMsg': 'Info', 'QtSystemMsg': 'Critical'}


def _active(body, what, nothread=False):
    """drop the preprocessor lines of a body, keeping the branch compiled when QTLOGGER_NO_THREAD is
    NOT defined (nothread=False, the default build) or IS defined (nothread=True); any other
    conditional is not understood"""
    out, stack = [], []
    for line in body.splitlines():
        s = line.strip()
        if s.startswith('#'):
            m = re.match(r'#\s*(ifndef|ifdef|if|else|endif|elif)\b\s*(.*)', s)
            if not m:
                raise AnchorError('ANCHOR NOT FOUND: %s: unexpected preprocessor line %r' % (what, s))
            k, arg = m.group(1), m.group(2).strip()
            if k == 'ifndef' and arg == 'QTLOGGER_NO_THREAD':
                stack.append(not nothread)
            elif k == 'ifdef' and arg == 'QTLOGGER_NO_THREAD':
                stack.append(nothread)
            elif k == 'if' and re.fullmatch(r'!\s*defined\s*\(?\s*QTLOGGER_NO_THREAD\s*\)?', arg):
                stack.append(not nothread)
            elif k == 'if' and re.fullmatch(r'defined\s*\(?\s*QTLOGGER_NO_THREAD\s*\)?', arg):
                stack.append(nothread)
            elif k == 'else' and stack:
                stack[-1] = not stack[-1]
            elif k == 'endif' and stack:
                stack.pop()
            else:
                raise AnchorError('ANCHOR NOT FOUND: %s: preprocessor conditional %r not understood' % (what, s))
            continue
        if all(stack):
            out.append(line)
    return '\n'.join(out)


class _P:
    """statement-level parser: blocks, if/else, for/while headers, simple statements"""
    def __init__(self, s, what):
        self.s, self.i, self.what = s, 0, what

    def ws(self):
        while self.i < len(self.s) and self.s[self.i].isspace():
            self.i += 1

    def paren(self):
        self.ws()
        if self.i >= len(self.s) or self.s[self.i] != '(':
            raise AnchorError('ANCHOR NOT FOUND: %s: "(" expected' % self.what)
        d, j = 0, self.i
        while True:
            c = self.s[j]
            if c == '(':
                d += 1
            elif c == ')':
                d -= 1
                if d == 0:
                    break
            j += 1
        txt = self.s[self.i + 1:j]
        self.i = j + 1
        return re.sub(r'\s+', ' ', txt).strip()

    def stmt(self):
        self.ws()
        if self.i >= len(self.s):
            return None
        if self.s[self.i] == '{':
            self.i += 1
            items = []
            while True:
                self.ws()
                if self.i >= len(self.s):
                    raise AnchorError('ANCHOR NOT FOUND: %s: unbalanced braces' % self.what)
                if self.s[self.i] == '}':
                    self.i += 1
                    return ('block', items)
                items.append(self.stmt())
        m = re.match(r'(if|for|while)\b', self.s[self.i:])
        if m:
            kw = m.group(1)
            self.i += len(kw)
            cond = self.paren()
            body = self.stmt()
            els = None
            self.ws()
            if kw == 'if' and re.match(r'else\b', self.s[self.i:]):
                self.i += 4
                els = self.stmt()
            return (kw, cond, body, els)
        # simple statement up to ';' at depth 0 (lambdas/initialisers with braces are not expected here)
        d, j = 0, self.i
        while j < len(self.s):
            c = self.s[j]
            if c in '({[':
                d += 1
            elif c in ')}]':
                d -= 1
            elif c == ';' and d == 0:
                break
            j += 1
        txt = re.sub(r'\s+', ' ', self.s[self.i:j]).strip()
        self.i = j + 1
        return ('simple', txt)


def _parse(body, what):
    p = _P('{' + body + '}', what)
    return p.stmt()


def _walk(node, guards, out):
    """flatten to a list of (guards, simple statement) in program order; guards = tuple of
    ('if'|'else'|'for'|'while', condition)"""
    if node is None:
        return
    k = node[0]
    if k == 'block':
        for it in node[1]:
            _walk(it, guards, out)
    elif k == 'simple':
        out.append((guards, node[1]))
    else:
        _, cond, body, els = node
        _walk(body, guards + ((k, cond),), out)
        if els is not None:
            _walk(els, guards + (('else', cond),), out)


def _flat(src, qualname, nothread=False):
    what = qualname + (' [QTLOGGER_NO_THREAD]' if nothread else '')
    body = _active(fn_body(src, qualname), what, nothread)
    out = []
    _walk(_parse(body, what), (), out)
    return out


def _cfg(nt):
    """the flush structure of the library as compiled with (nt) / without QTLOGGER_NO_THREAD"""
    tag = ' [QTLOGGER_NO_THREAD]' if nt else ''
    # ---- Logger::processMessage -------------------------------------------------------------
    lg = strip_comments(rd('logger.cpp'))
    st = _flat(lg, 'Logger::processMessage', nt)
    idx_proc = [i for i, (g, s) in enumerate(st) if re.fullmatch(r'process\(lmsg\)', s)]
    need(len(idx_proc) == 1 and st[idx_proc[0]][0] == (), 'Logger::processMessage: one unconditional process(lmsg)')
    need(any(re.fullmatch(r'LogMessage lmsg\(type, context, message\)', s) for g, s in st),
         'Logger::processMessage: LogMessage lmsg(type, context, message)')
    fl = [i for i, (g, s) in enumerate(st) if re.fullmatch(r'(this->)?flush\(\)', s)]
    if any(re.search(r'\bflush\b', s) and i not in fl for i, (g, s) in enumerate(st)):
        raise AnchorError('ANCHOR NOT FOUND: Logger::processMessage: unrecognised use of flush')
    pos, types, cond = 'FNone', [], 'CAlways'
    if len(fl) > 1:
        raise AnchorError('ANCHOR NOT FOUND: Logger::processMessage: more than one flush()')
    if fl:
        i = fl[0]
        pos = 'FBefore' if i < idx_proc[0] else 'FAfter'
        types = None
        # an early exit in front of the flush: the flush runs only when the exit is not taken.  Understood:
        # `if (<thread condition>) return;` in the same block as the flush (guards of the flush + one if)
        for j, (g, s1) in enumerate(st[:i]):
            if not re.search(r'\b(return|break|continue|goto|throw)\b', s1):
                continue
            need(s1 == 'return' and len(g) == len(st[i][0]) + 1 and g[:-1] == st[i][0] and g[-1][0] == 'if',
                 'Logger::processMessage%s: early exit %r under %r in front of the flush not understood' % (tag, s1, g))
            c = re.sub(r'^\((.*)\)$', r'\1', g[-1][1]).strip()
            need(not (nt and 'ownThreadIsRunning' in c), 'Logger::processMessage%s: thread condition %r in the single-threaded configuration' % (tag, c))
            if re.fullmatch(r'ownThreadIsRunning\(\)', c):
                cond = 'CSyncOnly' if cond == 'CAlways' else cond
            elif re.fullmatch(r'!\s*ownThreadIsRunning\(\)', c):
                cond = 'CAsyncOnly'
            else:
                raise AnchorError('ANCHOR NOT FOUND: Logger::processMessage%s: early exit under %r in front of the flush not understood' % (tag, c))
        for kind, c in st[i][0]:
            if kind != 'if':
                raise AnchorError('ANCHOR NOT FOUND: Logger::processMessage: flush() under %s (%s)' % (kind, c))
            for part in [x.strip() for x in c.split('&&')]:
                part = re.sub(r'^\((.*)\)$', r'\1', part).strip()
                if re.fullmatch(r'!?\s*ownThreadIsRunning\(\)', part) and nt:
                    raise AnchorError('ANCHOR NOT FOUND: Logger::processMessage%s: thread condition %r in the single-threaded configuration' % (tag, part))
                if re.fullmatch(r'!\s*ownThreadIsRunning\(\)', part):
                    cond = 'CSyncOnly' if cond == 'CAlways' else cond
                elif re.fullmatch(r'ownThreadIsRunning\(\)', part):
                    cond = 'CAsyncOnly'
                elif re.fullmatch(r'type == Qt\w+Msg( \|\| type == Qt\w+Msg)*', part):
                    ts = [MT.get(x) for x in re.findall(r'type == (Qt\w+Msg)', part)]
                    need(all(ts), 'Logger::processMessage: message type names in %r' % part)
                    types = ts if types is None else [t for t in types if t in ts]
                else:
                    raise AnchorError('ANCHOR NOT FOUND: Logger::processMessage: flush() guard %r not understood' % part)
        if types is None:
            types = ['Debug', 'Warning', 'Critical', 'Fatal', 'Info']
    # the flush that is called must be SimplePipeline::flush: neither Logger nor OwnThreadHandler redefines it
    for h in ('logger.h', 'ownthreadhandler.h'):
        need(not re.search(r'\bflush\s*\(', strip_comments(rd(h))), '%s must not redefine flush()' % h)
    need(re.search(r'virtual void flush\(\);', strip_comments(rd('simplepipeline.h'))), 'simplepipeline.h: virtual void flush()')

    # ---- SimplePipeline::flush / recursiveFlush -------------------------------------------------
    sp = strip_comments(rd('simplepipeline.cpp'))
    fb = _flat(sp, 'SimplePipeline::flush', nt)
    calls_rec = any(g == () and re.fullmatch(r'recursiveFlush\(this\)', s) for g, s in fb)
    rf = _flat(sp, 'SimplePipeline::recursiveFlush', nt)
    loop = ('for', 'const auto &handler : pipeline->handlers()')
    rf_sinks = rf_desc = False
    for g, s in rf:
        if re.fullmatch(r'sink->flush\(\)', s):
            need(g == (loop, ('if', 'auto sink = handler.dynamicCast<Sink>()')), 'recursiveFlush: sink->flush() for every Sink of the loop')
            rf_sinks = True
        elif re.fullmatch(r'recursiveFlush\(pipeline\.data\(\)\)', s):
            need(g == (loop, ('if', 'auto pipeline = handler.dynamicCast<Pipeline>()')), 'recursiveFlush: recursion for every Pipeline of the loop')
            rf_desc = True
        elif s == 'continue':
            need(g == (loop, ('if', 'auto sink = handler.dynamicCast<Sink>()')), 'recursiveFlush: continue only after a Sink')
        elif s in ('return', 'break') or re.search(r'\breturn\b|\bbreak\b', s):
            raise AnchorError('ANCHOR NOT FOUND: recursiveFlush: early exit %r' % s)
        else:
            raise AnchorError('ANCHOR NOT FOUND: recursiveFlush: statement %r not understood' % s)
    if rf_sinks:
        # the continue must come after the flush, not before it
        order = [s for g, s in rf if g == (loop, ('if', 'auto sink = handler.dynamicCast<Sink>()'))]
        need(order and order[0] == 'sink->flush()', 'recursiveFlush: flush before continue')
    if not calls_rec:
        need(not fb or all(not re.search(r'flush|handlers', s) for g, s in fb), 'SimplePipeline::flush: body not understood')
        rf_sinks = rf_desc = False

    # ---- Sink / FileSink::flush, IODeviceSink::send ---------------------------------------------
    need(re.search(r'virtual bool flush\(\) \{ return true; \}', re.sub(r'\s+', ' ', strip_comments(rd('sink.h')))), 'sink.h: virtual bool flush()')
    need(re.search(r'bool flush\(\) override;', strip_comments(rd('sinks/filesink.h'))), 'filesink.h: bool flush() override')
    fs = strip_comments(rd('sinks/filesink.cpp'))
    ff = _flat(fs, 'FileSink::flush', nt)
    need(len(ff) == 1 and ff[0][0] == (), 'FileSink::flush: single statement')
    if re.fullmatch(r'return file\(\)->flush\(\)', ff[0][1]):
        real = True
    elif re.fullmatch(r'return (true|false)', ff[0][1]):
        real = False
    else:
        raise AnchorError('ANCHOR NOT FOUND: FileSink::flush: %r not understood' % ff[0][1])
    need(re.search(r'return qobject_cast<QFile \*>\(device\(\)\.data\(\)\)', fn_body(fs, 'FileSink::file')), 'FileSink::file()')
    ctor = re.sub(r'\s+', ' ', fn_body(fs, 'FileSink::FileSink'))
    need(re.search(r'file\(\)->open\(QIODevice::WriteOnly \| QIODevice::Append \| QIODevice::Text\)', ctor),
         'FileSink::FileSink: buffered append open mode')
    io = _flat(strip_comments(rd('sinks/iodevicesink.cpp')), 'IODeviceSink::send')
    WRITE = 'm_device->write(lmsg.formattedMessage().toLocal8Bit().append("\\n"))'
    need([x for x in io if x[1] == WRITE] == [((), WRITE)], 'IODeviceSink::send: one unconditional write of message + newline')
    snk_types, seen_write = [], False
    for g, st1 in io:
        if st1 == WRITE:
            seen_write = True
        elif st1 == 'return' and g == (('if', 'm_device.isNull()'),) and not seen_write:
            pass
        elif re.fullmatch(r'(this->)?flush\(\)', st1):
            # the sink flushes itself after writing certain message types
            need(seen_write and len(g) == 1 and g[0][0] == 'if'
                 and re.fullmatch(r'lmsg\.type\(\) == Qt\w+Msg( \|\| lmsg\.type\(\) == Qt\w+Msg)*', g[0][1]),
                 'IODeviceSink::send: flush() placement/guard %r not understood' % (g,))
            ts = [MT.get(x) for x in re.findall(r'== (Qt\w+Msg)', g[0][1])]
            need(all(ts), 'IODeviceSink::send: message type names')
            snk_types += ts
        else:
            raise AnchorError('ANCHOR NOT FOUND: IODeviceSink::send: statement %r not understood' % st1)
    need(not re.search(r'\bflush\s*\(', strip_comments(rd('sinks/rotatingfilesink.h'))), 'rotatingfilesink.h must not redefine flush()')

    # ---- RotatingFileSink::send ------------------------------------------------------------------
    rs = strip_comments(rd('sinks/rotatingfilesink.cpp'))
    snd = [s for g, s in _flat(rs, 'RotatingFileSink::send', nt) if g == ()]
    need('FileSink::send(lmsg)' in snd, 'RotatingFileSink::send: FileSink::send(lmsg)')
    presize = False
    if 'd->rotateIfNeeded(lmsg)' in snd:
        need(snd.index('d->rotateIfNeeded(lmsg)') < snd.index('FileSink::send(lmsg)'), 'RotatingFileSink::send: rotateIfNeeded before the write')
        rin = _flat(rs, 'void rotateIfNeeded', nt)
        if any(g == (('if', 'm_maxFileSize > 0'),) and s == 'checkSizeRotation(additionalSize)' for g, s in rin):
            csr = _flat(rs, 'void checkSizeRotation', nt)
            need(any(s == 'const auto currentSize = q_ptr->file()->size()' for g, s in csr), 'checkSizeRotation: file()->size()')
            presize = True
    return {'pos': pos, 'types': types, 'cond': cond, 'rf_sinks': rf_sinks, 'rf_desc': rf_desc, 'real': real,
            'presize': presize, 'snk_types': snk_types}


def _record(name, c):
    b = lambda x: 'true' if x else 'false'
    out = 'Definition %s : fatal_cfg := {|\n' % name
    out += '  ff_pos := %s;\n  ff_types := [%s];\n  ff_cond := %s;\n' % (c['pos'], '; '.join(c['types']), c['cond'])
    out += '  rf_flush_sinks := %s;\n  rf_descends := %s;\n  fs_flush_real := %s;\n  rot_presize := %s;\n  snk_flush_types := [%s] |}.\n' % (
        b(c['rf_sinks']), b(c['rf_desc']), b(c['real']), b(c['presize']), '; '.join(c['snk_types']))
    return out


def generate():
    out = HDR % 'src/qtlogger/{logger.cpp,simplepipeline.cpp,sinks/filesink.cpp,sinks/iodevicesink.cpp,sinks/rotatingfilesink.cpp}'
    out += 'Require Import List.\nImport ListNotations.\nRequire Import QtlVerif.FatalDefs.\n'
    out += '(* the default build: QTLOGGER_NO_THREAD not defined *)\n'
    out += _record('src_fatal_cfg', _cfg(False))
    # the flag the task names: does processMessage flush after a fatal message of the synchronous logger
    out += 'Definition flush_on_fatal : bool := flushes src_fatal_cfg Fatal.\n'
    out += '(* the documented single-threaded configuration: the same functions as compiled with -DQTLOGGER_NO_THREAD *)\n'
    out += _record('src_fatal_cfg_nothread', _cfg(True))
    out += 'Definition flush_on_fatal_nothread : bool := flushes src_fatal_cfg_nothread Fatal.\n'
    return {'SrcFatal.v': out}
