"""C19: what the two configure() front-ends build and how install/restore are wired.

Reads configure.cpp (both overloads: which keys are read with which defaults, the order of the
`*pipeline << ...` statements, the SGR-stripping regular expression, what selects the rotating
sink, what `async` does), prettyformatter.h (PrettyFormatter::instance(), constructor defaults),
stderrsink.h / platformstdsink.h (the platform sink and its colour mode), rotatingfilesink.h
(default size / count) and logger.cpp (installMessageHandler / restorePreviousMessageHandler).
Every shape that is not recognised raises AnchorError."""
import re
from .common import rd, need, strip_comments, AnchorError, HDR

DEFINED = {'QTLOGGER_SYSLOG', 'QTLOGGER_VERIF', 'QTLOGGER_STATIC'}   # how the harness builds the library

BOOL_KEYS = {'stdout': 'KStdout', 'stdout_color': 'KStdoutColor', 'stderr': 'KStderr',
             'stderr_color': 'KStderrColor', 'platform_std_log': 'KPlatform',
             'rotate_on_startup': 'KStartup', 'rotate_daily': 'KDaily',
             'compress_old_files': 'KCompress', 'async': 'KAsync'}
CMODE = {'Auto': 'CAuto', 'Always': 'CAlways', 'Never': 'CNever'}


def preprocess(src, defined=DEFINED):
    """keep the branches of #if(n)def that the harness build compiles"""
    out, stack = [], []          # stack of (parent_active, this_branch_active, any_taken)
    active = True
    for line in src.split('\n'):
        m = re.match(r'\s*#\s*(ifdef|ifndef|if|elif|else|endif)\b\s*(.*)', line)
        if not m:
            if active:
                out.append(line)
            continue
        d, arg = m.group(1), m.group(2).strip()
        if d in ('ifdef', 'ifndef', 'if'):
            if d == 'if':
                mm = re.match(r'defined\s*\(?\s*(\w+)\s*\)?$', arg)
                cond = (mm.group(1) in defined) if mm else ('QT_VERSION >=' in arg)
            else:
                cond = (arg.split()[0] in defined) == (d == 'ifdef')
            stack.append((active, cond))
            active = active and cond
        elif d in ('else', 'elif'):
            parent, cond = stack.pop()
            if d == 'elif':
                mm = re.match(r'defined\s*\(?\s*(\w+)\s*\)?$', arg)
                c2 = (not cond) and bool(mm and mm.group(1) in defined)
            else:
                c2 = not cond
            stack.append((parent, cond or c2))
            active = parent and c2
        else:
            parent, _ = stack.pop()
            active = parent
    return '\n'.join(out)


def body_after(src, header_re, what):
    m = need(re.search(header_re, src), what)
    i = src.index('{', m.end() - 1)
    depth, k = 0, i
    while True:
        c = src[k]
        if c == '{':
            depth += 1
        elif c == '}':
            depth -= 1
            if depth == 0:
                return src[i + 1:k]
        k += 1


def sq(s):
    return re.sub(r'\s+', ' ', s)


def cbool(x):
    return 'true' if x else 'false'


def c_unescape(lit):
    out, i = [], 0
    while i < len(lit):
        c = lit[i]
        if c != '\\':
            out.append(c); i += 1; continue
        n = lit[i + 1]
        m = re.match(r'[0-7]{1,3}', lit[i + 1:])
        if m:
            out.append(chr(int(m.group(0), 8))); i += 1 + len(m.group(0))
        elif n == 'x':
            m = re.match(r'[0-9a-fA-F]+', lit[i + 2:])
            out.append(chr(int(m.group(0), 16))); i += 2 + len(m.group(0))
        elif n == 'e':
            out.append('\x1b'); i += 2
        else:
            out.append({'n': '\n', 't': '\t', '\\': '\\', '"': '"'}.get(n, n)); i += 2
    return ''.join(out)


def parse_class(txt):
    """[0-9;] -> [(48,57),(59,59)]"""
    rs, i = [], 0
    if txt.startswith('^'):
        raise AnchorError('ANCHOR NOT FOUND: strip regex: negated class')
    while i < len(txt):
        a = txt[i]
        if a == '\\':
            raise AnchorError('ANCHOR NOT FOUND: strip regex: escape inside the class')
        if i + 2 < len(txt) and txt[i + 1] == '-':
            rs.append((ord(a), ord(txt[i + 2]))); i += 3
        else:
            rs.append((ord(a), ord(a))); i += 1
    return sorted(rs)


def gen_ini(cfg):
    b = sq(body_after(cfg, r'void\s+configure\s*\(\s*Pipeline\s*\*\s*pipeline\s*,\s*const\s+QSettings\s*&\s*settings\s*,[^)]*\)\s*\{',
                      'configure(Pipeline*, const QSettings&, group)'))
    V = r'settings\.value\(group \+ QStringLiteral\("/(\w+)"\)'
    bvars, svars, ivars = {}, {}, {}
    for m in re.finditer(r'const auto (\w+) = ' + V + r'(?:, (true|false))?\) ?\.toBool\(\);', b):
        bvars[m.group(1)] = (m.group(2), m.group(3) == 'true')
    for m in re.finditer(r'const auto (\w+) = ' + V + r'\)\.toString\(\);', b):
        svars[m.group(1)] = m.group(2)
    for m in re.finditer(r'const auto (\w+) = ' + V + r', RotatingFileSink::(\w+)\) ?\.toInt\(\);', b):
        ivars[m.group(1)] = (m.group(2), m.group(3))

    def bk(var):
        need(var in bvars, 'boolean settings variable %s' % var)
        key, d = bvars[var]
        need(key in BOOL_KEYS, 'documented boolean key for "/%s"' % key)
        return '(%s, %s)' % (BOOL_KEYS[key], cbool(d))

    def skey(var, expect):
        need(svars.get(var) == expect, 'key "/%s" read into the variable used here (found %r)' % (expect, svars.get(var)))

    slots = []
    m = need(re.search(r'if \(!(\w+)\.isEmpty\(\)\) \{ \*pipeline << CategoryFilterPtr::create\((\w+)\); \}', b), 'filter_rules -> CategoryFilter')
    need(m.group(1) == m.group(2), 'CategoryFilter built from the tested variable'); skey(m.group(1), 'filter_rules')
    slots.append((m.start(), 'SRules'))
    m = need(re.search(r'if \(!(\w+)\.isEmpty\(\)\) \{ \*pipeline << RegExpFilterPtr::create\((\w+)\); \}', b), 'regexp_filter -> RegExpFilter')
    need(m.group(1) == m.group(2), 'RegExpFilter built from the tested variable'); skey(m.group(1), 'regexp_filter')
    slots.append((m.start(), 'SRegexp'))
    m = need(re.search(r'if \(!(\w+)\.isEmpty\(\)\) \{ \*pipeline << PatternFormatterPtr::create\((\w+)\); \} else \{ \*pipeline << PrettyFormatter::instance\(\); \}', b),
             'message_pattern -> PatternFormatter, else PrettyFormatter::instance()')
    need(m.group(1) == m.group(2), 'PatternFormatter built from the tested variable'); skey(m.group(1), 'message_pattern')
    slots.append((m.start(), 'SFormatter'))
    cons = {}
    for cls, slot in (('StdOut', 'SStdout'), ('StdErr', 'SStderr')):
        m = need(re.search(r'if \((\w+) \|\| (\w+)\) \{ \*pipeline << %sSinkPtr::create\((\w+) \? ColorMode::(\w+) : ColorMode::(\w+)\); \}' % cls, b),
                 '%s sink statement' % cls)
        x, y, c, on, off = m.groups()
        need(c in (x, y), '%s: colour variable is one of the two tested' % cls)
        en = y if c == x else x
        cons[slot] = (bk(en), bk(c), CMODE[on], CMODE[off])
        slots.append((m.start(), slot))
    need(cons['SStdout'][2:] == cons['SStderr'][2:], 'stdout and stderr choose the colour mode alike')
    m = need(re.search(r'if \(' + V + r', (true|false)\)\.toBool\(\)\) \{ \*pipeline << PlatformStdSinkPtr::create\(\); \}', b), 'platform_std_log -> PlatformStdSink')
    need(m.group(1) in BOOL_KEYS, 'documented key for the platform sink')
    platform = '(%s, %s)' % (BOOL_KEYS[m.group(1)], m.group(2))
    slots.append((m.start(), 'SPlatform'))
    m = need(re.search(r'if \(!(\w+)\.isEmpty\(\)\) \{ \*pipeline << SyslogSinkPtr::create\((\w+)\); \}', b), 'syslog_ident -> SyslogSink')
    need(m.group(1) == m.group(2), 'SyslogSink built from the tested variable'); skey(m.group(1), 'syslog_ident')
    slots.append((m.start(), 'SSyslog'))
    m = need(re.search(r'if \(!(\w+)\.isEmpty\(\)\) \{ (const auto maxFileSize.*?)\*pipeline << RotatingFileSinkPtr::create\((\w+), (\w+), (\w+), (\w+)\); \}', b),
             'path -> RotatingFileSink')
    need(m.group(1) == m.group(3), 'RotatingFileSink built from the tested path variable'); skey(m.group(1), 'path')
    need(ivars.get(m.group(4), ('',))[0] == 'max_file_size', 'max_file_size is the second argument')
    need(ivars.get(m.group(5), ('',))[0] == 'max_file_count', 'max_file_count is the third argument')
    inner, optv = m.group(2), m.group(6)
    need(re.search(r'RotatingFileSink::Options %s = RotatingFileSink::Option::None;' % optv, inner), 'options start as None')
    opt = {}
    for mm in re.finditer(r'if \((\w+)\) %s \|= RotatingFileSink::(?:Option::)?(\w+);' % optv, inner):
        opt[mm.group(2)] = mm.group(1)
    need(set(opt) == {'RotationOnStartup', 'RotationDaily', 'Compression'}, 'the three rotation options are wired')
    slots.append((m.start(), 'SFile'))
    total = len(re.findall(r'\*pipeline <<', b))
    need(total == 9, 'exactly the nine recognised `*pipeline <<` statements (found %d)' % total)
    m = need(re.search(r'if \(' + V + r', (true|false)\)\.toBool\(\)\) \{ auto \*(\w+) = dynamic_cast<OwnThreadHandler<SimplePipeline> \*>\(pipeline\); if \(\3\) \{ \3->moveToOwnThread\(\); \} \}', b),
             'async -> moveToOwnThread()')
    need(m.group(1) in BOOL_KEYS, 'documented key for async')
    asyn = '(%s, %s)' % (BOOL_KEYS[m.group(1)], m.group(2))
    rh = strip_comments(rd('sinks/rotatingfilesink.h'))
    consts = {}
    for mm in re.finditer(r'constexpr static int (\w+) = ([^;]+);', rh):
        need(re.fullmatch(r'[\d\s*]+', mm.group(2)), 'integer constant expression for ' + mm.group(1))
        v = 1
        for f in mm.group(2).split('*'):
            v *= int(f)
        consts[mm.group(1)] = v
    need(ivars and all(c in consts for _, c in ivars.values()), 'default size/count constants')
    size = [consts[c] for k, c in ivars.values() if k == 'max_file_size'][0]
    count = [consts[c] for k, c in ivars.values() if k == 'max_file_count'][0]
    # PrettyFormatter::instance() and constructor
    ph = sq(strip_comments(rd('formatters/prettyformatter.h')))
    m = need(re.search(r'explicit PrettyFormatter\(bool colorize = (true|false), int maxCategoryWidth = (\d+)\);', ph), 'PrettyFormatter constructor defaults')
    pf_defaults = (m.group(1) == 'true', int(m.group(2)))
    m = need(re.search(r'static PrettyFormatterPtr instance\(\) \{ static const auto s_instance = PrettyFormatterPtr::create\(([^)]*)\); return s_instance; \}', ph),
             'PrettyFormatter::instance()')
    pf_inst = pretty_args(m.group(1), pf_defaults)
    # platform sink
    ps = preprocess(strip_comments(rd('sinks/platformstdsink.h')))
    need(re.search(r'using PlatformStdSink = StdErrSink;', ps), 'PlatformStdSink = StdErrSink on this platform')
    eh = sq(strip_comments(rd('sinks/stderrsink.h')))
    m = need(re.search(r'explicit StdErrSink\(ColorMode colorMode = ColorMode::(\w+)\);', eh), 'StdErrSink default colour mode')
    pmode = CMODE[m.group(1)]
    order = [s for _, s in sorted(slots)]
    txt = 'Definition src_ini : ini_src := {|\n'
    txt += '  i_order := [%s];\n' % '; '.join(order)
    txt += '  i_stdout_en := %s; i_stdout_col := %s;\n' % cons['SStdout'][:2]
    txt += '  i_stderr_en := %s; i_stderr_col := %s;\n' % cons['SStderr'][:2]
    txt += '  i_platform_en := %s;\n' % platform
    txt += '  i_startup := %s; i_daily := %s; i_compress := %s;\n' % (bk(opt['RotationOnStartup']), bk(opt['RotationDaily']), bk(opt['Compression']))
    txt += '  i_async := %s;\n' % asyn
    txt += '  i_max_size := %d%%Z; i_max_count := %d%%Z;\n' % (size, count)
    txt += '  i_color_on := %s; i_color_off := %s; i_platform_mode := %s;\n' % (cons['SStdout'][2], cons['SStdout'][3], pmode)
    txt += '  i_def_colorize := %s; i_def_maxcat := %d%%nat; i_async_moves := true |}.\n' % (cbool(pf_inst[0]), pf_inst[1])
    return txt, pf_defaults, pmode


def pretty_args(args, defaults):
    a = [x.strip() for x in args.split(',')] if args.strip() else []
    need(len(a) <= 2, 'PrettyFormatter arguments')

    def val(x):
        if x in ('true', 'false'):
            return 1 if x == 'true' else 0
        need(re.fullmatch(r'\d+', x), 'literal PrettyFormatter argument (%s)' % x)
        return int(x)
    col = (val(a[0]) != 0) if len(a) > 0 else defaults[0]
    wid = val(a[1]) if len(a) > 1 else defaults[1]
    return col, wid


def gen_oneline(cfg, pf_defaults, pmode):
    b = sq(body_after(cfg, r'void\s+configure\s*\(\s*Pipeline\s*\*\s*pipeline\s*,\s*const\s+QString\s*&\s*path\s*,[^)]*\)\s*\{',
                      'configure(Pipeline*, path, maxFileSize, maxFileCount, options, async)'))
    slots = []
    m = need(re.search(r'\*pipeline << PrettyFormatterPtr::create\(([^)]*)\);', b), 'one-line: PrettyFormatter')
    col, wid = pretty_args(m.group(1), pf_defaults)
    slots.append((m.start(), 'OPrettyS'))
    m = need(re.search(r'\*pipeline << PlatformStdSinkPtr::create\(\);', b), 'one-line: PlatformStdSink')
    slots.append((m.start(), 'OPlatformS'))
    g = need(re.search(r'if \(!path\.isEmpty\(\)\) \{ (.*\*pipeline << FileSinkPtr::create\(path\); \}) \}', b), 'one-line: `if (!path.isEmpty())` block')
    inner, base = g.group(1), g.start(1)
    m = need(re.search(r'\*pipeline << FunctionFormatterPtr::create\(\[\]\(const LogMessage &(\w+)\) \{ auto (\w+) = \1\.formattedMessage\(\); '
                       r'static const QRegularExpression (\w+)\(QStringLiteral\("((?:[^"\\]|\\.)*)"\)\); \2\.remove\(\3\); return \2; \}\);', inner),
             'one-line: SGR-stripping FunctionFormatter')
    slots.append((base + m.start(), 'OStripS'))
    rx = c_unescape(m.group(4))
    mm = need(re.fullmatch(r'\x1b\\\[\[([^\]]*)\]\*m', rx), 'strip regex has the shape ESC \\[ [class]* m (found %r)' % rx)
    cls = parse_class(mm.group(1))
    m = need(re.search(r'if \((.*?)\) \{ \*pipeline << RotatingFileSinkPtr::create\(path, maxFileSize, maxFileCount, options\); \} else \{ \*pipeline << FileSinkPtr::create\(path\); \}', inner),
             'one-line: rotating or plain file sink')
    conds = [c.strip() for c in m.group(1).split('||')]
    known = {'maxFileSize > 0': 'size', 'options.testFlag(RotatingFileSink::RotationOnStartup)': 'startup',
             'options.testFlag(RotatingFileSink::RotationDaily)': 'daily'}
    need(all(c in known for c in conds), 'one-line: recognised rotating-sink conditions (%r)' % conds)
    sel = {known[c] for c in conds}
    slots.append((base + m.start(), 'OFileS'))
    total = len(re.findall(r'\*pipeline <<', b))
    need(total == 5, 'one-line: exactly the five recognised `*pipeline <<` statements (found %d)' % total)
    need(re.search(r'if \(async\) \{ auto \*(\w+) = dynamic_cast<OwnThreadHandler<SimplePipeline> \*>\(pipeline\); if \(\1\) \{ \1->moveToOwnThread\(\); \} \}', b),
         'one-line: async -> moveToOwnThread()')
    order = [s for _, s in sorted(slots)]
    txt = '(* strip regular expression: %s *)\n' % repr(rx).replace('*)', '* )')
    txt += 'Definition src_oneline : ol_src := {|\n'
    txt += '  ol_order := [%s]; ol_colorize := %s; ol_maxcat := %d%%nat; ol_platform_mode := %s;\n' % ('; '.join(order), cbool(col), wid, pmode)
    txt += '  ol_strip_class := [%s];\n' % '; '.join('(%d, %d)' % r for r in cls)
    txt += '  ol_rot_size := %s; ol_rot_startup := %s; ol_rot_daily := %s; ol_async_moves := true |}.\n' % (
        cbool('size' in sel), cbool('startup' in sel), cbool('daily' in sel))
    return txt


def gen_install():
    s = sq(preprocess(strip_comments(rd('logger.cpp'))))
    bi = sq(body_after(s, r'void Logger::installMessageHandler\(\)\s*\{', 'Logger::installMessageHandler'))
    need(re.search(r'auto (\w+) = qInstallMessageHandler\(messageHandler\);', bi), 'install: qInstallMessageHandler(messageHandler)')
    if re.search(r'if \((\w+) != messageHandler\) \{ g_previousMessageHandler = \1; \}', bi):
        save_unless_own = True
    elif re.search(r'; g_previousMessageHandler = (\w+);', bi) and 'if' not in bi:
        save_unless_own = False
    else:
        raise AnchorError('ANCHOR NOT FOUND: installMessageHandler: how the previous handler is saved')
    br = sq(body_after(s, r'void Logger::restorePreviousMessageHandler\(\)\s*\{', 'Logger::restorePreviousMessageHandler'))
    guard = bool(re.match(r'\s*if \(!g_previousMessageHandler\) return;', br))
    need(re.search(r'auto (\w+) = qInstallMessageHandler\(g_previousMessageHandler\);', br), 'restore: qInstallMessageHandler(g_previousMessageHandler)')
    putback = bool(re.search(r'if \((\w+) != messageHandler\) \{ qInstallMessageHandler\(\1\); \}', br))
    clear = bool(re.search(r'g_previousMessageHandler = nullptr;', br))
    rest = br
    for pat in (r'if \(!g_previousMessageHandler\) return;', r'auto (\w+) = qInstallMessageHandler\(g_previousMessageHandler\);',
                r'if \((\w+) != messageHandler\) \{ qInstallMessageHandler\(\1\); \}', r'g_previousMessageHandler = nullptr;'):
        rest = re.sub(pat, '', rest, count=1)
    need(rest.strip() == '', 'restorePreviousMessageHandler: only the recognised statements (left over: %r)' % rest.strip())
    # object lifetime: which logger the static handler forwards to, and what ~Logger does to the globals
    need(re.match(r'\s*g_activeLogger\.storeRelease\(this\);', bi), 'install: g_activeLogger = this, first')
    bh = sq(body_after(s, r'void Logger::messageHandler\([^)]*\)\s*\{', 'Logger::messageHandler'))
    need(re.fullmatch(r'\s*auto (\w+) = g_activeLogger\.loadAcquire\(\); if \(!\1\) return; \1->processMessage\(type, context, message\);\s*', bh),
         'messageHandler: forwards to g_activeLogger, drops the message when there is none (found %r)' % bh.strip())
    bd = sq(body_after(s, r'Logger::~Logger\(\)\s*\{', 'Logger::~Logger')).strip()
    if bd == 'g_activeLogger.testAndSetOrdered(this, nullptr);':
        dtor_active, dtor_saved = True, False
    elif bd == 'if (g_activeLogger.testAndSetOrdered(this, nullptr)) { g_previousMessageHandler = nullptr; }':
        dtor_active, dtor_saved = True, True      # the active logger's destructor also forgets the handler to reinstate
    elif bd == '':
        dtor_active, dtor_saved = False, False
    else:
        raise AnchorError('ANCHOR NOT FOUND: ~Logger: what the destructor does to g_activeLogger / g_previousMessageHandler (found %r)' % bd)
    need('g_previousMessageHandler' not in re.sub(r'void Logger::(installMessageHandler|restorePreviousMessageHandler)\(\)\s*\{', '', s)
         .replace(bi, '').replace(br, '').replace(bd, '').replace('QtMessageHandler g_previousMessageHandler = nullptr;', ''),
         'g_previousMessageHandler is touched only by install / restore / ~Logger')
    return ('Definition src_inst : inst_src := {| n_save_unless_own := %s; n_restore_guard := %s;\n'
            '  n_putback_foreign := %s; n_clear_saved := %s;\n  n_dtor_clears_active := %s; n_dtor_clears_saved := %s |}.\n') % (
                cbool(save_unless_own), cbool(guard), cbool(putback), cbool(clear), cbool(dtor_active), cbool(dtor_saved))


def generate():
    cfg = preprocess(strip_comments(rd('configure.cpp')))
    ini_txt, pf_defaults, pmode = gen_ini(cfg)
    out = HDR % 'src/qtlogger/configure.cpp, logger.cpp, formatters/prettyformatter.h, sinks/stderrsink.h, sinks/platformstdsink.h, sinks/rotatingfilesink.h'
    out += 'Require Import List NArith ZArith.\nImport ListNotations.\nRequire Import QtlVerif.ConfigDefs.\nLocal Open Scope N_scope.\n'
    out += ini_txt + gen_oneline(cfg, pf_defaults, pmode) + gen_install()
    return {'SrcConfig.v': out}
