"""C18: SentryFormatter::format — level switch, routed attribute names and their slots, the skip
list of the extra loop, fingerprint (cut, text source), message text source, logger rule, sdk
constants.  Everything else of the event's shape is anchored (AnchorError when it moves)."""
import re
from .common import rd, need, fn_body, strip_comments, AnchorError, HDR
from .json import coq_str, QTMSG, inline_single_use_consts

SLOT = {'tags': 'STag', 'osContext': 'SOs', 'deviceContext': 'SDevice'}


def generate():
    s = strip_comments(rd('formatters/sentryformatter.cpp'))
    lv = re.sub(r'\s+', ' ', fn_body(s, 'qtMsgTypeToSentryLevel'))
    cases = re.findall(r'case (Qt\w+Msg): return QStringLiteral\("([^"]*)"\);', lv)
    need(cases, 'qtMsgTypeToSentryLevel(): cases')
    for t, _ in cases:
        need(t in QTMSG, 'qtMsgTypeToSentryLevel(): unknown message type %s' % t)
    dflt = need(re.search(r'default: return QStringLiteral\("([^"]*)"\);', lv), 'qtMsgTypeToSentryLevel(): default').group(1)
    need(re.sub(r'case (Qt\w+Msg): return QStringLiteral\("([^"]*)"\);|default: return QStringLiteral\("([^"]*)"\);', '', lv).replace(' ', '')
         == 'switch(type){}', 'qtMsgTypeToSentryLevel(): unrecognised statements in the switch')

    f = re.sub(r'\s+', ' ', fn_body(s, 'SentryFormatter::format'))
    Q = r'QStringLiteral\("%s"\)'
    need(re.search(r'auto eventId = QUuid::createUuid\(\)\.toString\(QUuid::Id128\);', f), 'event id: QUuid::createUuid().toString(QUuid::Id128)')
    need(re.search(r'event\[' + Q % 'event_id' + r'\] = eventId;', f), 'event["event_id"] = eventId')
    need(re.search(r'event\[' + Q % 'timestamp' + r'\] = lmsg\.time\(\)\.toUTC\(\)\.toString\(Qt::ISODate\);', f),
         'event["timestamp"] = lmsg.time().toUTC().toString(Qt::ISODate)')
    need(re.search(r'event\[' + Q % 'platform' + r'\] = ' + Q % 'native' + ';', f), 'event["platform"] = "native"')
    need(re.search(r'event\[' + Q % 'level' + r'\] = qtMsgTypeToSentryLevel\(lmsg\.type\(\)\);', f), 'event["level"] = qtMsgTypeToSentryLevel(lmsg.type())')
    need(re.search(r'auto category = QString::fromLatin1\(lmsg\.category\(\)\);', f), 'category = QString::fromLatin1(lmsg.category())')
    m = need(re.search(r'if \(([^{}]*?)\) \{ event\[' + Q % 'logger' + r'\] = category; \}', f), 'logger: conditional assignment')
    cond = m.group(1).strip()
    if cond == '!category.isEmpty() && category != QLatin1String("default")':
        l_empty, l_default = 'true', 'true'
    elif cond == '!category.isEmpty()':
        l_empty, l_default = 'true', 'false'
    elif cond == 'category != QLatin1String("default")':
        l_empty, l_default = 'false', 'true'
    else:
        raise AnchorError('ANCHOR NOT FOUND: logger: unrecognised condition %r' % cond)
    m = need(re.search(r'message\[' + Q % 'formatted' + r'\] = lmsg\.(message|formattedMessage)\(\);', f), 'message["formatted"] = lmsg.message()')
    msg_fmt = 'true' if m.group(1) == 'formattedMessage' else 'false'
    need(re.search(r'event\[' + Q % 'message' + r'\] = message;', f), 'event["message"] = message')
    need(re.search(r'if \(lmsg\.function\(\) && strlen\(lmsg\.function\(\)\) > 0\) \{ event\[' + Q % 'culprit' + r'\] = QString::fromLatin1\(lmsg\.function\(\)\); \}', f),
         'culprit only for a non-empty function')
    need(re.search(r'tags\[' + Q % 'qt_version' + r'\] = QString::fromLatin1\(qVersion\(\)\);', f), 'tags["qt_version"]')
    # routed attributes
    routes = []
    for mm in re.finditer(r'if \(lmsg\.hasAttribute\(QStringLiteral\("(\w+)"\)\)\) \{ (\w+)\[QStringLiteral\("(\w+)"\)\] = lmsg\.attribute\(QStringLiteral\("(\w+)"\)\)\.toString\(\); \}', f):
        k1, obj, name, k2 = mm.groups()
        need(k1 == k2, 'routed attribute: hasAttribute("%s") guards attribute("%s")' % (k1, k2))
        need(obj in SLOT, 'routed attribute: unknown slot object %s' % obj)
        routes.append('(%s, (%s, %s))' % (SLOT[obj], coq_str(name), coq_str(k1)))
    need(len(re.findall(r'lmsg\.hasAttribute\(', f)) == len(routes), 'routed attribute: unrecognised hasAttribute() use')
    need(len(re.findall(r'lmsg\.attribute\(', f)) == len(routes), 'routed attribute: unrecognised attribute() use')
    need(re.search(r'event\[' + Q % 'tags' + r'\] = tags;', f), 'event["tags"] = tags')
    need(re.search(r'if \(!osContext\.isEmpty\(\)\) \{ contexts\[' + Q % 'os' + r'\] = osContext; \}', f), 'contexts["os"] only when non-empty')
    need(re.search(r'if \(!deviceContext\.isEmpty\(\)\) \{ contexts\[' + Q % 'device' + r'\] = deviceContext; \}', f), 'contexts["device"] only when non-empty')
    need(re.search(r'runtimeContext\[' + Q % 'name' + r'\] = ' + Q % 'Qt' + r'; runtimeContext\[' + Q % 'version' + r'\] = QString::fromLatin1\(qVersion\(\)\); contexts\[' + Q % 'runtime' + r'\] = runtimeContext;', f),
         'runtime context')
    need(re.search(r'event\[' + Q % 'contexts' + r'\] = contexts;', f), 'event["contexts"] = contexts')
    # extra
    need(re.search(r'extra\[' + Q % 'line' + r'\] = lmsg\.line\(\);', f), 'extra["line"]')
    need(re.search(r'if \(lmsg\.file\(\) && strlen\(lmsg\.file\(\)\) > 0\) \{ extra\[' + Q % 'file' + r'\] = QString::fromLatin1\(lmsg\.file\(\)\); \}', f), 'extra["file"] only when non-empty')
    need(re.search(r'extra\[' + Q % 'thread_id' + r'\] = QString::number\(lmsg\.threadId\(\)\);', f), 'extra["thread_id"]')
    m = need(re.search(r'const auto attrs = lmsg\.attributes\(\); for \(auto it = attrs\.cbegin\(\); it != attrs\.cend\(\); \+\+it\) \{ (.*?) extra\[it\.key\(\)\] = QJsonValue::fromVariant\(it\.value\(\)\); \} event\[' + Q % 'extra' + r'\] = extra;', f),
             'extra: loop over lmsg.attributes() copying with QJsonValue::fromVariant')
    inner = m.group(1).strip()
    if inner == '':
        skipped = []
    else:
        mm = need(re.fullmatch(r'if \((.*)\) \{ continue; \}', inner), 'extra loop: skip condition')
        parts = [p.strip() for p in mm.group(1).split('||')]
        skipped = []
        for p in parts:
            pm = need(re.fullmatch(r'it\.key\(\) == QLatin1String\("(\w+)"\)', p), 'extra loop: unrecognised skip term %r' % p)
            skipped.append(pm.group(1))
    # sdk
    need(re.search(r'sdk\[' + Q % 'name' + r'\] = m_sdkName; sdk\[' + Q % 'version' + r'\] = m_sdkVersion; event\[' + Q % 'sdk' + r'\] = sdk;', f), 'sdk object')
    need(re.search(r'SentryFormatter::SentryFormatter\(const QString &sdkName, const QString &sdkVersion\)\s*:\s*m_sdkName\(sdkName\), m_sdkVersion\(sdkVersion\)', s), 'constructor stores the sdk strings')
    h = re.sub(r'\s+', ' ', strip_comments(rd('formatters/sentryformatter.h')))
    hm = need(re.search(r'explicit SentryFormatter\(const QString &sdkName = QStringLiteral\("([^"]*)"\), const QString &sdkVersion = QStringLiteral\("([^"]*)"\)\);', h),
              'sentryformatter.h: default sdk name/version')
    # fingerprint
    fm = need(re.search(r'QJsonArray fingerprint; fingerprint\.append\(qtMsgTypeToSentryLevel\(lmsg\.type\(\)\)\); '
                        r'fingerprint\.append\(category\.isEmpty\(\) \? QStringLiteral\("default"\) : category\); '
                        r'fingerprint\.append\(lmsg\.(message|formattedMessage)\(\)\.left\((\d+)\)\); event\[' + Q % 'fingerprint' + r'\] = fingerprint;', f),
              'fingerprint: [level, category or "default", message().left(N)]')
    need(re.search(r'return QString::fromUtf8\(QJsonDocument\(event\)\.toJson\(QJsonDocument::Compact\)\);', f), 'compact serialisation of the event')

    # the attribute store the formatter reads (SentryDefs.apply_op / look_last): setAttribute and updateAttributes REPLACE the value
    # of a name (QHash::insert), setAttributes assigns, removeAttribute removes, attribute()/hasAttribute() read the one value;
    # an attribute handler hands its hash to updateAttributes
    lm = strip_comments(rd('logmessage.h'))
    def body(fn):
        return re.sub(r'\s+', ' ', fn_body(lm, fn, 'logmessage.h: ' + fn + '()')).strip()
    need(body('setAttribute') == 'm_attributes.insert(name, value);', 'LogMessage::setAttribute = m_attributes.insert(name, value)')
    need(body('setAttributes') == 'm_attributes = attrs;', 'LogMessage::setAttributes = assignment of the hash')
    need(re.fullmatch(r'#if QT_VERSION >= QT_VERSION_CHECK\(5, 15, 0\) m_attributes\.insert\(attrs\); #else m_attributes\.unite\(attrs\); #endif', body('updateAttributes')),
         'LogMessage::updateAttributes = m_attributes.insert(attrs) on Qt >= 5.15 (replaces the value of an existing name)')
    need(body('removeAttribute') == 'm_attributes.remove(name);', 'LogMessage::removeAttribute = m_attributes.remove(name)')
    need(re.search(r'inline QVariant attribute\(const QString &name\) const \{ return m_attributes\.value\(name\); \}', re.sub(r'\s+', ' ', lm)), 'LogMessage::attribute = m_attributes.value(name)')
    need(re.search(r'inline bool hasAttribute\(const QString &name\) const \{ return m_attributes\.contains\(name\); \}', re.sub(r'\s+', ' ', lm)), 'LogMessage::hasAttribute = m_attributes.contains(name)')
    need(re.search(r'inline QVariantHash attributes\(\) const \{ return m_attributes; \}', re.sub(r'\s+', ' ', lm)), 'LogMessage::attributes() returns the hash')
    need(re.search(r'QVariantHash m_attributes;', lm), 'LogMessage::m_attributes is a QVariantHash')
    ah = re.sub(r'\s+', ' ', strip_comments(rd('attrhandler.h')))
    need(re.search(r'bool process\(LogMessage &lmsg\) override \{ lmsg\.updateAttributes\(attributes\(lmsg\)\); return true; \}', ah),
         'AttrHandler::process = lmsg.updateAttributes(attributes(lmsg))')

    # front end (round 8): SimplePipeline::formatToSentry(sdkName, sdkVersion) - which object it appends and which of its
    # parameters it hands on to the SentryFormatter constructor, in which order; the default arguments of its declaration
    sp = strip_comments(rd('simplepipeline.cpp'))
    need(re.search(r'SimplePipeline &SimplePipeline::formatToSentry\(const QString &sdkName, const QString &sdkVersion\)', sp),
         'SimplePipeline::formatToSentry(const QString &sdkName, const QString &sdkVersion)')
    fb = re.sub(r'\s+', ' ', fn_body(sp, 'SimplePipeline::formatToSentry')).strip()
    fb = inline_single_use_consts(fb).strip()   # `const auto f = SentryFormatterPtr::create(...); append(f);` is the same body (a `static` one is not: it stays unrecognised)
    fm2 = re.fullmatch(r'append\(SentryFormatterPtr::create\(([^()]*)\)\); return \*this;', fb)
    if fm2:
        fargs = [a.strip() for a in fm2.group(1).split(',')] if fm2.group(1).strip() else []
        for a in fargs:
            if a not in ('sdkName', 'sdkVersion'):
                raise AnchorError('ANCHOR NOT FOUND: SimplePipeline::formatToSentry: the constructor arguments are the parameters sdkName, sdkVersion themselves (got %r)' % a)
        if len(fargs) > 2:
            raise AnchorError('ANCHOR NOT FOUND: SimplePipeline::formatToSentry: at most two constructor arguments (got %r)' % fm2.group(1))
        front_obj = 'FOFresh [%s]' % '; '.join({'sdkName': 'FAName', 'sdkVersion': 'FAVersion'}[a] for a in fargs)
    elif re.fullmatch(r'append\(SentryFormatter::instance\(\)\); return \*this;', fb):
        front_obj = 'FOInstance'
    else:
        raise AnchorError('ANCHOR NOT FOUND: SimplePipeline::formatToSentry: append(SentryFormatterPtr::create(sdkName, sdkVersion)); return *this;  (got %r)' % fb[:200])
    sh = re.sub(r'\s+', ' ', strip_comments(rd('simplepipeline.h')))
    fd = need(re.search(r'SimplePipeline &formatToSentry\(const QString &sdkName = QStringLiteral\("([^"\\]*)"\), const QString &sdkVersion = QStringLiteral\("([^"\\]*)"\)\);', sh),
              'simplepipeline.h: formatToSentry(const QString &sdkName = QStringLiteral("..."), const QString &sdkVersion = QStringLiteral("..."))')
    need(re.search(r'static SentryFormatterPtr instance\(\) \{ static const auto (\w+) = SentryFormatterPtr::create\(\); return \1; \}', h),
         'SentryFormatter::instance(): function-local static created with SentryFormatterPtr::create() (the default arguments)')

    out = HDR % 'src/qtlogger/formatters/sentryformatter.cpp, sentryformatter.h, simplepipeline.cpp, simplepipeline.h'
    out += 'Require Import List NArith.\nImport ListNotations.\nRequire Import QtlVerif.JsonDefs QtlVerif.SentryDefs.\nLocal Open Scope N_scope.\n'
    out += 'Definition src_sentry_cfg : sentry_cfg := {|\n'
    out += '  level_names := [%s];\n' % '; '.join('(%d, %s)' % (QTMSG[t], coq_str(n)) for t, n in cases)
    out += '  level_default := %s;\n' % coq_str(dflt)
    out += '  routes := [%s];\n' % ';\n             '.join(routes)
    out += '  skipped := [%s];\n' % '; '.join(coq_str(k) for k in skipped)
    out += '  fp_cut := %d; fp_formatted := %s; msg_formatted := %s;\n' % (int(fm.group(2)), 'true' if fm.group(1) == 'formattedMessage' else 'false', msg_fmt)
    out += '  logger_unless_empty := %s; logger_unless_default := %s;\n' % (l_empty, l_default)
    out += '  sdk_name := %s; sdk_version := %s |}.\n' % (coq_str(hm.group(1)), coq_str(hm.group(2)))
    out += 'Definition src_sentry_front : sentry_front := {| front_object := %s;\n' % front_obj
    out += '  front_default_name := %s; front_default_version := %s |}.\n' % (coq_str(fd.group(1)), coq_str(fd.group(2)))
    return {'SrcSentry.v': out}
