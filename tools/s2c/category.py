"""C15: constants and shapes of CategoryFilter (filters/categoryfilter.cpp) and the suffix -> QtMsgType
map of stringToQtMsgType (logmessage.h) -> SrcCategory.v (`src_cfg : cat_cfg`).

Everything the Gallina model takes as a constant is read here; every other spot of the three
functions that the model mirrors structurally is pinned by an anchor, so that an edit the model does
not follow makes the translator fail loudly (the check then reports the tie as broken and looks for
a failing input with the specification oracle)."""
import re
from .common import rd, need, fn_body, strip_comments, AnchorError, HDR

MT = {'QtDebugMsg': 'Debug', 'QtWarningMsg': 'Warning', 'QtCriticalMsg': 'Critical', 'QtFatalMsg': 'Fatal',
      'QtInfoMsg': 'Info'}


def coq_str(s):
    return '[' + ';'.join(str(ord(c)) for c in s) + ']'


def c_char(lit, what):
    """value of a one-character C/C++ string or character literal body"""
    esc = {'\\n': '\n', '\\t': '\t', '\\r': '\r', '\\\\': '\\', '\\;': ';'}
    v = esc.get(lit, lit)
    if len(v) != 1:
        raise AnchorError('ANCHOR NOT FOUND: %s: expected a one-character literal, got %r' % (what, lit))
    return ord(v)


def inline_const_locals(body, decl_rx, value_of):
    """`const T name = <expr>;` locals whose initialiser is one of the known pure expressions are replaced by the
    expression at every use (a const local cannot be assigned again), the declarations are dropped"""
    for m in list(re.finditer(decl_rx, body)):
        name = m.group('name')
        body = body.replace(m.group(0), ' ', 1)
        body = re.sub(r'(?<![\w>.])%s\b' % re.escape(name), value_of(m), body)
    return re.sub(r'\s+', ' ', body)


def generate():
    raw = rd('filters/categoryfilter.cpp')
    s = strip_comments(raw)
    flat = lambda t: re.sub(r'\s+', ' ', t)

    # --- constructor: rules.replace(";", "\n"); parseRules(rules);
    ctor = flat(fn_body(s, 'CategoryFilter::CategoryFilter'))
    m = need(re.fullmatch(r' ?auto rules = a_rules; rules\.replace\("((?:\\.|[^"\\])+)", "((?:\\.|[^"\\])+)"\); parseRules\(rules\); ?', ctor),
             'CategoryFilter constructor: auto rules = a_rules; rules.replace("<c>", "<c>"); parseRules(rules);')
    sep_from = c_char(m.group(1), 'separator replaced')
    sep_to = c_char(m.group(2), 'separator replacement')

    # --- parseRules
    pr = flat(fn_body(s, 'CategoryFilter::parseRules'))
    splits = re.findall(r"rules\.split\('((?:\\.|[^'\\])+)', (?:Qt|QString)::SkipEmptyParts\)", pr)
    need(len(splits) == 2 and splits[0] == splits[1], "parseRules: rules.split('<c>', SkipEmptyParts) in both QT_VERSION branches")
    split_ch = c_char(splits[0], 'split character')
    need(re.search(r'for \(const auto &line : lines\) \{', pr), 'parseRules: for (const auto &line : lines)')
    # const locals naming the captures (const auto pattern = match.captured(1);) are read as the captures themselves;
    # reserving list capacity is not behaviour
    pr = inline_const_locals(pr, r'const (?:auto|QString) (?P<name>\w+) = match\.captured\((?P<n>\d)\);',
                             lambda m: 'match.captured(%s)' % m.group('n'))
    pr = re.sub(r'm_rules\.reserve\([^;{}]*\); ?', '', pr)
    # the expression is const either way: a local of the loop body or one function-local static shared by all calls
    m = need(re.search(r'const auto ruleRegex = QRegularExpression\( ?R"\((.*?)\)" ?\);', pr)
             or re.search(r'static const QRegularExpression ruleRegex\( ?R"\((.*?)\)" ?\);', pr),
             'parseRules: ruleRegex = QRegularExpression(R"(...)") with no pattern options')
    rx = m.group(1)
    m = need(re.fullmatch(r'\^\\s\*\(\\S\+\?\)\(\?:\\\.\(([a-z]+(?:\|[a-z]+)*)\)\)\?\\s\*=\\s\*\(([A-Za-z0-9]+(?:\|[A-Za-z0-9]+)*)\)\\s\*\$', rx),
             r'rule regex of the form ^\s*(\S+?)(?:\.(a|b|..))?\s*=\s*(v|w|..)\s*$ , got ' + rx)
    suffix_names = m.group(1).split('|')
    value_names = m.group(2).split('|')
    need(re.search(r'const auto match = ruleRegex\.match\(line\); if \(!match\.hasMatch\(\)\) continue;', pr),
         'parseRules: a line the regex rejects is skipped with continue')
    # --- how the category pattern is stored and matched: three known shapes
    rule_struct = flat(need(re.search(r'struct CategoryFilter::Rule\s*\{(.*?)\};', s, re.S), 'struct CategoryFilter::Rule').group(1))
    mb = flat(fn_body(s, 'CategoryFilter::Rule::matches'))
    type_test = r'\(!typeMatch \|\| type == messageType\)'
    # the two tests are pure and total: "if (typeMatch && type != messageType) return false; return <pattern test>;"
    # is the same conjunction evaluated in the other order
    mb = re.sub(r'^ ?if \(typeMatch && type != messageType\) return false; return (.*?); ?$',
                r' return \1 && (!typeMatch || type == messageType); ', mb)
    star = None
    if re.search(r'rule->category = match\.captured\(1\);', pr):
        # the pattern is kept verbatim and matched by the file-local wildcardMatch()
        need('QRegularExpression::escape' not in pr and 'category.replace' not in pr and 'rule->category = QRegularExpression' not in pr,
             'parseRules: captured(1) stored verbatim (no escape/replace/QRegularExpression for the category)')
        need(re.search(r'\bQString category;', rule_struct), 'Rule::category is a QString')
        need(re.fullmatch(r' ?return wildcardMatch\(this->category, category\) && %s; ?' % type_test, mb),
             'Rule::matches: wildcardMatch(this->category, category) && (!typeMatch || type == messageType)')
        need(len(re.findall(r'\bwildcardMatch\s*\(', s)) == 2, 'wildcardMatch: one definition, one call')
        need(re.search(r'bool wildcardMatch\(const QString &pattern, const QString &text\)', flat(s)),
             'bool wildcardMatch(const QString &pattern, const QString &text)')
        wb = flat(fn_body(s, 'wildcardMatch'))
        lit = r"QLatin1Char\('((?:\\.|[^'\\]))'\)"
        m = need(re.fullmatch(
            r' ?int p = 0, t = 0, star = -1, mark = 0; '
            r'while \(t < text\.size\(\)\) \{ '
            r'if \(p < pattern\.size\(\) && pattern\.at\(p\) == ' + lit + r'\) \{ star = p\+\+; mark = t; \} '
            r'else if \(p < pattern\.size\(\) && pattern\.at\(p\) == text\.at\(t\)\) \{ \+\+p; \+\+t; \} '
            r'else if \(star >= 0\) \{ p = star \+ 1; t = \+\+mark; \} '
            r'else \{ return false; \} \} '
            r'while \(p < pattern\.size\(\) && pattern\.at\(p\) == ' + lit + r'\) \+\+p; '
            r'return p == pattern\.size\(\); ?', wb),
            'wildcardMatch body: init p,t,star,mark; while (t < size) {wildcard: star = p++, mark = t | equal: ++p, ++t | '
            'star >= 0: p = star + 1, t = ++mark | return false}; skip trailing wildcards; return p == pattern.size()')
        need(m.group(1) == m.group(2), 'wildcardMatch: the same wildcard character in the loop and in the trailing-wildcard loop')
        star = c_char(m.group(1), 'wildcard character')
        matcher = 'MWildcardIter'
    else:
        need(re.search(r'auto category = match\.captured\(1\); category = QRegularExpression::escape\(category\); '
                       r'category\.replace\("\\\\\*", "\.\*"\);', pr),
             'parseRules: rule->category = captured(1) verbatim, or the former category = captured(1); escape(category); category.replace("\\\\*", ".*")')
        need(re.search(r'\bQRegularExpression category;', rule_struct), 'Rule::category is a QRegularExpression')
        need(re.fullmatch(r' ?return this->category\.match\(category\)\.hasMatch\(\) && %s; ?' % type_test, mb),
             'Rule::matches: category.match(category).hasMatch() && (!typeMatch || type == messageType)')
        star = ord('*')
        if re.search(r'rule->category = QRegularExpression\("\\\\A" \+ category \+ "\\\\z", ?QRegularExpression::DotMatchesEverythingOption\);', pr):
            matcher = 'MRegexWhole'
        elif re.search(r'rule->category = QRegularExpression\("\^" \+ category \+ "\$"\);', pr):
            matcher = 'MRegexLine'
        else:
            raise AnchorError('ANCHOR NOT FOUND: parseRules: rule->category = QRegularExpression("\\\\A" + category + "\\\\z", '
                              'DotMatchesEverythingOption)  (or the former "^" + category + "$")')
    need(re.search(r'rule->type = stringToQtMsgType\(match\.captured\(2\)\);', pr), 'parseRules: rule->type = stringToQtMsgType(captured(2))')
    need(re.search(r'rule->typeMatch = !match\.captured\(2\)\.isEmpty\(\);', pr), 'parseRules: rule->typeMatch = !captured(2).isEmpty()')
    m = need(re.search(r'rule->enabled = match\.captured\(3\) == "([^"\\]*)";', pr)
             or re.search(r'rule->enabled = \(match\.captured\(3\) == QLatin1String\("([^"\\]*)"\)\);', pr),
             'parseRules: rule->enabled = captured(3) == "<v>"')
    enabling = m.group(1)
    need(re.search(r'm_rules\.append\(rule\);', pr), 'parseRules: m_rules.append(rule)')
    need(len(re.findall(r'\bcontinue\b|\bbreak\b|\breturn\b', pr)) == 1, 'parseRules: exactly one continue, no break/return')

    # --- stringToQtMsgType (logmessage.h)
    lm = strip_comments(rd('logmessage.h'))
    m = need(re.search(r'inline QtMsgType stringToQtMsgType\(const QString &str, QtMsgType a_default\s*=\s*(\w+)\)', lm),
             'stringToQtMsgType(const QString &str, QtMsgType a_default = ...)')
    dflt_type = m.group(1)
    body = flat(fn_body(lm, 'stringToQtMsgType'))
    need(re.search(r'return map\.value\(str, a_default\);', body), 'stringToQtMsgType: return map.value(str, a_default)')
    tmap = dict(re.findall(r'\{ QStringLiteral\("(\w+)"\), (\w+) \}', body))
    need(tmap, 'stringToQtMsgType: name -> QtMsgType table')

    def mt(name):
        q = tmap.get(name, dflt_type)
        if q not in MT:
            raise AnchorError('ANCHOR NOT FOUND: stringToQtMsgType: unknown QtMsgType %s' % q)
        return MT[q]

    # --- filter(): default verdict and loop shape
    fb = flat(fn_body(s, 'CategoryFilter::filter'))
    # const locals for the name and the type of the message (Rule::matches takes a QString: the implicit conversion
    # of the const char * is QString::fromUtf8 as well)
    fb = inline_const_locals(fb, r'const (?:auto|QString|QtMsgType) (?P<name>\w+) = (?P<e>QString::fromUtf8\(lmsg\.category\(\)\)|lmsg\.type\(\));',
                             lambda m: 'lmsg.type()' if m.group('e') == 'lmsg.type()' else 'lmsg.category()')
    # a guard that skips the rest of the loop body = the positive test around that rest
    fb = re.sub(r'if \(!rule->matches\(lmsg\.category\(\), lmsg\.type\(\)\)\) continue; enabled = rule->enabled; \}',
                'if (rule->matches(lmsg.category(), lmsg.type())) { enabled = rule->enabled; } }', fb)
    m = re.fullmatch(r' ?bool enabled = (true|false); for \(const auto &rule : std::as_const\(m_rules\)\) \{ '
                     r'if \(rule->matches\(lmsg\.category\(\), lmsg\.type\(\)\)\) \{ (.*?) \} \} return enabled; ?', fb)
    mback = re.fullmatch(r' ?for \(auto it = m_rules\.crbegin\(\), end = m_rules\.crend\(\); it != end; \+\+it\) \{ '
                         r'const Rule &rule = \*\*it; if \(rule\.matches\(lmsg\.category\(\), lmsg\.type\(\)\)\) return rule\.enabled; \} '
                         r'return (true|false); ?', fb)
    need(m or mback, 'filter(): bool enabled = <b>; for (rule : m_rules) { if (rule->matches(category, type)) {...} } return enabled;  '
                     '(or: the list walked from crbegin() to crend(), return rule.enabled at the first match, return <b> after the loop)')
    if mback:
        default_verdict = mback.group(1)
        shape = 'LastFromBack'
    else:
        default_verdict = m.group(1)
        inner = m.group(2).strip()
        if inner == 'enabled = rule->enabled;':
            shape = 'LastWins'
        elif inner in ('enabled = rule->enabled; break;', 'return rule->enabled;'):
            shape = 'FirstWins'
        else:
            raise AnchorError('ANCHOR NOT FOUND: filter(): unrecognised body of the matching branch: ' + inner)

    # --- the object's state: the model's CategoryFilter object is its parsed rule list and nothing else
    # (obj_state / obj_step in CategoryDefs.v): one data member, no mutable member, no writable static storage
    hdr = strip_comments(rd('filters/categoryfilter.h'))
    cls = need(re.search(r'class\s+(?:\w+\s+)?CategoryFilter\s*:\s*public\s+Filter\s*\{(.*?)\n\};', hdr, re.S),
               'categoryfilter.h: class CategoryFilter : public Filter { ... };').group(1)
    decls = [re.sub(r'^(?:(?:public|private|protected)\s*:\s*)+', '', flat(d).strip()) for d in cls.split(';')]
    members = [d for d in decls if d and '(' not in d and not re.match(r'(?:struct|class|using|friend|typedef|enum)\b', d)]
    need(members == ['QList<QSharedPointer<Rule>> m_rules'],
         'categoryfilter.h: the only data member of CategoryFilter is QList<QSharedPointer<Rule>> m_rules (the object model keeps no other '
         'state between two filter() calls), found: ' + ' | '.join(members))
    need(not re.search(r'\bmutable\b', hdr + s), 'CategoryFilter: no mutable member / lambda (filter() keeps no state)')
    need(not re.search(r'\b(?:static|thread_local)\b(?!\s+const\b)(?!\s+constexpr\b)', s),
         'categoryfilter.cpp: no writable object with static or thread storage duration (filter() keeps no state)')

    # --- front end (round 8): SimplePipeline::filterCategory(rules) - which object the pipeline gets and which rule text
    # is handed to its constructor (cat_front in CategoryDefs.v)
    sp = strip_comments(rd('simplepipeline.cpp'))
    need(re.search(r'SimplePipeline &SimplePipeline::filterCategory\(const QString &rules\)', flat(sp)),
         'SimplePipeline &SimplePipeline::filterCategory(const QString &rules)')
    need(len(re.findall(r'\bSimplePipeline::filterCategory\s*\(', sp)) == 1, 'simplepipeline.cpp: one definition of SimplePipeline::filterCategory')
    fc = flat(fn_body(sp, 'SimplePipeline::filterCategory')).strip()
    empty_arg = r'(?:QString\(\)|QString\(""\)|QStringLiteral\(""\)|QLatin1String\(""\)|"")'
    m_new = re.fullmatch(r'append\(CategoryFilterPtr::create\((rules|%s)\)\); return \*this;' % empty_arg, fc)
    m_static = re.fullmatch(r'static (?:const )?(?:auto|CategoryFilterPtr) (\w+) = CategoryFilterPtr::create\((rules|%s)\); '
                            r'append\(\1\); return \*this;' % empty_arg, fc)
    # a (non-static) local naming the new object is the same as creating it in the argument of append
    m_local = re.fullmatch(r'(?:const )?(?:auto|CategoryFilterPtr) (\w+) = CategoryFilterPtr::create\((rules|%s)\); '
                           r'append\(\1\); return \*this;' % empty_arg, fc)
    if m_new or m_local:
        front_obj, front_arg = 'FNew', ('ArgRules' if (m_new.group(1) if m_new else m_local.group(2)) == 'rules' else 'ArgEmpty')
    elif m_static:
        front_obj, front_arg = 'FSharedStatic', ('ArgRules' if m_static.group(2) == 'rules' else 'ArgEmpty')
    else:
        raise AnchorError('ANCHOR NOT FOUND: SimplePipeline::filterCategory: append(CategoryFilterPtr::create(rules)); return *this;  (got %r)' % fc[:200])
    sph = flat(strip_comments(rd('simplepipeline.h')))
    need(re.search(r'SimplePipeline &filterCategory\(const QString &rules\);', sph), 'simplepipeline.h: SimplePipeline &filterCategory(const QString &rules);')
    need(re.search(r'\bCategoryFilter\(const QString &rules\);', flat(hdr)), 'categoryfilter.h: CategoryFilter(const QString &rules); (one constructor, no default argument)')
    need(len(re.findall(r'\bCategoryFilter\s*\(', hdr)) == 1, 'categoryfilter.h: exactly one constructor of CategoryFilter')

    out = HDR % ('src/qtlogger/filters/categoryfilter.cpp, src/qtlogger/filters/categoryfilter.h, src/qtlogger/logmessage.h, '
                 'src/qtlogger/simplepipeline.cpp, src/qtlogger/simplepipeline.h')
    out += 'Require Import List NArith.\nImport ListNotations.\nRequire Import QtlVerif.CategoryDefs.\nLocal Open Scope N_scope.\n'
    out += '(* rule regex: %s *)\n' % rx.replace('*)', '* )').replace('(*', '( *').replace('"', "''")
    out += 'Definition src_cfg : cat_cfg := {|\n'
    out += '  sep_from := %d; sep_to := %d; split_ch := %d;\n' % (sep_from, sep_to, split_ch)
    out += '  suffixes := [%s];\n' % '; '.join('(%s, %s)' % (coq_str(n), mt(n)) for n in suffix_names)
    out += '  values := [%s];\n' % '; '.join('(%s, %s)' % (coq_str(v), 'true' if v == enabling else 'false') for v in value_names)
    out += '  star := %d; matcher := %s;\n' % (star, matcher)
    out += '  default_verdict := %s; shape := %s |}.\n' % (default_verdict, shape)
    out += '(* SimplePipeline::filterCategory: %s *)\n' % fc.replace('*)', '* )').replace('(*', '( *').replace('"', "''")
    out += 'Definition src_cat_front : cat_front := {| fr_obj := %s; fr_arg := %s |}.\n' % (front_obj, front_arg)
    return {'SrcCategory.v': out}
