"""C04: skeletons of OwnThreadHandler::resetOwnThread / moveToOwnThread / ~OwnThreadHandler /
process and Worker::customEvent, read from ownthreadhandler.h (brace-aware statement parser +
one classifier regex per statement kind).  Statements the classifier does not know become SOther,
so any rewrite of these functions changes the generated value and the obligation
`src_skeleton = modelled_skeleton` of Properties_C04.v stops checking.  Schedule-point hooks
(QTLOGGER_VERIF_POINT), comments, Q_UNUSED and local aliases of m_worker are not statements of the
skeleton."""
import re
from .common import rd, need, fn_body, strip_comments, AnchorError, HDR


# ------------------------------------------------------------------------------ statement parser
def _skip_ws(s, i):
    while i < len(s) and s[i].isspace():
        i += 1
    return i


def _match_paren(s, i, op='(', cl=')'):
    """s[i] == op; index just after the matching close"""
    depth = 0
    k = i
    while k < len(s):
        c = s[k]
        if c == '"':
            k += 1
            while s[k] != '"':
                k += 2 if s[k] == '\\' else 1
        elif c == op:
            depth += 1
        elif c == cl:
            depth -= 1
            if depth == 0:
                return k + 1
        k += 1
    raise AnchorError('ANCHOR NOT FOUND: unbalanced %s%s in ownthreadhandler.h' % (op, cl))


def parse_stmt(s, i):
    """one statement starting at s[i]; returns (node, next index).
    node = ('if', cond, then, else) | ('while', cond, body) | ('block', stmts) | ('simple', text)"""
    i = _skip_ws(s, i)
    m = re.match(r'(if|while)\s*\(', s[i:])
    if m:
        kw = m.group(1)
        j = i + m.end() - 1
        k = _match_paren(s, j)
        cond = re.sub(r'\s+', ' ', s[j + 1:k - 1]).strip()
        body, k = parse_stmt(s, k)
        body = body[1] if body[0] == 'block' else [body]
        if kw == 'while':
            return ('while', cond, body), k
        k2 = _skip_ws(s, k)
        if re.match(r'else\b', s[k2:]):
            els, k = parse_stmt(s, k2 + 4)
            els = els[1] if els[0] == 'block' else [els]
        else:
            els = []
        return ('if', cond, body, els), k
    if s[i] == '{':
        k = _match_paren(s, i, '{', '}')
        return ('block', parse_block(s[i + 1:k - 1])), k
    # simple statement: up to the ';' at nesting depth 0 (lambdas carry braces and semicolons)
    k = i
    while k < len(s):
        c = s[k]
        if c == '(':
            k = _match_paren(s, k)
            continue
        if c == '{':
            k = _match_paren(s, k, '{', '}')
            continue
        if c == '"':
            k += 1
            while s[k] != '"':
                k += 2 if s[k] == '\\' else 1
        if c == ';':
            return ('simple', re.sub(r'\s+', ' ', s[i:k]).strip()), k + 1
        k += 1
    raise AnchorError('ANCHOR NOT FOUND: statement without terminating ; in ownthreadhandler.h')


def parse_block(s):
    out, i = [], 0
    while _skip_ws(s, i) < len(s):
        node, i = parse_stmt(s, i)
        out.append(node)
    return out


# ---------------------------------------------------------------------------------- classifier
SIMPLE = [
    (r'^QMutexLocker \w+\(&m_mutex\)$', 'SLock'),
    (r'^\w+\.unlock\(\)$', 'SUnlock'),
    (r'^\w+\.relock\(\)$', 'SRelock'),
    (r'^QThread::msleep\(\d+\)$', 'SSleep'),
    (r'^m_thread->quit\(\)$', 'SQuit'),
    (r'^m_thread\.clear\(\)$', 'SClearThread'),
    (r'^m_worker = nullptr$', 'SClearWorker'),
    (r'^m_thread = new QThread\(\)$', 'SNewThread'),
    (r'^QObject::connect\(qApp, &QCoreApplication::aboutToQuit, m_thread, \[this\]\(\) \{ resetOwnThread\(\); \}\)$',
     'SConnectAboutToQuitReset'),
    (r'^m_aboutToQuitConnection = QObject::connect\(qApp, &QCoreApplication::aboutToQuit, m_thread, \[this\]\(\) \{ resetOwnThread\(\); \}\)$',
     'SConnectAboutToQuitResetKept'),
    (r'^QObject::disconnect\(m_aboutToQuitConnection\)$', 'SDisconnectAboutToQuit'),
    (r'^QObject::connect\(m_thread, &QThread::finished, m_thread, &QThread::deleteLater\)$',
     'SConnectFinishedDeleteThread'),
    (r'^m_worker = new Worker\( ?this ?\)$', 'SNewWorker'),
    (r'^m_worker->moveToThread\(m_thread\)$', 'SWorkerToThread'),
    (r'^QObject::connect\(m_thread, &QThread::finished, \[(\w+)\]\(\) \{ delete \1; \}\)$',
     'SConnectFinishedDeleteWorker'),
    (r'^m_thread->start\(\)$', 'SStartThread'),
    (r'^m_pendingCount\.fetchAndAddOrdered\(1\)$', 'SIncPending'),
    (r'^QCoreApplication::postEvent\(m_worker, new LogEvent\(lmsg\)\)$', 'SPostEvent'),
    (r'^BaseHandler::process\(lmsg\)$', 'SProcessBase'),
    (r'^m_handler->BaseHandler::process\(\w+->lmsg\)$', 'SProcessBase'),
    (r'^m_handler->m_pendingCount\.fetchAndSubOrdered\(1\)$', 'SDecPending'),
    (r'^resetOwnThread\(\)$', 'SCallReset'),
    (r'^return( \*this| true)?$', 'SReturn'),
]
# not statements of the skeleton
IGNORED = [r'^QTLOGGER_VERIF_POINT\(', r'^Q_UNUSED\(', r'^const auto \w+ = m_worker$',
           r'^auto \w+ = dynamic_cast<LogEvent \*>\(event\)$']


def classify(nodes, lockers):
    """list of parsed statements -> list of Coq terms; QMutexLocker declared in this block is
    released at the end of the block (SUnlock)"""
    out = []
    mine = 0
    for n in nodes:
        if n[0] == 'simple':
            t = n[1]
            if any(re.search(p, t) for p in IGNORED):
                continue
            for pat, name in SIMPLE:
                if re.match(pat, t):
                    out.append(name)
                    if name == 'SLock':
                        mine += 1
                    break
            else:
                out.append('SOther')
        elif n[0] == 'block':
            out += classify(n[1], lockers)
        elif n[0] == 'while':
            if re.match(r'^m_pendingCount\.loadAcquire\(\) > 0$', n[1]):
                out.append('SWhilePending [%s]' % '; '.join(classify(n[2], lockers)))
            else:
                out.append('SOther')
        elif n[0] == 'if':
            cond, thn, els = n[1], n[2], n[3]
            simple_ret = len(thn) == 1 and thn[0][0] == 'simple' and re.match(r'^return( \*this)?$', thn[0][1]) and not els
            if cond == '!m_thread' and simple_ret:
                out.append('SRetIfNoThread')
            elif cond == 'm_thread' and simple_ret:
                out.append('SRetIfThread')
            elif re.match(r'^!m_handler->BaseHandler::process\(\w+->lmsg\)$', cond) and simple_ret:
                # customEvent leaves, before whatever follows, when the wrapped handler returned false
                out.append('SRetIfRejected')
            elif cond == 'qApp' and not els:
                out.append('SIfApp [%s]' % '; '.join(classify(thn, lockers)))
            elif cond == 'qApp->thread() != m_thread->thread()' and not els and len(thn) == 1 \
                    and thn[0] == ('simple', 'm_thread->moveToThread(qApp->thread())'):
                out.append('SThreadToAppThread')
            elif cond == '!m_thread->wait(3000)' and not els and \
                    thn == [('simple', 'm_thread->terminate()'), ('simple', 'm_thread->wait()')]:
                out.append('SWaitElseTerminate')
            elif cond == 'm_worker':
                out.append('SIfWorker [%s] [%s]' % ('; '.join(classify(thn, lockers)), '; '.join(classify(els, lockers))))
            elif cond == 'event->type() == LogEvent::type()' and not els:
                out.append('SIfLogEvent [%s]' % '; '.join(classify(thn, lockers)))
            elif re.match(r'^\w+$', cond) and cond not in ('m_thread', 'm_worker', 'qApp') and not els \
                    and any(x[0] == 'simple' and re.match(r'^auto %s = dynamic_cast<LogEvent \*>\(event\)$' % cond, x[1]) for x in nodes):
                out.append('SIfCast [%s]' % '; '.join(classify(thn, lockers)))
            else:
                out.append('SOther')
    out += ['SUnlock'] * mine
    return out


def skeleton_of(body):
    return '[' + '; '.join(classify(parse_block(body), [])) + ']'


def body_after(src, pattern, what):
    """body of the function whose declarator matches `pattern` (which ends at its '(')"""
    m = need(re.search(pattern, src), what)
    k = _match_paren(src, m.end() - 1)
    i = src.index('{', k)
    return src[i + 1:_match_paren(src, i, '{', '}') - 1]


WIDTHS = {'qint8': 8, 'signed char': 8, 'int8_t': 8, 'qint16': 16, 'short': 16, 'int16_t': 16, 'int': 32, 'qint32': 32, 'int32_t': 32,
          'qint64': 64, 'qlonglong': 64, 'long long': 64, 'int64_t': 64, 'qintptr': 64, 'qptrdiff': 64, 'long': 64}


def counter_bits(s):
    """width of the signed machine integer behind m_pendingCount (QAtomicInt = QAtomicInteger<int>)"""
    m = need(re.search(r'\n\s*([\w:]+(?:\s*<[^;>]*>)?)\s+m_pendingCount\s*(?:\{[^}]*\}|=\s*[^;]+)?;', s), 'member m_pendingCount')
    ty = re.sub(r'\s+', ' ', m.group(1)).strip()
    if ty == 'QAtomicInt':
        return 32
    t = need(re.match(r'^(?:QAtomicInteger|QBasicAtomicInteger|std::atomic)\s*<\s*([\w ]+?)\s*>$', ty), 'member m_pendingCount: an atomic SIGNED integer, found `%s`' % ty)
    need(t.group(1) in WIDTHS, 'member m_pendingCount: signed integer type of known width, found `%s`' % t.group(1))
    return WIDTHS[t.group(1)]


def generate():
    s = strip_comments(rd('ownthreadhandler.h'))
    need(re.search(r'template<typename BaseHandler>\s*class \w* ?OwnThreadHandler : public BaseHandler', s),
         'class template OwnThreadHandler')
    reset = skeleton_of(body_after(s, r'\bvoid resetOwnThread\s*\(', 'resetOwnThread()'))
    move = skeleton_of(body_after(s, r'&\s*moveToOwnThread\s*\(', 'moveToOwnThread()'))
    dtor = skeleton_of(body_after(s, r'~OwnThreadHandler\s*\(', '~OwnThreadHandler()'))
    proc = skeleton_of(body_after(s, r'\bbool process\s*\(', 'OwnThreadHandler::process()'))
    cust = skeleton_of(body_after(s, r'\bvoid customEvent\s*\(', 'Worker::customEvent()'))
    # the members the model speaks about
    bits = counter_bits(s)
    need(re.search(r'QMutex m_mutex;', s), 'member m_mutex (plain, non-recursive)')
    need(re.search(r'Worker \*m_worker = nullptr;', s), 'member m_worker')
    need(re.search(r'QPointer<QThread> m_thread;', s), 'member m_thread (QPointer)')
    # the process-exit path: function-local static singleton destroyed at exit
    lg = strip_comments(rd('logger.cpp'))
    inst = re.sub(r'\s+', ' ', fn_body(lg, 'Logger::instance'))
    need(re.search(r'static QScopedPointer<Logger> s_instance;', inst), 'Logger::instance(): function-local static')
    need(re.search(r'class \w* ?Logger :[^{]*public OwnThreadHandler<SimplePipeline>', strip_comments(rd('logger.h')), re.S),
         'Logger derives from OwnThreadHandler<SimplePipeline>')
    out = HDR % 'src/qtlogger/ownthreadhandler.h'
    out += 'Require Import List.\nImport ListNotations.\nRequire Import QtlVerif.ShutdownDefs.\n'
    out += 'Definition src_skeleton : skeleton := {|\n'
    out += '  sk_reset := %s;\n  sk_move := %s;\n  sk_dtor := %s;\n  sk_process := %s;\n  sk_custom_event := %s |}.\n' % (
        reset, move, dtor, proc, cust)
    out += '(* bits of the signed machine integer that holds m_pendingCount *)\nDefinition src_counter_bits : nat := %d.\n' % bits
    return {'SrcShutdown.v': out}
