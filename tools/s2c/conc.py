"""C02: locking skeletons of Logger::processMessage and OwnThreadHandler::process (synchronous branch).

A brace-aware textual walker over the function bodies (comments stripped, #ifndef QTLOGGER_NO_THREAD
resolved for the threaded build): a `QMutexLocker x(m)` declaration becomes `Lock m` there and
`Unlock m` at the end of its compound statement (unless x.unlock() was the last thing done to it),
explicit x.unlock()/x.relock()/lock()/unlock() are mapped, the pipeline run is `Work`, the virtual call
process(lmsg) in Logger::processMessage is `LCall`, anything else that does not touch the protocol is
`Other`.  A statement that mentions a lock, a mutex, process(), postEvent or the pending counter and is
not recognised raises AnchorError: nothing protocol-relevant is ever silently turned into `Other`.
The walker is shared with tools/s2c/async.py (C03)."""
import re
from .common import rd, need, fn_body, strip_comments, AnchorError, HDR

DEFINED = {'QTLOGGER_VERIF'}          # the configuration every /verif build uses (threads on)


def preprocess(body):
    """resolve #if(n)def/#else/#endif on DEFINED, drop other directives"""
    out, stack = [], []       # stack of (active_before, taking)
    for line in body.split('\n'):
        s = line.strip()
        if s.startswith('#'):
            d = re.sub(r'^#\s*', '', s)
            m = re.match(r'(ifndef|ifdef)\s+(\w+)', d)
            m2 = re.match(r'if\s+(!?)\s*defined\s*\(?\s*(\w+)\s*\)?\s*$', d)
            if m:
                t = (m.group(2) in DEFINED) == (m.group(1) == 'ifdef')
                stack.append(t)
            elif m2:
                stack.append((m2.group(2) in DEFINED) != (m2.group(1) == '!'))
            elif re.match(r'else\b', d):
                need(stack, 'preprocessor: #else without #if')
                stack[-1] = not stack[-1]
            elif re.match(r'endif\b', d):
                need(stack, 'preprocessor: #endif without #if')
                stack.pop()
            elif re.match(r'(if|elif)\b', d):
                raise AnchorError('ANCHOR NOT FOUND: unsupported preprocessor condition in a protocol function: ' + s)
            continue
        if all(stack):
            out.append(line)
    return '\n'.join(out)


def _skip_ws(s, i):
    while i < len(s) and s[i].isspace():
        i += 1
    return i


def _skip_string(s, i):
    q = s[i]
    i += 1
    while s[i] != q:
        if s[i] == '\\':
            i += 1
        i += 1
    return i + 1


def _balanced(s, i, op, cl):
    """s[i] == op; index just after the matching cl"""
    depth = 0
    while True:
        c = s[i]
        if c in '"\'':
            i = _skip_string(s, i)
            continue
        if c == op:
            depth += 1
        elif c == cl:
            depth -= 1
            if depth == 0:
                return i + 1
        i += 1


def parse_stmt(s, i):
    i = _skip_ws(s, i)
    if s[i] == '{':
        return parse_block(s, i)
    m = re.match(r'(if|while|for|do|switch|return|else)\b', s[i:])
    kw = m.group(1) if m else None
    if kw in ('if', 'while'):
        j = _skip_ws(s, i + len(kw))
        need(s[j] == '(', kw + ' without a condition')
        k = _balanced(s, j, '(', ')')
        cond = re.sub(r'\s+', ' ', s[j + 1:k - 1]).strip()
        body, k = parse_stmt(s, k)
        if kw == 'while':
            return ('while', cond, body), k
        k2 = _skip_ws(s, k)
        if re.match(r'else\b', s[k2:]):
            els, k = parse_stmt(s, k2 + 4)
            return ('if', cond, body, els), k
        return ('if', cond, body, None), k
    if kw in ('for', 'do', 'switch', 'else'):
        raise AnchorError('ANCHOR NOT FOUND: unsupported control flow `%s` in a protocol function' % kw)
    # simple statement (or return): up to ';' at depth 0
    j, depth = i, 0
    while True:
        c = s[j]
        if c in '"\'':
            j = _skip_string(s, j)
            continue
        if c in '({[':
            depth += 1
        elif c in ')}]':
            depth -= 1
        elif c == ';' and depth == 0:
            break
        j += 1
    text = re.sub(r'\s+', ' ', s[i:j]).strip()
    if kw == 'return':
        return ('return', text), j + 1
    return ('simple', text), j + 1


def parse_block(s, i):
    need(s[i] == '{', 'block')
    i += 1
    stmts = []
    while True:
        i = _skip_ws(s, i)
        if s[i] == '}':
            return ('block', stmts), i + 1
        st, i = parse_stmt(s, i)
        stmts.append(st)


def parse_function(src, qualname):
    body = preprocess(fn_body(src, qualname))
    blk, _ = parse_block('{' + body + '}', 0)
    return blk


def _split_args(a):
    out, depth, cur = [], 0, ''
    i = 0
    while i < len(a):
        c = a[i]
        if c in '"\'':
            j = _skip_string(a, i)
            cur += a[i:j]; i = j
            continue
        if c in '({[<' and not (c == '<' and False):
            depth += c != '<'
        elif c in ')}]':
            depth -= 1
        if c == ',' and depth == 0:
            out.append(cur.strip()); cur = ''
        else:
            cur += c
        i += 1
    if cur.strip():
        out.append(cur.strip())
    return out


MANUAL_LOCKS = []
PROTO = re.compile(r'lock|Lock|mutex|Mutex|process|postEvent|sendEvent|m_pendingCount|m_worker|invokeMethod')


def mutex_of(arg, fn):
    a = arg.replace(' ', '')
    if a in ('mutex()', '&m_mutex') and fn.startswith('Logger::'):
        return 'L'
    if a == '&m_mutex' and fn.startswith('OwnThreadHandler'):
        return 'M'
    raise AnchorError('ANCHOR NOT FOUND: %s: unrecognised mutex expression `%s`' % (fn, arg))


class Walker:
    """turns a parsed function into the nested IR: tuples ('Lock', m) ('Unlock', m) ('Work',) ('Call',)
    ('Other',) ('Inc',) ('Dec',) ('Post',) ('PostPrio',) ('IfWorker', a, b) ('Guard', a)"""

    def __init__(self, fn, view='sync', guards='keep'):
        self.fn = fn
        self.view = view        # which branch of `if (m_worker)` continues after the if: 'sync' = else, 'async' = then
        # a conditional without else whose condition is unrelated to the protocol (e.g. `type == QtFatalMsg`):
        # 'keep' -> ('Guard', body), the body must not change a locker; 'take' -> the body is inlined (the path on which
        # the condition holds); 'skip' -> the path on which it does not hold
        self.guards = guards
        self.lockers = {}       # name -> [mutex, locked]

    def simple(self, t):
        fn = self.fn
        m = re.match(r'^QMutexLocker(?:<[^>]*>)? (\w+)\s*[({]\s*(.*?)\s*[)}]$', t)
        if m:
            mx = mutex_of(m.group(2), fn)
            self.lockers[m.group(1)] = [mx, True]
            self.declared[-1].append(m.group(1))
            return [('Lock', mx)]
        m = re.match(r'^(\w+)\.(unlock|relock)\(\)$', t)
        if m and m.group(1) in self.lockers:
            lk = self.lockers[m.group(1)]
            want = m.group(2) == 'relock'
            lk[1] = want
            return [('Lock' if want else 'Unlock', lk[0])]
        m = re.match(r'^(mutex\(\)->|m_mutex\.|this->)?(lock|unlock)\(\)$', t)
        if m:
            MANUAL_LOCKS.append('%s: %s' % (fn, t))      # not bound to a scope: not released when a handler throws
            mx = mutex_of('mutex()' if fn.startswith('Logger::') else '&m_mutex', fn)
            return [('Lock' if m.group(2) == 'lock' else 'Unlock', mx)]
        if re.match(r'^QTLOGGER_VERIF_POINT\(', t):
            return [('Other',)]
        if re.match(r'^(const )?LogMessage \w+\s*[({]', t):
            return [('Other',)]
        if re.match(r'^(auto|LogEvent ?\*) ?\w+ = dynamic_cast<LogEvent ?\*>\(event\)$', t):
            return [('Other',)]
        if re.match(r'^(m_handler->)?(BaseHandler|SimplePipeline|Pipeline)::process\(\s*[\w>.-]+\s*\)$', t):
            return [('Work',)]
        if re.match(r'^(this->)?process\(\s*\w+\s*\)$', t):
            return [('Call',)]
        if re.match(r'^(m_handler->)?m_pendingCount\.(fetchAndAdd\w*\(\s*1\s*\)|ref\(\))$', t) or \
           re.match(r'^(\+\+(m_handler->)?m_pendingCount|(m_handler->)?m_pendingCount\+\+)$', t):
            return [('Inc',)]
        if re.match(r'^(m_handler->)?m_pendingCount\.(fetchAndSub\w*\(\s*1\s*\)|deref\(\))$', t) or \
           re.match(r'^(--(m_handler->)?m_pendingCount|(m_handler->)?m_pendingCount--)$', t):
            return [('Dec',)]
        m = re.match(r'^QCoreApplication::postEvent\((.*)\)$', t)
        if m:
            args = _split_args(m.group(1))
            if len(args) == 2 and args[0] == 'm_worker' and re.match(r'^new LogEvent\(\s*\w+\s*\)$', args[1]):
                return [('Post',)]
            if len(args) == 3 and args[0] == 'm_worker':
                return [('PostPrio',)]
            raise AnchorError('ANCHOR NOT FOUND: %s: unrecognised postEvent call `%s`' % (fn, t))
        if t in ('flush()', 'this->flush()', 'SimplePipeline::flush()'):
            return [('Flush',)]       # Sink::flush() of every sink (fatal path)
        if PROTO.search(t):
            raise AnchorError('ANCHOR NOT FOUND: %s: unrecognised statement touching the protocol: `%s`' % (fn, t[:120]))
        return [('Other',)]

    def block(self, blk, top=False):
        out = []
        self.declared = getattr(self, 'declared', [])
        self.declared.append([])
        stmts = blk[1] if blk[0] == 'block' else [blk]
        for k, st in enumerate(stmts):
            kind = st[0]
            if kind == 'block':
                out += self.block(st)
            elif kind == 'simple':
                out += self.simple(st[1])
            elif kind == 'return':
                if not (top and k == len(stmts) - 1):
                    raise AnchorError('ANCHOR NOT FOUND: %s: early return (unsupported control flow)' % self.fn)
            elif kind == 'if':
                cond = st[1].replace(' ', '')
                before = {k2: v[1] for k2, v in self.lockers.items()}
                a = self.block(st[2])
                mid = {k2: v[1] for k2, v in self.lockers.items() if k2 in before}
                for k2 in before:
                    self.lockers[k2][1] = before[k2]
                b = self.block(st[3]) if st[3] is not None else []
                after = {k2: v[1] for k2, v in self.lockers.items() if k2 in before}
                is_worker_if = cond in ('m_worker', 'm_worker!=nullptr', 'm_worker!=NULL', 'nullptr!=m_worker',
                                        '!m_worker', 'm_worker==nullptr', 'nullptr==m_worker',
                                        'ownThreadIsRunning()', '!ownThreadIsRunning()')
                take_guard = (not is_worker_if) and st[3] is None and self.guards in ('take', 'skip')
                if take_guard:
                    if self.guards == 'take':
                        for k2 in before:
                            self.lockers[k2][1] = mid[k2]
                        out += a
                    else:
                        out.append(('Other',))
                    continue
                if is_worker_if:
                    # the view decides which branch is the one executed; the locker state follows that branch
                    then_is_worker = not (cond.startswith('!') or '==' in cond)
                    chosen = mid if (self.view == 'async') == then_is_worker else after
                    for k2 in before:
                        self.lockers[k2][1] = chosen[k2]
                elif mid != before or after != before:
                    raise AnchorError('ANCHOR NOT FOUND: %s: a conditional branch changes the state of a QMutexLocker' % self.fn)
                if cond in ('m_worker', 'm_worker!=nullptr', 'm_worker!=NULL', 'nullptr!=m_worker'):
                    out.append(('IfWorker', a, b))
                elif cond in ('!m_worker', 'm_worker==nullptr', 'nullptr==m_worker'):
                    out.append(('IfWorker', b, a))
                elif cond == 'ownThreadIsRunning()':
                    out.append(('IfRunning', a, b))
                elif cond == '!ownThreadIsRunning()':
                    out.append(('IfRunning', b, a))
                elif 'm_worker' in cond or 'm_thread' in cond:
                    raise AnchorError('ANCHOR NOT FOUND: %s: unrecognised condition on the worker: `%s`' % (self.fn, st[1]))
                elif st[3] is None:
                    out.append(('Guard', a))
                else:
                    out.append(('Guard2', a, b))
            else:
                raise AnchorError('ANCHOR NOT FOUND: %s: unsupported statement kind %s' % (self.fn, kind))
        for name in reversed(self.declared.pop()):
            mx, locked = self.lockers.pop(name)
            if locked:
                out.append(('Unlock', mx))
        return out


def walk(src, qualname, fn, view='sync', guards='keep'):
    return Walker(fn, view, guards).block(parse_function(src, qualname), top=True)


def only_other(ir):
    return all(x[0] == 'Other' or (x[0] == 'Guard' and only_other(x[1])) for x in ir)


def flush_when_running(ir):
    """does some path with a RUNNING own thread reach flush()?  (C03: sinks are entered on the logger thread only)"""
    for x in ir:
        if x[0] == 'Flush':
            return True
        if x[0] == 'IfRunning' and flush_when_running(x[1]):
            return True
        if x[0] in ('Guard', 'IfWorker', 'Guard2') and any(flush_when_running(y) for y in x[1:]):
            return True
    return False


def flatten_sync(ir, fn):
    """C02 view: synchronous mode (m_worker == nullptr), guards may only contain `Other`"""
    out = []
    for x in ir:
        if x[0] in ('IfWorker', 'IfRunning'):
            out += flatten_sync(x[2], fn)
        elif x[0] == 'Guard':
            if not only_other(x[1]):
                raise AnchorError('ANCHOR NOT FOUND: %s: lock/pipeline operation under a condition' % fn)
            out.append(('Other',))
        elif x[0] in ('Lock', 'Unlock', 'Work', 'Call', 'Other', 'Flush'):
            out.append(x)
        else:
            raise AnchorError('ANCHOR NOT FOUND: %s: `%s` outside the asynchronous branch' % (fn, x[0]))
    return out


def coq_instr(x):
    return {'Lock': 'Lock %s', 'Unlock': 'Unlock %s'}[x[0]] % x[1] if x[0] in ('Lock', 'Unlock') else x[0]


def generate():
    del MANUAL_LOCKS[:]
    lg = strip_comments(rd('logger.cpp'))
    oh = strip_comments(rd('ownthreadhandler.h'))
    lh = strip_comments(rd('logger.h'))
    need(re.search(r'class\s+(?:\w+\s+)?Logger\s*:\s*(?:#\s*ifndef\s+QTLOGGER_NO_THREAD\s*)?public\s+OwnThreadHandler\s*<\s*SimplePipeline\s*>', lh),
         'logger.h: Logger derives from OwnThreadHandler<SimplePipeline>')
    need(not re.search(r'\bbool\s+process\s*\(', lh), 'logger.h: Logger does not override process()')
    need(re.search(r'bool\s+process\s*\(\s*LogMessage\s*&\s*\w+\s*\)\s*override', oh), 'ownthreadhandler.h: process(LogMessage&) override')
    need(re.search(r'logger->processMessage\(type, context, message\)', lg), 'logger.cpp: messageHandler forwards to processMessage')
    pm = flatten_sync(walk(lg, 'Logger::processMessage', 'Logger::processMessage', guards='skip'), 'Logger::processMessage')
    pmf = flatten_sync(walk(lg, 'Logger::processMessage', 'Logger::processMessage', guards='take'), 'Logger::processMessage')
    # the member function is defined inside the class template: anchor on its declaration line
    m = need(re.search(r'bool\s+process\s*\(\s*LogMessage\s*&', oh), 'OwnThreadHandler::process')
    hp_ir = Walker('OwnThreadHandler::process').block(parse_function(oh[m.start():], 'process'), top=True)
    hp = flatten_sync(hp_ir, 'OwnThreadHandler::process')
    need(all(x[0] != 'Call' for x in hp), 'OwnThreadHandler::process: no further virtual call')
    need(sum(1 for x in pm if x[0] in ('Call', 'Work')) == 1, 'Logger::processMessage: exactly one pipeline run')
    need(sum(1 for x in pmf if x[0] in ('Call', 'Work')) == 1, 'Logger::processMessage (fatal path): exactly one pipeline run')
    out = HDR % 'src/qtlogger/logger.cpp, ownthreadhandler.h'
    out += 'Require Import List.\nImport ListNotations.\nRequire Import QtlVerif.ConcDefs.\n'
    out += '(* Logger::processMessage; LCall = the virtual call process(lmsg) *)\n'
    out += 'Definition src_process_message : list linstr :=\n  [%s].\n' % '; '.join(
        'LCall' if x[0] == 'Call' else 'LI (%s)' % coq_instr(x) if x[0] in ('Lock', 'Unlock') else 'LI ' + coq_instr(x) for x in pm)
    out += '(* the same on the path on which every protocol-unrelated condition holds (type == QtFatalMsg: flush()) *)\n'
    out += 'Definition src_process_message_fatal : list linstr :=\n  [%s].\n' % '; '.join(
        'LCall' if x[0] == 'Call' else 'LI (%s)' % coq_instr(x) if x[0] in ('Lock', 'Unlock') else 'LI ' + coq_instr(x) for x in pmf)
    out += '(* OwnThreadHandler<BaseHandler>::process with m_worker == nullptr (synchronous mode) *)\n'
    out += 'Definition src_handler_sync : list instr :=\n  [%s].\n' % '; '.join(coq_instr(x) for x in hp)
    out += '(* a logging call through an installed Logger; a call on a bare OwnThreadHandler<Pipeline> *)\n'
    out += 'Definition src_logger_sk : list instr := inline src_process_message src_handler_sync.\n'
    out += 'Definition src_logger_fatal_sk : list instr := inline src_process_message_fatal src_handler_sync.\n'
    out += 'Definition src_handler_sk : list instr := src_handler_sync.\n'
    out += '(* every lock operation of the two functions is bound to a scope (QMutexLocker: released on EVERY exit path, also when a\n'
    out += '   user handler throws); manual lock()/unlock() calls found: %s *)\n' % (', '.join(sorted(set(MANUAL_LOCKS))) or 'none')
    out += 'Definition src_locks_scope_bound : bool := %s.\n' % ('false' if MANUAL_LOCKS else 'true')
    out += '(* the entry points the threads of one run may use on an installed synchronous Logger: Qt macros, a direct call of\n'
    out += '   the public process(), Qt macros at fatal level *)\n'
    out += 'Definition src_entry_points : list (list instr) := [src_logger_sk; src_handler_sk; src_logger_fatal_sk].\n'
    return {'SrcConc.v': out}
