"""C02: locking skeletons of Logger::processMessage and OwnThreadHandler::process (synchronous branch).

A brace-aware textual walker over the function bodies (comments stripped, #ifndef QTLOGGER_NO_THREAD
resolved for the threaded build): a `QMutexLocker x(m)` declaration becomes `Lock m` there and
`Unlock m` at the end of its compound statement (unless x.unlock() was the last thing done to it),
explicit x.unlock()/x.relock()/lock()/unlock() are mapped, the pipeline run is `Work`, the virtual call
process(lmsg) in Logger::processMessage is `LCall`, anything else that does not touch the protocol is
`Other`.  A statement that mentions a lock, a mutex, process(), postEvent or the pending counter and is
not recognised raises AnchorError: nothing protocol-relevant is ever silently turned into `Other`.
The walker is shared with tools/s2c/async.py (C03)."""
import re
from .common import rd, need, fn_body, strip_comments, AnchorError, HDR

DEFINED = {'QTLOGGER_VERIF'}          # the configuration every /verif build uses (threads on)


def preprocess(body):
    """resolve #if(n)def/#else/#endif on DEFINED, drop other directives"""
    out, stack = [], []       # stack of (active_before, taking)
    for line in body.split('\n'):
        s = line.strip()
        if s.startswith('#'):
            d = re.sub(r'^#\s*', '', s)
            m = re.match(r'(ifndef|ifdef)\s+(\w+)', d)
            m2 = re.match(r'if\s+(!?)\s*defined\s*\(?\s*(\w+)\s*\)?\s*$', d)
            if m:
                t = (m.group(2) in DEFINED) == (m.group(1) == 'ifdef')
                stack.append(t)
            elif m2:
                stack.append((m2.group(2) in DEFINED) != (m2.group(1) == '!'))
            elif re.match(r'else\b', d):
                need(stack, 'preprocessor: #else without #if')
                stack[-1] = not stack[-1]
            elif re.match(r'endif\b', d):
                need(stack, 'preprocessor: #endif without #if')
                stack.pop()
            elif re.match(r'(if|elif)\b', d):
                raise AnchorError('ANCHOR NOT FOUND: unsupported preprocessor condition in a protocol function: ' + s)
            continue
        if all(stack):
            out.append(line)
    return '\n'.join(out)


def _skip_ws(s, i):
    while i < len(s) and s[i].isspace():
        i += 1
    return i


def _skip_string(s, i):
    q = s[i]
    i += 1
    while s[i] != q:
        if s[i] == '\\':
            i += 1
        i += 1
    return i + 1


def _balanced(s, i, op, cl):
    """s[i] == op; index just after the matching cl"""
    depth = 0
    while True:
        c = s[i]
        if c in '"\'':
            i = _skip_string(s, i)
            continue
        if c == op:
            depth += 1
        elif c == cl:
            depth -= 1
            if depth == 0:
                return i + 1
        i += 1


def parse_stmt(s, i):
    i = _skip_ws(s, i)
    if s[i] == '{':
        return parse_block(s, i)
    m = re.match(r'(if|while|for|do|switch|return|else)\b', s[i:])
    kw = m.group(1) if m else None
    if kw in ('if', 'while'):
        j = _skip_ws(s, i + len(kw))
        need(s[j] == '(', kw + ' without a condition')
        k = _balanced(s, j, '(', ')')
        cond = re.sub(r'\s+', ' ', s[j + 1:k - 1]).strip()
        body, k = parse_stmt(s, k)
        if kw == 'while':
            return ('while', cond, body), k
        k2 = _skip_ws(s, k)
        if re.match(r'else\b', s[k2:]):
            els, k = parse_stmt(s, k2 + 4)
            return ('if', cond, body, els), k
        return ('if', cond, body, None), k
    if kw in ('for', 'do', 'switch', 'else'):
        raise AnchorError('ANCHOR NOT FOUND: unsupported control flow `%s` in a protocol function' % kw)
    # simple statement (or return): up to ';' at depth 0
    j, depth = i, 0
    while True:
        c = s[j]
        if c in '"\'':
            j = _skip_string(s, j)
            continue
        if c in '({[':
            depth += 1
        elif c in ')}]':
            depth -= 1
        elif c == ';' and depth == 0:
            break
        j += 1
    text = re.sub(r'\s+', ' ', s[i:j]).strip()
    if kw == 'return':
        return ('return', text), j + 1
    return ('simple', text), j + 1


def parse_block(s, i):
    need(s[i] == '{', 'block')
    i += 1
    stmts = []
    while True:
        i = _skip_ws(s, i)
        if s[i] == '}':
            return ('block', stmts), i + 1
        st, i = parse_stmt(s, i)
        stmts.append(st)


def parse_function(src, qualname):
    body = preprocess(fn_body(src, qualname))
    blk, _ = parse_block('{' + body + '}', 0)
    return blk


def _split_args(a):
    out, depth, cur = [], 0, ''
    i = 0
    while i < len(a):
        c = a[i]
        if c in '"\'':
            j = _skip_string(a, i)
            cur += a[i:j]; i = j
            continue
        if c in '({[<' and not (c == '<' and False):
            depth += c != '<'
        elif c in ')}]':
            depth -= 1
        if c == ',' and depth == 0:
            out.append(cur.strip()); cur = ''
        else:
            cur += c
        i += 1
    if cur.strip():
        out.append(cur.strip())
    return out


MANUAL_LOCKS = []
PROTO = re.compile(r'lock|Lock|mutex|Mutex|process|postEvent|sendEvent|m_pendingCount|m_worker|invokeMethod')


def mutex_of(arg, fn):
    a = arg.replace(' ', '')
    if a in ('mutex()', '&m_mutex') and fn.startswith('Logger::'):
        return 'L'
    if a == '&m_mutex' and fn.startswith('OwnThreadHandler'):
        return 'M'
    raise AnchorError('ANCHOR NOT FOUND: %s: unrecognised mutex expression `%s`' % (fn, arg))


class Walker:
    """turns a parsed function into the nested IR: tuples ('Lock', m) ('Unlock', m) ('Work',) ('Call',)
    ('Other',) ('Inc',) ('Dec',) ('Post',) ('PostPrio',) ('IfWorker', a, b) ('Guard', a)"""

    def __init__(self, fn, view='sync', guards='keep'):
        self.fn = fn
        self.view = view        # which branch of `if (m_worker)` continues after the if: 'sync' = else, 'async' = then
        # a conditional without else whose condition is unrelated to the protocol (e.g. `type == QtFatalMsg`):
        # 'keep' -> ('Guard', body), the body must not change a locker; 'take' -> the body is inlined (the path on which
        # the condition holds); 'skip' -> the path on which it does not hold
        self.guards = guards
        self.lockers = {}       # name -> [mutex, locked]

    def simple(self, t):
        fn = self.fn
        m = re.match(r'^QMutexLocker(?:<[^>]*>)? (\w+)\s*[({]\s*(.*?)\s*[)}]$', t)
        if m:
            mx = mutex_of(m.group(2), fn)
            self.lockers[m.group(1)] = [mx, True]
            self.declared[-1].append(m.group(1))
            return [('Lock', mx)]
        m = re.match(r'^(\w+)\.(unlock|relock)\(\)$', t)
        if m and m.group(1) in self.lockers:
            lk = self.lockers[m.group(1)]
            want = m.group(2) == 'relock'
            lk[1] = want
            return [('Lock' if want else 'Unlock', lk[0])]
        m = re.match(r'^(mutex\(\)->|m_mutex\.|this->)?(lock|unlock)\(\)$', t)
        if m:
            MANUAL_LOCKS.append('%s: %s' % (fn, t))      # not bound to a scope: not released when a handler throws
            mx = mutex_of('mutex()' if fn.startswith('Logger::') else '&m_mutex', fn)
            return [('Lock' if m.group(2) == 'lock' else 'Unlock', mx)]
        if re.match(r'^QTLOGGER_VERIF_POINT\(', t):
            return [('Other',)]
        if re.match(r'^(const )?LogMessage \w+\s*[({]', t):
            return [('Other',)]
        if re.match(r'^(auto|LogEvent ?\*) ?\w+ = dynamic_cast<LogEvent ?\*>\(event\)$', t):
            return [('Other',)]
        if re.match(r'^(m_handler->)?(BaseHandler|SimplePipeline|Pipeline)::process\(\s*[\w>.-]+\s*\)$', t):
            return [('Work',)]
        if re.match(r'^(this->)?process\(\s*\w+\s*\)$', t):
            return [('Call',)]
        if re.match(r'^(m_handler->)?m_pendingCount\.(fetchAndAdd\w*\(\s*1\s*\)|ref\(\))$', t) or \
           re.match(r'^(\+\+(m_handler->)?m_pendingCount|(m_handler->)?m_pendingCount\+\+)$', t):
            return [('Inc',)]
        if re.match(r'^(m_handler->)?m_pendingCount\.(fetchAndSub\w*\(\s*1\s*\)|deref\(\))$', t) or \
           re.match(r'^(--(m_handler->)?m_pendingCount|(m_handler->)?m_pendingCount--)$', t):
            return [('Dec',)]
        m = re.match(r'^QCoreApplication::postEvent\((.*)\)$', t)
        if m:
            args = _split_args(m.group(1))
            if len(args) == 2 and args[0] == 'm_worker' and re.match(r'^new LogEvent\(\s*\w+\s*\)$', args[1]):
                return [('Post',)]
            if len(args) == 3 and args[0] == 'm_worker':
                return [('PostPrio',)]
            raise AnchorError('ANCHOR NOT FOUND: %s: unrecognised postEvent call `%s`' % (fn, t))
        if t in ('flush()', 'this->flush()', 'SimplePipeline::flush()'):
            return [('Flush',)]       # Sink::flush() of every sink (fatal path)
        if PROTO.search(t):
            raise AnchorError('ANCHOR NOT FOUND: %s: unrecognised statement touching the protocol: `%s`' % (fn, t[:120]))
        return [('Other',)]

    def block(self, blk, top=False):
        out = []
        self.declared = getattr(self, 'declared', [])
        self.declared.append([])
        stmts = blk[1] if blk[0] == 'block' else [blk]
        for k, st in enumerate(stmts):
            kind = st[0]
            if kind == 'block':
                out += self.block(st)
            elif kind == 'simple':
                out += self.simple(st[1])
            elif kind == 'return':
                if not (top and k == len(stmts) - 1):
                    raise AnchorError('ANCHOR NOT FOUND: %s: early return (unsupported control flow)' % self.fn)
            elif kind == 'if':
                cond = st[1].replace(' ', '')
                before = {k2: v[1] for k2, v in self.lockers.items()}
                a = self.block(st[2])
                mid = {k2: v[1] for k2, v in self.lockers.items() if k2 in before}
                for k2 in before:
                    self.lockers[k2][1] = before[k2]
                b = self.block(st[3]) if st[3] is not None else []
                after = {k2: v[1] for k2, v in self.lockers.items() if k2 in before}
                is_worker_if = cond in ('m_worker', 'm_worker!=nullptr', 'm_worker!=NULL', 'nullptr!=m_worker',
                                        '!m_worker', 'm_worker==nullptr', 'nullptr==m_worker',
                                        'ownThreadIsRunning()', '!ownThreadIsRunning()')
                take_guard = (not is_worker_if) and st[3] is None and self.guards in ('take', 'skip')
                if take_guard:
                    if self.guards == 'take':
                        for k2 in before:
                            self.lockers[k2][1] = mid[k2]
                        out += a
                    else:
                        out.append(('Other',))
                    continue
                if is_worker_if:
                    # the view decides which branch is the one executed; the locker state follows that branch
                    then_is_worker = not (cond.startswith('!') or '==' in cond)
                    chosen = mid if (self.view == 'async') == then_is_worker else after
                    for k2 in before:
                        self.lockers[k2][1] = chosen[k2]
                elif mid != before or after != before:
                    raise AnchorError('ANCHOR NOT FOUND: %s: a conditional branch changes the state of a QMutexLocker' % self.fn)
                if cond in ('m_worker', 'm_worker!=nullptr', 'm_worker!=NULL', 'nullptr!=m_worker'):
                    out.append(('IfWorker', a, b))
                elif cond in ('!m_worker', 'm_worker==nullptr', 'nullptr==m_worker'):
                    out.append(('IfWorker', b, a))
                elif cond == 'ownThreadIsRunning()':
                    out.append(('IfRunning', a, b))
                elif cond == '!ownThreadIsRunning()':
                    out.append(('IfRunning', b, a))
                elif 'm_worker' in cond or 'm_thread' in cond:
                    raise AnchorError('ANCHOR NOT FOUND: %s: unrecognised condition on the worker: `%s`' % (self.fn, st[1]))
                elif st[3] is None:
                    out.append(('Guard', a))
                else:
                    out.append(('Guard2', a, b))
            else:
                raise AnchorError('ANCHOR NOT FOUND: %s: unsupported statement kind %s' % (self.fn, kind))
        for name in reversed(self.declared.pop()):
            mx, locked = self.lockers.pop(name)
            if locked:
                out.append(('Unlock', mx))
        return out


def walk(src, qualname, fn, view='sync', guards='keep'):
    return Walker(fn, view, guards).block(parse_function(src, qualname), top=True)


def only_other(ir):
    return all(x[0] == 'Other' or (x[0] == 'Guard' and only_other(x[1])) for x in ir)


def flush_when_running(ir):
    """does some path with a RUNNING own thread reach flush()?  (C03: sinks are entered on the logger thread only)"""
    for x in ir:
        if x[0] == 'Flush':
            return True
        if x[0] == 'IfRunning' and flush_when_running(x[1]):
            return True
        if x[0] in ('Guard', 'IfWorker', 'Guard2') and any(flush_when_running(y) for y in x[1:]):
            return True
    return False


def flatten_sync(ir, fn):
    """C02 view: synchronous mode (m_worker == nullptr), guards may only contain `Other`"""
    out = []
    for x in ir:
        if x[0] in ('IfWorker', 'IfRunning'):
            out += flatten_sync(x[2], fn)
        elif x[0] == 'Guard':
            if not only_other(x[1]):
                raise AnchorError('ANCHOR NOT FOUND: %s: lock/pipeline operation under a condition' % fn)
            out.append(('Other',))
        elif x[0] in ('Lock', 'Unlock', 'Work', 'Call', 'Other', 'Flush'):
            out.append(x)
        else:
            raise AnchorError('ANCHOR NOT FOUND: %s: `%s` outside the asynchronous branch' % (fn, x[0]))
    return out


def _flat(stmts):
    for st in stmts:
        if st[0] == 'block':
            for x in _flat(st[1]):
                yield x
        else:
            yield st


def _texts(st):
    """every condition / simple statement text inside a parsed statement"""
    if st is None:
        return
    if st[0] in ('simple', 'return'):
        yield st[1]
    elif st[0] == 'block':
        for x in st[1]:
            for y in _texts(x):
                yield y
    elif st[0] in ('if', 'while'):
        yield st[1]
        for x in st[2:]:
            for y in _texts(x):
                yield y


RESET_PROTO = re.compile(r'lock|Lock|mutex|Mutex|m_worker|m_pendingCount|postEvent|sendEvent|process\s*\(|quit\s*\(|exit\s*\(|invokeMethod')


def reset_program(oh):
    """resetOwnThread(): the ORDER of its three significant actions — RDrain (the loop that releases M while something is
    pending), RQuit (m_thread->quit()), RClear (m_worker = nullptr) — under ONE QMutexLocker taken first and released only
    inside the drain loop / at the end.  Anything else that touches the protocol raises AnchorError."""
    fn = 'OwnThreadHandler::resetOwnThread'
    m = need(re.search(r'\bvoid\s+resetOwnThread\s*\(', oh), fn)
    blk = parse_function(oh[m.start():], 'resetOwnThread')
    stmts = list(_flat(blk[1]))
    need(stmts and stmts[0][0] == 'simple', fn + ': first statement')
    m0 = need(re.match(r'^QMutexLocker(?:<[^>]*>)? (\w+)\s*[({]\s*&m_mutex\s*[)}]$', stmts[0][1]),
              fn + ': takes the handler mutex (QMutexLocker on &m_mutex) first')
    lk = m0.group(1)
    prog = []

    def guard_return(st):      # `if (!m_thread) return;` — leaves with the locker released by its scope
        return st[0] == 'if' and st[3] is None and st[1].replace(' ', '') in ('!m_thread', 'm_thread==nullptr', 'm_thread.isNull()') \
            and st[2][0] in ('return', 'block') and all(x[0] == 'return' for x in _flat([st[2]]))

    for st in stmts[1:]:
        kind = st[0]
        if guard_return(st):
            continue
        if kind == 'while':
            cond = st[1].replace(' ', '')
            need(re.match(r'^m_pendingCount(\.loadAcquire\(\)|\.loadRelaxed\(\)|\.load\(\))?(>0|!=0)$', cond),
                 fn + ': loop other than `while (m_pendingCount > 0)`: `%s`' % st[1])
            seq = []
            for b in _flat([st[2]]):
                if guard_return(b):
                    continue
                need(b[0] == 'simple', fn + ': unsupported statement in the drain loop')
                t = b[1]
                if t == lk + '.unlock()':
                    seq.append('u')
                elif t == lk + '.relock()':
                    seq.append('r')
                elif re.match(r'^QTLOGGER_VERIF_POINT\(', t) or re.match(r'^(QThread::)?(msleep|usleep|sleep|yieldCurrentThread)\(', t):
                    continue
                else:
                    raise AnchorError('ANCHOR NOT FOUND: %s: unrecognised statement in the drain loop: `%s`' % (fn, t[:120]))
            need(seq == ['u', 'r'], fn + ': the drain loop releases and re-takes the mutex exactly once per round')
            prog.append('RDrain')
            continue
        if kind == 'if':
            txt = ' ; '.join(_texts(st))
            # `if (!m_thread->wait(3000)) { terminate(); wait(); }` belongs to the quit step
            if re.search(r'm_thread->wait\(', st[1]) and not RESET_PROTO.search(re.sub(r'm_thread->(wait|terminate)\(', '', txt)):
                continue
            if RESET_PROTO.search(txt):
                raise AnchorError('ANCHOR NOT FOUND: %s: protocol operation under a condition: `%s`' % (fn, st[1][:120]))
            continue
        need(kind == 'simple', fn + ': unsupported statement kind ' + kind)
        t = st[1]
        if re.match(r'^m_thread->(quit|exit)\(\s*\d*\s*\)$', t):
            prog.append('RQuit')
        elif re.match(r'^m_worker\s*=\s*(nullptr|NULL|0)$', t):
            prog.append('RClear')
        elif re.match(r'^QTLOGGER_VERIF_POINT\(', t) or re.match(r'^QObject::disconnect\(m_aboutToQuitConnection\)$', t) \
                or re.match(r'^m_thread(\.clear\(\)|\s*=\s*nullptr)$', t) or re.match(r'^m_thread->(wait|terminate)\(', t):
            continue
        elif t.startswith(lk + '.'):
            raise AnchorError('ANCHOR NOT FOUND: %s: the mutex is released/re-taken outside the drain loop: `%s`' % (fn, t))
        elif RESET_PROTO.search(t):
            raise AnchorError('ANCHOR NOT FOUND: %s: unrecognised statement touching the protocol: `%s`' % (fn, t[:120]))
    return prog


def signal_facts():
    """SignalSink / sendToSignal anchors of the signal model (ConcSigDefs.v):
    emits_in_send:  SignalSink::send() is the emission itself (in the calling thread, hence inside the pipeline's
                    critical section) — nothing deferred, nothing conditional;
    autoconnect:    sendToSignal() connects message(QtLogger::LogMessage) with the string-based default (Auto) connection;
    registered:     the argument type is registered under the name the string-based connection looks up, on a path every
                    pipeline takes before it can emit (the constructor of OwnThreadHandler / SignalSink, or sendToSignal)"""
    ss = strip_comments(rd('sinks/signalsink.cpp'))
    sp = strip_comments(rd('simplepipeline.cpp'))
    oh = strip_comments(rd('ownthreadhandler.h'))
    body = re.sub(r'\s+', ' ', fn_body(ss, 'SignalSink::send')).strip()
    emits = bool(re.match(r'^(Q_EMIT|emit)? ?message\(\s*\w+\s*\);$', body))
    cbody = re.sub(r'\s+', ' ', fn_body(sp, 'SimplePipeline::sendToSignal'))
    auto = bool(re.search(r'QObject::connect\(\s*sink\.data\(\)\s*,\s*SIGNAL\(message\(QtLogger::LogMessage\)\)\s*,\s*receiver\s*,\s*method\s*\)', cbody))
    reg = r'qRegisterMetaType<\s*(QtLogger::)?LogMessage\s*>\(\s*"QtLogger::LogMessage"\s*\)'
    registered = bool(re.search(reg, cbody))
    m = re.search(r'\bOwnThreadHandler\s*\(\s*Args\s*&&', oh)
    if m and re.search(reg, fn_body(oh[m.start():], 'OwnThreadHandler')):
        registered = True
    m = re.search(r'SignalSink::SignalSink\s*\(', ss)
    if m and re.search(reg, fn_body(ss[m.start():], 'SignalSink::SignalSink')):
        registered = True
    return emits, auto, registered


_VAR = re.compile(r'^(?!using\b|typedef\b|return\b|class\b|struct\b|enum\b|namespace\b|template\b|friend\b|extern\b|Q[A-Z_]+\b)'
                  r'((?:static|inline|thread_local|const|constexpr|mutable)\s+)*[\w:<>,\*&\s]+?[\s\*&](\w+)\s*(=[^;]*|\{[^;]*\})?;\s*$')
STATEFUL_FILES = ['formatters/patternformatter.cpp', 'formatters/prettyformatter.cpp', 'attrhandlers/seqnumberattr.cpp',
                  'filters/duplicatefilter.cpp']


def shared_mutable_statics(files=STATEFUL_FILES):
    """file-scope variables of the stateful built-in handlers that are neither const nor thread_local: state shared by ALL
    objects of the class, i.e. by pipelines under DIFFERENT locks — outside what one pipeline's mutual exclusion protects"""
    found = []
    for f in files:
        for ln in strip_comments(rd(f)).split('\n'):
            if not ln or ln[0].isspace() or ln[0] in '#}{/':
                continue
            head = ln.split('=')[0]
            if '(' in head:
                continue
            m = _VAR.match(ln)
            if not m:
                continue
            quals = set(re.findall(r'\b(static|thread_local|const|constexpr)\b', head))
            if not (quals & {'const', 'constexpr', 'thread_local'}):
                found.append('%s: %s' % (f, m.group(2)))
    return found


def coq_instr(x):
    return {'Lock': 'Lock %s', 'Unlock': 'Unlock %s'}[x[0]] % x[1] if x[0] in ('Lock', 'Unlock') else x[0]


def generate():
    del MANUAL_LOCKS[:]
    lg = strip_comments(rd('logger.cpp'))
    oh = strip_comments(rd('ownthreadhandler.h'))
    lh = strip_comments(rd('logger.h'))
    need(re.search(r'class\s+(?:\w+\s+)?Logger\s*:\s*(?:#\s*ifndef\s+QTLOGGER_NO_THREAD\s*)?public\s+OwnThreadHandler\s*<\s*SimplePipeline\s*>', lh),
         'logger.h: Logger derives from OwnThreadHandler<SimplePipeline>')
    need(not re.search(r'\bbool\s+process\s*\(', lh), 'logger.h: Logger does not override process()')
    need(re.search(r'bool\s+process\s*\(\s*LogMessage\s*&\s*\w+\s*\)\s*override', oh), 'ownthreadhandler.h: process(LogMessage&) override')
    need(re.search(r'logger->processMessage\(type, context, message\)', lg), 'logger.cpp: messageHandler forwards to processMessage')
    pm = flatten_sync(walk(lg, 'Logger::processMessage', 'Logger::processMessage', guards='skip'), 'Logger::processMessage')
    pmf = flatten_sync(walk(lg, 'Logger::processMessage', 'Logger::processMessage', guards='take'), 'Logger::processMessage')
    # the member function is defined inside the class template: anchor on its declaration line
    m = need(re.search(r'bool\s+process\s*\(\s*LogMessage\s*&', oh), 'OwnThreadHandler::process')
    hp_ir = Walker('OwnThreadHandler::process').block(parse_function(oh[m.start():], 'process'), top=True)
    hp = flatten_sync(hp_ir, 'OwnThreadHandler::process')
    need(all(x[0] != 'Call' for x in hp), 'OwnThreadHandler::process: no further virtual call')
    need(sum(1 for x in pm if x[0] in ('Call', 'Work')) == 1, 'Logger::processMessage: exactly one pipeline run')
    need(sum(1 for x in pmf if x[0] in ('Call', 'Work')) == 1, 'Logger::processMessage (fatal path): exactly one pipeline run')
    rprog = reset_program(oh)
    emits, auto, registered = signal_facts()
    out = HDR % 'src/qtlogger/logger.cpp, ownthreadhandler.h, sinks/signalsink.cpp, simplepipeline.cpp'
    out += 'Require Import List.\nImport ListNotations.\nRequire Import QtlVerif.ConcDefs QtlVerif.ConcResetDefs.\n'
    out += '(* Logger::processMessage; LCall = the virtual call process(lmsg) *)\n'
    out += 'Definition src_process_message : list linstr :=\n  [%s].\n' % '; '.join(
        'LCall' if x[0] == 'Call' else 'LI (%s)' % coq_instr(x) if x[0] in ('Lock', 'Unlock') else 'LI ' + coq_instr(x) for x in pm)
    out += '(* the same on the path on which every protocol-unrelated condition holds (type == QtFatalMsg: flush()) *)\n'
    out += 'Definition src_process_message_fatal : list linstr :=\n  [%s].\n' % '; '.join(
        'LCall' if x[0] == 'Call' else 'LI (%s)' % coq_instr(x) if x[0] in ('Lock', 'Unlock') else 'LI ' + coq_instr(x) for x in pmf)
    out += '(* OwnThreadHandler<BaseHandler>::process with m_worker == nullptr (synchronous mode) *)\n'
    out += 'Definition src_handler_sync : list instr :=\n  [%s].\n' % '; '.join(coq_instr(x) for x in hp)
    out += '(* a logging call through an installed Logger; a call on a bare OwnThreadHandler<Pipeline> *)\n'
    out += 'Definition src_logger_sk : list instr := inline src_process_message src_handler_sync.\n'
    out += 'Definition src_logger_fatal_sk : list instr := inline src_process_message_fatal src_handler_sync.\n'
    out += 'Definition src_handler_sk : list instr := src_handler_sync.\n'
    out += '(* every lock operation of the two functions is bound to a scope (QMutexLocker: released on EVERY exit path, also when a\n'
    out += '   user handler throws); manual lock()/unlock() calls found: %s *)\n' % (', '.join(sorted(set(MANUAL_LOCKS))) or 'none')
    out += 'Definition src_locks_scope_bound : bool := %s.\n' % ('false' if MANUAL_LOCKS else 'true')
    out += '(* the entry points the threads of one run may use on an installed synchronous Logger: Qt macros, a direct call of\n'
    out += '   the public process(), Qt macros at fatal level *)\n'
    out += 'Definition src_entry_points : list (list instr) := [src_logger_sk; src_handler_sk; src_logger_fatal_sk].\n'
    out += '(* OwnThreadHandler::resetOwnThread(): the order of its significant actions under the handler mutex (RDrain = the loop\n'
    out += '   that releases the mutex while m_pendingCount > 0, RQuit = m_thread->quit(), RClear = m_worker = nullptr) *)\n'
    out += 'Definition src_reset_prog : list rinstr := [%s].\n' % '; '.join(rprog)
    out += '(* SignalSink::send() is the emission itself; sendToSignal() makes the string-based default (Auto) connection; the\n'
    out += '   argument type is registered by name on a path every pipeline takes before it can emit *)\n'
    out += 'Definition src_signal_emits_in_send : bool := %s.\n' % ('true' if emits else 'false')
    out += 'Definition src_signal_autoconnect : bool := %s.\n' % ('true' if auto else 'false')
    out += 'Definition src_signal_type_registered : bool := %s.\n' % ('true' if registered else 'false')
    shared = shared_mutable_statics()
    out += '(* the stateful built-in handlers keep their state per object or per thread: file-scope variables that are neither const\n'
    out += '   nor thread_local (shared by pipelines under different locks) found: %s *)\n' % (', '.join(shared) or 'none')
    out += 'Definition src_handlers_no_shared_mutable_state : bool := %s.\n' % ('false' if shared else 'true')
    return {'SrcConc.v': out}
