"""C12: the source-derived constants and shapes of the pattern formatter
(src/qtlogger/formatters/patternformatter.cpp, logmessage.h) -> SrcPattern.v

What is read (every item aborts with ANCHOR NOT FOUND when its shape is not recognised):
  * how "remove M characters after a missing optional attribute" is carried to the next token:
    out of band (thread_local counter t_pendingRemove saturating at INT_MAX, the F4 repair) or in band (DEL_MARKER code
    point written into the output buffer, the code before the repair); for either form the
    statements that implement it are matched one by one (chop count, mid(), the reset in format()),
  * the placeholder names of the if/else-if chain of parsePattern, in order, with their token class,
    the "if-" prefix, "endif", and the mid(N) offsets of shortfile/time/if-,
  * the two type-name maps of logmessage.h (qtMsgTypeToString, stringToQtMsgType) and the default
    of an unknown if-<name>,
  * the alignment characters of charToAlignment and of the two "<^>" membership tests,
    the '!' suffix, the default fill,
  * the statements of applyPadding that decide which side is kept/padded (left/right/centre split),
  * (round 8) the fluent front ends SimplePipeline::format(const QString &pattern) and formatByQt() of simplepipeline.cpp:
    the chain `if (pattern == "<name>") append(<object>); else ... else append(<object>); return *this;` - which names
    have a meaning of their own, and for every branch which class is created from which argument (the caller's pattern
    handed on unchanged / a constant of messagepatterns.h / nothing); DefaultMessagePattern of messagepatterns.h.
"""
import re
from .common import rd, need, fn_body, strip_comments, AnchorError, HDR

QT = {'QtDebugMsg': 0, 'QtWarningMsg': 1, 'QtCriticalMsg': 2, 'QtFatalMsg': 3, 'QtInfoMsg': 4}


def cl(s):
    return '[' + ';'.join(str(ord(c)) for c in s) + ']'


def class_body(src, name):
    m = need(re.search(r'\bclass %s\b[^;{]*\{' % name, src), 'class ' + name)
    i = m.end() - 1
    depth, k = 0, i
    while True:
        c = src[k]
        if c == '{':
            depth += 1
        elif c == '}':
            depth -= 1
            if depth == 0:
                return src[i + 1:k]
        k += 1


def sq(s):
    return re.sub(r'\s+', ' ', s)


def c_string_constant(hdr, name):
    """text of `constexpr char <name>[] = "..." "...";` (adjacent literals concatenated; escapes are not translated)"""
    m = need(re.search(r'constexpr char %s\[\] = ((?:"[^"\\]*"\s*)+);' % re.escape(name), hdr), 'messagepatterns.h: constexpr char %s[] = "..."' % name)
    return ''.join(re.findall(r'"([^"]*)"', m.group(1)))


def front_target(expr, consts):
    """one `append(<expr>)` of a front-end method -> (class, argument, constant text) as Coq text.
    class: 0 PatternFormatterPtr::create, 1 QtLogMessageFormatter::instance(), 2 PrettyFormatterPtr::create;
    argument: 0 none, 1 the caller's pattern unchanged, 2 a constant text, 3 the caller's pattern .trimmed(),
              4 a function-local static object created from the caller's pattern by the first call"""
    expr = expr.strip()
    if expr == 'PatternFormatterPtr::create(pattern)':
        return '(0, 1, [])'
    if expr == 'PatternFormatterPtr::create(pattern.trimmed())':
        return '(0, 3, [])'
    if expr == 'PatternFormatterPtr::create()':
        return '(0, 0, [])'
    m = re.fullmatch(r'PatternFormatterPtr::create\((\w+)\)', expr)
    if m and m.group(1) in consts:
        return '(0, 2, %s)' % cl(consts[m.group(1)])
    m = re.fullmatch(r'PatternFormatterPtr::create\((?:QStringLiteral|QLatin1String|QString)?\(?"([^"\\]*)"\)?\)', expr)
    if m:
        return '(0, 2, %s)' % cl(m.group(1))
    if expr == 'QtLogMessageFormatter::instance()':
        return '(1, 0, [])'
    if expr == 'PrettyFormatterPtr::create()':
        return '(2, 0, [])'
    raise AnchorError('ANCHOR NOT FOUND: SimplePipeline front end: append(%s) is not a recognised way to obtain the formatter object' % expr[:120])


def front_ends():
    """SimplePipeline::format(const QString &pattern) / formatByQt() -> Coq text (round 8)"""
    hdr = strip_comments(rd('messagepatterns.h'))
    consts = {n: c_string_constant(hdr, n) for n in ('DefaultMessagePattern', 'PrettyMessagePattern')}
    sp = strip_comments(rd('simplepipeline.cpp'))
    m = need(re.search(r'SimplePipeline &SimplePipeline::format\(const QString &pattern\)', sp), 'SimplePipeline::format(const QString &pattern)')
    body = sq(fn_body(sp[m.start():], 'SimplePipeline::format')).strip()
    named, rest = [], body
    while True:
        b = re.match(r'if \(pattern == (?:QStringLiteral\(|QLatin1String\()?"([^"\\]*)"\)?\) (\{ )?append\(([^;]*)\);(?(2) \}) else ', rest)
        if not b:
            break
        named.append((b.group(1), front_target(b.group(3), consts)))
        rest = rest[b.end():]
    e = re.fullmatch(r'(\{ )?append\(([^;]*)\);(?(1) \}) return \*this;', rest)
    if e:
        otherwise = front_target(e.group(2), consts)
    else:
        e = re.fullmatch(r'(\{ )?static (?:const )?(?:auto|PatternFormatterPtr) (\w+) = PatternFormatterPtr::create\(pattern\); append\(\2\);(?(1) \}) return \*this;', rest)
        if not e:
            raise AnchorError('ANCHOR NOT FOUND: SimplePipeline::format(const QString &pattern): [if (pattern == "<name>") append(<object>); else]* '
                              'append(PatternFormatterPtr::create(pattern)); return *this;  (unrecognised from %r)' % rest[:200])
        otherwise = '(0, 4, [])'
    need(re.search(r'SimplePipeline &format\(const QString &pattern\);', sq(strip_comments(rd('simplepipeline.h')))), 'SimplePipeline::format(const QString &pattern) declaration')
    q = sq(fn_body(sp, 'SimplePipeline::formatByQt')).strip()
    e = re.fullmatch(r'append\(([^;]*)\); return \*this;', q)
    if not e:
        raise AnchorError('ANCHOR NOT FOUND: SimplePipeline::formatByQt: append(QtLogMessageFormatter::instance()); return *this;  (got %r)' % q[:200])
    by_qt = front_target(e.group(1), consts)
    # the PatternFormatter constructor hands its argument to the tokeniser unchanged
    pc = sq(strip_comments(rd('formatters/patternformatter.cpp')))
    need(re.search(r'PatternFormatter::PatternFormatter\(const QString &pattern\) : d\(new PatternFormatterPrivate\(pattern\)\) \{ \}', pc) and
         re.search(r'explicit PatternFormatterPrivate\(const QString &pattern\) : m_pattern\(pattern\) \{ parsePattern\(\); \}', pc),
         'PatternFormatter(const QString &pattern) : d(new PatternFormatterPrivate(pattern)); PatternFormatterPrivate(pattern) : m_pattern(pattern) { parsePattern(); }')
    out = '(* front ends of simplepipeline.cpp (round 8).  One entry per way to obtain the formatter object: (class, argument, constant text);\n'
    out += '   class 0 = PatternFormatterPtr::create, 1 = QtLogMessageFormatter::instance(), 2 = PrettyFormatterPtr::create;\n'
    out += '   argument 0 = none, 1 = the caller\'s pattern unchanged, 2 = the constant text, 3 = the caller\'s pattern .trimmed(),\n'
    out += '   4 = ONE function-local static object made from the pattern of the first call *)\n'
    out += 'Definition src_default_message_pattern : list N := %s. (* DefaultMessagePattern = "%s" *)\n' % (cl(consts['DefaultMessagePattern']), consts['DefaultMessagePattern'])
    out += '(* SimplePipeline::format(const QString &pattern): if (pattern == "<name>") append(...) else ... *)\n'
    out += 'Definition src_front_named : list (list N * (N * N * list N)) := [%s].\n' % '; '.join('(%s (* "%s" *), %s)' % (cl(n), n, t) for n, t in named)
    out += 'Definition src_front_otherwise : N * N * list N := %s.\n' % otherwise
    out += '(* SimplePipeline::formatByQt() *)\nDefinition src_front_by_qt : N * N * list N := %s.\n' % by_qt
    return out


def generate():
    raw = rd('formatters/patternformatter.cpp')
    s = strip_comments(raw)
    out = HDR % 'src/qtlogger/formatters/patternformatter.cpp, src/qtlogger/logmessage.h, src/qtlogger/simplepipeline.cpp, src/qtlogger/messagepatterns.h'
    out += 'From Coq Require Import List NArith.\nImport ListNotations.\nLocal Open Scope N_scope.\n'

    # ---- removal marker: in band or out of band
    lit = sq(class_body(s, 'LiteralToken'))
    att = sq(class_body(s, 'AttributeToken'))
    fmt = sq(fn_body(s, 'QString format'))
    has_cnt = re.search(r'static thread_local int t_pendingRemove = 0;', s)
    mk = re.search(r'static const QChar DEL_MARKER = QChar\((0x[0-9A-Fa-f]+|\d+)\);', s)
    if has_cnt and not mk:
        need(re.search(r'const int removeCount = t_pendingRemove; t_pendingRemove = 0; '
                       r'if \(removeCount > 0 && removeCount < m_text\.size\(\)\) \{ dest\.append\(m_text\.mid\(removeCount\)\); \} '
                       r'else if \(removeCount == 0\) \{ dest\.append\(m_text\); \}', lit),
             'LiteralToken::appendToString: out-of-band shape (removeCount = t_pendingRemove; mid(removeCount))')
        need(re.search(r'if \(m_removeBefore > 0 && qint64\(dest\.size\(\)\) \+ t_pendingRemove >= m_removeBefore\) \{ '
                       r'const int fromPending = qMin\(m_removeBefore, t_pendingRemove\); t_pendingRemove -= fromPending; '
                       r'dest\.chop\(m_removeBefore - fromPending\); \} '
                       r'if \(m_removeAfter > 0\) \{ t_pendingRemove = int\(qMin<qint64>\(qint64\(t_pendingRemove\) \+ m_removeAfter, '
                       r'std::numeric_limits<int>::max\(\)\)\); \}', att),
             'AttributeToken::appendToString: out-of-band shape (64-bit comparison, chop(m_removeBefore - fromPending), '
             'pending = min(pending + removeAfter, INT_MAX))')
        need(re.search(r't_pendingRemove = 0; for \(const auto &token : std::as_const\(m_tokens\)\) \{ '
                       r'if \(token->checkCondition\(lmsg\)\) \{ const int sizeBefore = result\.size\(\); '
                       r'token->appendToString\(lmsg, result\); if \(result\.size\(\) > sizeBefore\) \{ t_pendingRemove = 0; \} \} \} '
                       r't_pendingRemove = 0; return result;', fmt),
             'format(): out-of-band shape (pending reset when the output grew)')
        out += '(* remove-after is carried by the thread_local counter t_pendingRemove *)\n'
        out += 'Definition src_inband_marker : option N := None.\n'
        out += '(* the pending count saturates at std::numeric_limits<int>::max() *)\nDefinition src_pending_max : N := 2147483647.\n'
    elif mk and not has_cnt:
        need(re.search(r'int removeCount = 0; while \(!dest\.isEmpty\(\) && dest\.at\(dest\.size\(\) - 1\) == DEL_MARKER\) \{ '
                       r'dest\.chop\(1\); removeCount\+\+; \} '
                       r'if \(removeCount > 0 && removeCount < m_text\.size\(\)\) \{ dest\.append\(m_text\.mid\(removeCount\)\); \} '
                       r'else if \(removeCount == 0\) \{ dest\.append\(m_text\); \}', lit),
             'LiteralToken::appendToString: in-band shape')
        need(re.search(r'if \(m_removeBefore > 0 && dest\.size\(\) >= m_removeBefore\) \{ dest\.chop\(m_removeBefore\); \} '
                       r'for \(int i = 0; i < m_removeAfter; \+\+i\) \{ dest\.append\(DEL_MARKER\); \}', att),
             'AttributeToken::appendToString: in-band shape')
        need(re.search(r'for \(const auto &token : std::as_const\(m_tokens\)\) \{ if \(token->checkCondition\(lmsg\)\) \{ '
                       r'token->appendToString\(lmsg, result\); \} \} result\.remove\(DEL_MARKER\); return result;', fmt),
             'format(): in-band shape')
        out += '(* remove-after is carried IN BAND by DEL_MARKER code points inside the output buffer *)\n'
        out += 'Definition src_inband_marker : option N := Some %d.\n' % int(mk.group(1), 0)
        out += 'Definition src_pending_max : N := 2147483647. (* unused by the in-band evaluator *)\n'
    else:
        raise AnchorError('ANCHOR NOT FOUND: neither (only) t_pendingRemove nor (only) DEL_MARKER is declared')
    need(re.search(r'if \(m_tokens\.isEmpty\(\)\) \{ return lmsg\.message\(\); \}', fmt), 'format(): empty token list -> raw message')
    need(re.search(r'if \(lmsg\.hasAttribute\(m_attributeName\)\) \{ dest\.append\(applyPadding\(lmsg\.attribute\(m_attributeName\)\.toString\(\)\)\); return; \} '
                   r'if \(!m_optional\) \{ QString value = QStringLiteral\("%\{"\) \+ m_attributeName \+ QStringLiteral\("\}"\); '
                   r'dest\.append\(applyPadding\(value\)\); return; \}', att), 'AttributeToken: present / required-missing branches')

    # ---- placeholder chain of parsePattern
    pp = sq(fn_body(s, 'void parsePattern'))
    chain = re.findall(r'(?:if|else if) \(placeholder == QLatin1String\("([^"]*)"\)(?: \|\| placeholder\.startsWith\(QLatin1String\("([^"]*)"\)\))?\) '
                       r'\{ (?:QString \w+; if \(placeholder\.startsWith\(QLatin1String\("([^"]*)"\)\)\) \{ \w+ = placeholder\.mid\((\d+)\)\.trimmed\(\); \} )?'
                       r'token = new (\w+)\(([^)]*)\);', pp)
    want = [('TypeToken', ''), ('LineToken', ''), ('FileToken', ''), ('ShortFileToken', 'baseDir'), ('FunctionToken', 'false'),
            ('FunctionToken', 'true'), ('CategoryToken', ''), ('TimeToken', 'timeFormat'), ('ThreadIdToken', ''),
            ('QThreadPtrToken', ''), ('MessageToken', '')]
    got = [(c[4], c[5].strip()) for c in chain]
    if got != want:
        raise AnchorError('ANCHOR NOT FOUND: parsePattern placeholder chain is %r, expected %r' % (got, want))
    names = ['type', 'line', 'file', 'shortfile', 'function', 'func', 'category', 'time', 'threadid', 'qthreadptr', 'message']
    for nm, c in zip(names, chain):
        out += 'Definition src_ph_%s : list N := %s. (* "%s" *)\n' % (nm, cl(c[0]), c[0])
        if nm in ('shortfile', 'time'):
            if not (c[1] and c[1] == c[2] and int(c[3]) == len(c[1])):
                raise AnchorError('ANCHOR NOT FOUND: %s: prefix form / mid offset not recognised (%r)' % (nm, c))
            out += 'Definition src_ph_%s_sp : list N := %s. (* "%s" *)\n' % (nm, cl(c[1]), c[1])
            out += 'Definition src_off_%s : nat := %d.\n' % (nm, int(c[3]))
    m = need(re.search(r'else if \(placeholder\.startsWith\(QLatin1String\("([^"]*)"\)\)\) \{ QString conditionType = placeholder\.mid\((\d+)\); '
                       r'currentCondition = stringToQtMsgType\(conditionType, (Qt\w+Msg)\); hasCondition = true; pos = closingPos \+ 1; continue; \} '
                       r'else if \(placeholder == QLatin1String\("([^"]*)"\)\) \{ hasCondition = false; pos = closingPos \+ 1; continue; \}', pp),
             'parsePattern: if-/endif branches')
    if int(m.group(2)) != len(m.group(1)):
        raise AnchorError('ANCHOR NOT FOUND: if- prefix length and mid() offset differ')
    out += 'Definition src_ph_if : list N := %s. (* "%s" *)\nDefinition src_off_if : nat := %d.\n' % (cl(m.group(1)), m.group(1), int(m.group(2)))
    out += 'Definition src_if_default : N := %d. (* %s *)\n' % (QT[m.group(3)], m.group(3))
    out += 'Definition src_ph_endif : list N := %s. (* "%s" *)\n' % (cl(m.group(4)), m.group(4))
    # order of the chain: message is tested before if-, if- before endif, all before the attribute fall-back
    need(pp.index('new MessageToken') < pp.index('QString conditionType') < pp.index('{ hasCondition = false; pos') < pp.index('new AttributeToken'),
         'parsePattern: order of the message / if- / endif / attribute branches')
    need(re.search(r'int questionPos = placeholder\.indexOf\(QLatin1Char\(\'\?\'\)\); if \(questionPos != -1\) \{ '
                   r'QString attrName = placeholder\.left\(questionPos\); QString suffix = placeholder\.mid\(questionPos \+ 1\); '
                   r'int removeBefore = 0; int removeAfter = 0; int commaPos = suffix\.indexOf\(QLatin1Char\(\',\'\)\); '
                   r'if \(commaPos == -1\) \{ removeBefore = suffix\.toInt\(\); \} else \{ if \(commaPos > 0\) \{ '
                   r'removeBefore = suffix\.left\(commaPos\)\.toInt\(\); \} removeAfter = suffix\.mid\(commaPos \+ 1\)\.toInt\(\); \} '
                   r'token = new AttributeToken\(attrName, true, removeBefore, removeAfter\); \} else \{ token = new AttributeToken\(placeholder\); \}', pp),
         'parsePattern: attribute / optional attribute branch')
    need(re.search(r'int lastColon = placeholder\.lastIndexOf\(QLatin1Char\(\':\'\)\); if \(lastColon != -1 && lastColon < placeholder\.length\(\) - 1\) \{ '
                   r'QString possibleSpec = placeholder\.mid\(lastColon \+ 1\); formatSpec = FormattedToken::parseFormatSpec\(possibleSpec\); '
                   r'if \(formatSpec\) \{ placeholder = placeholder\.left\(lastColon\); \} \}', pp), 'parsePattern: trailing :spec')
    need(re.search(r"\} else if \(m_pattern\[pos \+ 1\] == '%'\) \{ literalText\.append\('%'\); pos \+= 2; \} "
                   r"else \{ literalText\.append\('%'\); pos\+\+; \} \} else \{ literalText\.append\(m_pattern\[pos\]\); pos\+\+; \}", pp),
         "parsePattern: '%%' / lone '%' / ordinary character branches")
    need(re.search(r"int closingPos = m_pattern\.indexOf\('\}', pos \+ 2\); if \(closingPos == -1\) \{ literalText\.append\('%'\); pos\+\+; continue; \}", pp),
         'parsePattern: unterminated placeholder branch')

    # ---- type names
    lm = strip_comments(rd('logmessage.h'))
    b1 = sq(fn_body(lm, 'qtMsgTypeToString'))
    tn = re.findall(r'\{ (Qt\w+Msg), QStringLiteral\("([^"]*)"\) \}', b1)
    if sorted(t for t, _ in tn) != sorted(QT):
        raise AnchorError('ANCHOR NOT FOUND: qtMsgTypeToString map does not list the five message types once each')
    out += 'Definition src_type_names : list (N * list N) := [%s].\n' % '; '.join('(%d, %s)' % (QT[t], cl(n)) for t, n in tn)
    b2 = sq(fn_body(lm, 'stringToQtMsgType'))
    inn = re.findall(r'\{ QStringLiteral\("([^"]*)"\), (Qt\w+Msg) \}', b2)
    need(len(inn) >= 1 and all(t in QT for _, t in inn), 'stringToQtMsgType map')
    need(re.search(r'return map\.value\(str, a_default\);', b2), 'stringToQtMsgType: default for unknown names')
    out += 'Definition src_if_names : list (list N * N) := [%s].\n' % '; '.join('(%s, %d)' % (cl(n), QT[t]) for n, t in inn)

    # ---- format specification
    ca = sq(fn_body(s, 'static Alignment charToAlignment'))
    al = re.findall(r"case '(.)': return Alignment::(Left|Right|Center);", ca)
    if sorted(a for _, a in al) != ['Center', 'Left', 'Right']:
        raise AnchorError('ANCHOR NOT FOUND: charToAlignment does not map exactly one character to each of Left/Right/Center')
    pf = sq(fn_body(s, 'parseFormatSpec'))
    sets = re.findall(r'QStringLiteral\("([^"]*)"\)\.contains\(possibleAlign\)', pf)
    if len(sets) != 2 or any(sorted(x) != sorted(c for c, _ in al) for x in sets):
        raise AnchorError('ANCHOR NOT FOUND: parseFormatSpec alignment membership tests differ from charToAlignment')
    code = {'Left': 0, 'Right': 1, 'Center': 2}
    out += 'Definition src_align_chars : list (N * N) := [%s]. (* 0 left, 1 right, 2 centre *)\n' % '; '.join(
        '(%d, %d)' % (ord(c), code[a]) for c, a in al)
    m = need(re.search(r"if \(s\.endsWith\(QLatin1Char\('(.)'\)\)\) \{ hasTruncateSuffix = true; s\.chop\(1\); if \(s\.isEmpty\(\)\) return std::nullopt; \}", pf),
             "parseFormatSpec: truncation suffix")
    out += 'Definition src_bang : N := %d.\n' % ord(m.group(1))
    m = need(re.search(r"QChar fill = QLatin1Char\('(.)'\);", s), 'FormatSpec default fill')
    out += 'Definition src_default_fill : N := %d.\n' % ord(m.group(1))
    need(re.search(r'if \(s\.length\(\) >= 2\) \{ QChar possibleAlign = s\.at\(1\);', pf) and
         re.search(r'if \(spec\.align == Alignment::None && !s\.isEmpty\(\)\) \{ QChar possibleAlign = s\.at\(0\);', pf) and
         re.search(r'if \(spec\.align == Alignment::None && hasTruncateSuffix\) \{ bool ok; spec\.width = s\.toInt\(&ok\); '
                   r'if \(ok && spec\.width > 0\) \{ spec\.truncateMode = TruncateMode::TruncateOnly; return spec; \} return std::nullopt; \}', pf) and
         re.search(r'if \(pos >= s\.length\(\)\) return std::nullopt; QString widthStr = s\.mid\(pos\); bool ok; spec\.width = widthStr\.toInt\(&ok\); '
                   r'if \(!ok \|\| spec\.width <= 0\) return std::nullopt; if \(hasTruncateSuffix\) \{ '
                   r'spec\.truncateMode = hasExplicitFill \? TruncateMode::Truncate : TruncateMode::TruncateOnly; \}', pf),
         'parseFormatSpec: fill/align/width/mode shape')
    ap = sq(fn_body(s, 'QString applyPadding'))
    need(re.search(r'if \(m_spec\.truncateMode == TruncateMode::TruncateOnly\) \{ if \(value\.length\(\) <= m_spec\.width\) \{ return value; \} '
                   r'if \(m_spec\.align == Alignment::Right\) \{ return value\.right\(m_spec\.width\); \} else \{ return value\.left\(m_spec\.width\); \} \}', ap),
         'applyPadding: truncate-only branch')
    need(re.search(r'if \(m_spec\.truncateMode == TruncateMode::Truncate && val\.length\(\) > m_spec\.width\) \{ '
                   r'if \(m_spec\.align == Alignment::Right\) \{ val = val\.right\(m_spec\.width\); \} else \{ val = val\.left\(m_spec\.width\); \} \} '
                   r'if \(val\.length\(\) >= m_spec\.width\) \{ return val; \} int padding = m_spec\.width - val\.length\(\);', ap),
         'applyPadding: truncate-and-pad branch')
    need(re.search(r'case Alignment::Left: result\.append\(val\); result\.append\(QString\(padding, m_spec\.fill\)\); break; '
                   r'case Alignment::Right: result\.append\(QString\(padding, m_spec\.fill\)\); result\.append\(val\); break; '
                   r'case Alignment::Center: \{ int leftPad = padding / 2; int rightPad = padding - leftPad; '
                   r'result\.append\(QString\(leftPad, m_spec\.fill\)\); result\.append\(val\); result\.append\(QString\(rightPad, m_spec\.fill\)\); break; \}', ap),
         'applyPadding: left / right / centre padding')
    out += front_ends()
    return {'SrcPattern.v': out}
