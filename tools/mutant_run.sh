#!/bin/bash
# usage: tools/mutant_run.sh <patch.diff> <Cxx> [quick|thorough] [extra env assignments...]
# Runs a check against a scratch worktree of /repo with the patch applied, from a scratch copy of
# /verif, so that neither /repo nor /verif (sources, Src*.v, build/) is disturbed.  Cleans up.
set -u
patch=$(realpath "$1"); pid=$2; tier=${3:-quick}
top=$(mktemp -d /tmp/mr_XXXXXX)
trap 'cd /; git -C /repo worktree remove --force "$top/repo" >/dev/null 2>&1; rm -rf "$top"' EXIT
git -C /repo worktree add -q --detach "$top/repo" HEAD || exit 9
# By default the amalgamated qtlogger.h is not taken from the patch but regenerated from the patched
# sources (so patches written against an older HEAD keep applying); RAW=1 applies the patch verbatim
# (needed for changes that deliberately leave the header stale).
if [ "${RAW:-0}" = 1 ]; then
  git -C "$top/repo" apply "$patch" || { echo "PATCH DOES NOT APPLY"; exit 9; }
else
  git -C "$top/repo" apply --exclude=qtlogger.h "$patch" || git -C "$top/repo" apply -3 --exclude=qtlogger.h "$patch" || { echo "PATCH DOES NOT APPLY"; exit 9; }
  if grep -q '^+++ b/qtlogger.h' "$patch"; then (cd "$top/repo" && python3 tools/gen_qtlogger.h.py >/dev/null 2>&1); fi
fi
rsync -a --exclude .git --exclude 'build/lib' --exclude 'build/libsan' --exclude 'build/h_*' --exclude 'build/*.a' \
      --exclude 'build/.lock*' --exclude 'evidence/replays' /verif/ "$top/verif/"
cd "$top/verif" && VERIF_REPO="$top/repo" VERIF_TIER=$tier python3 check.py "$pid" --tier "$tier"
rc=$?
echo "mutant_run: rc=$rc"
for f in "$top"/verif/evidence/replays/"$pid"-*.json; do [ -f "$f" ] && { echo "--- replay $f"; head -c 1500 "$f"; echo; }; done
exit $rc
