#!/usr/bin/env python3
"""prints the prompt for an independent mutant-writing sub-agent: property text only + its own worktree"""
import json, sys, subprocess, os
pid = sys.argv[1]; tag = sys.argv[2] if len(sys.argv) > 2 else pid
round2 = len(sys.argv) > 3 and sys.argv[3] in ("round2", "round3", "round4", "round5", "round6", "round7")
round4 = len(sys.argv) > 3 and sys.argv[3] == "round4"
p = [json.loads(l) for l in open('/verif/properties.jsonl') if json.loads(l)['id'] == pid][0]
wt = '/tmp/mut_%s' % tag
if not os.path.exists(wt):
    subprocess.check_call(['git', '-C', '/repo', 'worktree', 'add', '-q', '--detach', wt, 'HEAD'])
print(f"""You are testing how well a semantic property of a C++/Qt5 logging library (yamixst/qtlogger) is guarded. Work ONLY inside your own scratch git worktree of the library at {wt} (already created for you; Qt 5.15, C++17, cmake+ninja, offline sandbox). Do not read or write anything under /verif or /repo, and do not look at other /tmp/mut_* directories.

The property (this is all you are given):
  Title: {p['title']}
  Statement: {p['statement']}
  Quantified over: {p['quantifier']['text']}

Your task: produce THREE different, realistic source changes to the library (each a separate patch against the clean worktree, touching files under src/qtlogger only, plus the regenerated top-level qtlogger.h if you like — `python3 tools/gen_qtlogger.h.py` run from the worktree root regenerates it in place; regenerating is optional) such that each change
  (1) still compiles,
  (2) still passes the library's existing test suite unchanged (build: `cmake -G Ninja -S . -B _build -DQTLOGGER_NO_EXAMPLES=ON && cmake --build _build` ; run: `ctest --test-dir _build -j8 --timeout 900`; all 18 test executables must pass),
  (3) BREAKS the property above, and
  (4) needs something specific to manifest — a particular interleaving, a crash or fault at a particular point, a multi-step sequence of operations, an unusual input, a boundary value, or two cooperating code sites that each look fine alone — NOT something ordinary use would expose at once. Think of plausible maintenance mistakes (an "optimisation", a refactoring, an off-by-one at a boundary, a reordered step, a forgotten case), not sabotage; keep each change small (a few lines). The three changes should break the property in DIFFERENT ways / different clauses of it.
For each change also write a demonstration: a small standalone C++ program (or QtTest/shell/python script) that exits 0 on the clean worktree and non-zero (or prints FAIL) with the change applied, and say exactly how to build and run it (e.g. `g++ -std=c++17 -fPIC -I<worktree> $(pkg-config --cflags Qt5Core) demo.cpp -o demo $(pkg-config --libs Qt5Core)` using the header-only <worktree>/qtlogger.h — then you MUST regenerate qtlogger.h in the patch — or link against the static library built in _build/src/qtlogger/libqtlogger.a with -I<worktree>/src -DQTLOGGER_STATIC).

Deliverables, all under {wt}/out/ (create it; it is ignored by git status if you do not add it):
  out/<n>/patch.diff   (`git diff` of the change against the clean worktree, src/ and optionally qtlogger.h only; n = 1,2,3)
  out/<n>/demo.* and out/<n>/README.md (what the change is, which clause it breaks, what it needs to manifest, the exact commands you ran and their results: tests pass with the change, demo passes without and fails with)
Verify everything yourself: for each n start from a clean tree (`git checkout -- . && git status`), apply the patch, rebuild, run ctest (must be 100% pass), build and run the demo (must fail), then revert and confirm the demo passes. Leave the worktree CLEAN (all changes reverted, `git status` shows only out/ and _build/) when you finish. Do not commit anything. Keep total CPU use reasonable (ninja -j8).
Final message: for each n one paragraph (change, clause broken, trigger, demo result, ctest result).""")
if round2:
    import glob
    ideas = []
    for d in sorted(glob.glob('/verif/seeded/%s-*' % pid)):
        name = os.path.basename(d)[4:]
        if 'harmless' in name: continue
        try: m = json.load(open(os.path.join(d, 'meta.json')))
        except Exception: m = {}
        br = (m.get('breaks') or '').strip().lstrip('#* ').strip()[:200]
        nd = m.get('needs') or ''
        if nd.startswith(('see README', 'nothing beyond')): nd = ''
        ideas.append('  - %s%s%s' % (name.replace('ind-', ''), (': ' + br) if br else '', (' — needs ' + nd) if nd else ''))
    print("\nThis is a LATER round (several rounds were done already). The following ideas were already used by others for this property - your three changes must be genuinely different from all of them (different mechanism, different trigger, if possible a different clause of the property or a different code site):\n" + "\n".join(ideas))
    print("\nPrefer changes of these kinds, which are under-represented so far: two cooperating code sites that each look fine alone; state that leaks between calls, objects, threads or process runs; behaviour that only differs for a boundary value of a configuration parameter (0, 1, negative, INT_MAX) or an unusual-but-legal API usage (same object used twice, call order reversed, empty/NULL argument); a platform/library assumption (locale, time zone, file system timestamp granularity, QString null vs empty).")

if round4:
    print("""
ADDITIONALLY (fourth deliverable, out/4/): a BEHAVIOUR-PRESERVING refactoring of the same code region one of your breaking changes touches - the kind of clean-up a maintainer would do (rename locals/members, restructure a loop or condition into an equivalent form, extract a helper function, replace a container or an index loop by iterators, reorder independent statements, change comments/whitespace) - that keeps the property TRUE for every input. It must be non-trivial (at least ~10 changed lines), compile, and pass the test suite. Deliver out/4/patch.diff and out/4/README.md (what was refactored and why behaviour is unchanged); no demo needed. Do not mix it with the breaking changes.
For the three breaking changes in this round, stay REALISTIC rather than exotic: plausible maintenance mistakes in the code that implements the property (an optimisation with a wrong fast path, a cache, a boundary off-by-one, a reordered pair of steps, a forgotten case in a switch, a condition inverted only for one configuration, a changed default, a wrong type width, a lock scope moved), each needing a specific but perfectly legal trigger.""")

if len(sys.argv) > 3 and sys.argv[3] in ("round5", "round6", "round7", "round8"):
    print("""
For the three breaking changes in this round, stay REALISTIC rather than exotic: plausible maintenance mistakes in the code that implements the property (an optimisation with a wrong fast path, a cache, a boundary off-by-one, a reordered pair of steps, a forgotten case in a switch, a condition inverted only for one configuration, a changed default, a wrong type width, a lock scope moved, an early return that skips bookkeeping, error handling that swallows or mis-orders a step), each needing a specific but perfectly legal trigger. At least one of the three should touch a DIFFERENT source file or function than the ideas listed above mostly touch (a helper, a base class, a shared utility, a header the main code relies on).""")

if len(sys.argv) > 3 and sys.argv[3] == "round8":
    # round 8: nothing derived from /verif/seeded goes into the prompt (property text + worktree only)
    print("\nPrefer changes of these kinds: two cooperating code sites that each look fine alone; state that leaks between calls, objects, threads or process runs; behaviour that only differs for a boundary value of a configuration parameter (0, 1, negative, INT_MAX) or an unusual-but-legal API usage (same object used twice, call order reversed, empty/NULL argument); a platform/library assumption (locale, time zone, file system timestamp granularity, QString null vs empty). Avoid the first idea that comes to mind - pick the second or third.")
if len(sys.argv) > 3 and sys.argv[3] in ("round7", "round8"):
    print("""
OVERRIDE for this round: deliver TWO changes only (out/1 and out/2), not three, and stop after about 25 minutes of work - a verified pair is worth more than three unverified ones. Build with `cmake --build _build -j6` / `ctest -j6` (other jobs share this machine; a ctest failure of OwnThreadHandlerTest alone under load may be retried once with --rerun-failed).""")
