#!/usr/bin/env python3
"""usage: tools/keep_mutant.py <worktree> <n> <Cxx> <slug> <verify-log> "<needs>"
copies an independently written, re-verified breaking change into /verif/seeded/<Cxx>-ind-<slug>/"""
import json, os, shutil, sys, glob
wt, n, pid, slug, vlog, needs = sys.argv[1:7]
src = os.path.join(wt, 'out', n)
dst = os.path.join('/verif/seeded', '%s-ind-%s' % (pid, slug))
os.makedirs(dst, exist_ok=True)
for f in os.listdir(src):
    p = os.path.join(src, f)
    if os.path.isfile(p) and os.path.getsize(p) < 200000 and not os.access(p, os.X_OK) or f.endswith(('.sh', '.py')):
        shutil.copy(p, dst)
for extra in ('demo_common.h', 'common.h', 'build_demo.sh', 'verify.sh'):
    for cand in (os.path.join(wt, 'out', extra), os.path.join(wt, 'out', 'common', extra)):
        if os.path.isfile(cand):
            shutil.copy(cand, dst)
ver = None
for line in open(vlog):
    try:
        j = json.loads(line)
    except Exception:
        continue
    if j.get('wt') == wt and str(j.get('n')) == n:
        ver = j
readme = open(os.path.join(src, 'README.md')).read() if os.path.exists(os.path.join(src, 'README.md')) else ''
meta = {'property': pid, 'origin': 'independent sub-agent given only the property text and a scratch worktree',
        'breaks': readme.strip().splitlines()[0][:300] if readme else '', 'needs': needs,
        'ran': 'tools/verify_mutant.sh %s %s  (apply, rebuild, ctest 18/18, demo fails; revert, rebuild, demo passes)' % (wt, n),
        'verification': ver, 'demo_build': 'g++ -std=c++17 -fPIC -DQTLOGGER_STATIC -I<worktree>/src $(pkg-config --cflags Qt5Core) demo.cpp -o demo <worktree>/_build/src/qtlogger/libqtlogger.a $(pkg-config --libs Qt5Core)',
        'detected_by': None}
json.dump(meta, open(os.path.join(dst, 'meta.json'), 'w'), indent=1)
print(dst, 'verified' if ver and ver.get('ok') else 'NOT VERIFIED')
