#!/usr/bin/env python3
"""MANIFEST.setup_cmd: build the framework from files on disk only (offline).
Regenerates the source-derived Coq files from /repo, builds the whole Coq development (full .vo),
extracts and links every model driver, builds the library from /repo's sources and every harness."""
import glob, os, sys, time
ROOT = os.path.join(os.path.dirname(os.path.abspath(__file__)), '..')
sys.path.insert(0, ROOT)
import vlib
t0 = time.time()
import importlib
s2c = importlib.import_module('tools.src2coq') if False else None
rc, out, err = vlib.sh([sys.executable, os.path.join(ROOT, 'tools', 'src2coq.py'), '--repo', vlib.REPO])
print('src2coq:', out.strip() or err.strip())
st = vlib.gen_src([])  # no-op; keeps defaults in place for failed areas below
import json
try:
    status = json.loads(out.strip().splitlines()[-1])
    bad = [a for a, s in status.items() if not s.get('ok')]
    if bad:
        vlib.gen_src(bad)
except Exception:
    pass
rc, out, err = vlib.coq_make([], keep_going=True, timeout=3000)
print('coq make rc=%d (%.0fs)' % (rc, time.time() - t0))
if rc != 0:
    print((out + err)[-3000:])
for ex in sorted(glob.glob(os.path.join(vlib.COQ, 'extract', 'Ex_*.v'))):
    name = os.path.basename(ex)[3:-2]
    try:
        vlib.build_model(name); print('model', name, 'ok')
    except Exception as e:
        print('model', name, 'FAILED', str(e)[-800:]); rc = rc or 1
rc2, out, err = vlib.sh(['make', '-j%d' % vlib.NCPU, '-f', os.path.join(ROOT, 'harness', 'Makefile'), 'REPO=' + vlib.REPO, 'BUILD=' + vlib.BUILD, 'lib'], timeout=1800)
print('library build rc=%d' % rc2)
if rc2:
    print((out + err)[-2000:])
for h in sorted(glob.glob(os.path.join(ROOT, 'harness', 'h_*.cpp'))):
    name = os.path.basename(h)[2:-4]
    try:
        vlib.build_harness(name); print('harness', name, 'ok')
    except Exception as e:
        print('harness', name, 'FAILED', str(e)[-800:])
print('setup done in %.0fs' % (time.time() - t0))
# setup never fails the run by itself: every check rebuilds what it needs and reports on its own
sys.exit(0)
