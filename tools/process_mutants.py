#!/usr/bin/env python3
"""usage: tools/process_mutants.py <Cxx> <worktree> <slug-prefix>
Re-verifies the three changes an independent sub-agent left in <worktree>/out/{1,2,3} (tries the
demo build modes static, header, script in turn), keeps the verified ones under
seeded/<Cxx>-ind-<slug-prefix><n>/ and removes the worktree."""
import json, os, re, subprocess, sys
pid, wt, prefix = sys.argv[1:4]
ROOT = os.path.join(os.path.dirname(os.path.abspath(__file__)), '..')
log = '/tmp/verify_%s.log' % os.path.basename(wt)
open(log, 'w').close()
kept = []
for n in ('1', '2', '3'):
    d = os.path.join(wt, 'out', n)
    if not os.path.exists(os.path.join(d, 'patch.diff')):
        print(pid, n, 'no patch'); continue
    ok = None
    modes = ['static', 'header'] + (['script'] if os.path.exists(os.path.join(wt, 'out', 'build_demo.sh')) else [])
    for mode in modes:
        env = dict(os.environ, MODE=mode, J='6')
        p = subprocess.run([os.path.join(ROOT, 'tools', 'verify_mutant.sh'), wt, n], stdout=subprocess.PIPE, stderr=subprocess.STDOUT, text=True, env=env)
        line = [l for l in p.stdout.splitlines() if l.startswith('{')]
        if not line: continue
        try: j = json.loads(line[-1])
        except Exception: continue
        j['mode'] = mode
        if j.get('ok'):
            ok = j; break
        last = j
    if not ok:
        print(pid, n, 'NOT VERIFIED', json.dumps(last)[:400] if 'last' in dir() else ''); continue
    open(log, 'a').write(json.dumps(ok) + '\n')
    readme = open(os.path.join(d, 'README.md')).read() if os.path.exists(os.path.join(d, 'README.md')) else ''
    m = re.search(r'(?im)^[#*\- ]*\**(?:trigger|needs|what it needs)[^:\n]*:\**\s*(.+)$', readme)
    needs = (m.group(1).strip() if m else '')[:300]
    slug = '%s%s' % (prefix, n)
    subprocess.run([sys.executable, os.path.join(ROOT, 'tools', 'keep_mutant.py'), wt, n, pid, slug, log, needs or 'see README.md'], check=False)
    kept.append('%s-ind-%s' % (pid, slug))
# out/4 (round 4 onwards): a behaviour-preserving refactoring; kept when it applies, builds and passes the suite
d4 = os.path.join(wt, 'out', '4')
if os.path.exists(os.path.join(d4, 'patch.diff')):
    import shutil
    sh = lambda c: subprocess.run(c, shell=True, cwd=wt, stdout=subprocess.PIPE, stderr=subprocess.STDOUT, text=True)
    sh('git checkout -q -- . ; git clean -fdq src tools')
    a = sh('git apply out/4/patch.diff')
    b = sh('cmake --build _build -j6')
    c = sh('ctest --test-dir _build -j6 --timeout 900')
    okc = '100% tests passed' in c.stdout
    if not okc:
        c = sh('ctest --test-dir _build --rerun-failed --timeout 900'); okc = '100% tests passed' in c.stdout
    sh('git checkout -q -- . ; git clean -fdq src tools')
    if a.returncode == 0 and b.returncode == 0 and okc:
        dst = os.path.join(ROOT, 'seeded', '%s-harmless-%s4' % (pid, prefix))
        os.makedirs(dst, exist_ok=True)
        shutil.copy(os.path.join(d4, 'patch.diff'), dst)
        rd = os.path.join(d4, 'README.md')
        if os.path.exists(rd): shutil.copy(rd, dst)
        json.dump({'property': pid, 'harmless': True, 'origin': 'independent sub-agent: behaviour-preserving refactoring',
                   'breaks': 'nothing (behaviour-preserving refactoring)', 'ran': 'apply, rebuild, ctest 18/18',
                   'detected_by': None}, open(os.path.join(dst, 'meta.json'), 'w'), indent=1)
        kept.append(os.path.basename(dst))
    else:
        print(pid, 4, 'harmless refactoring NOT VERIFIED apply=%d build=%d ctest=%s' % (a.returncode, b.returncode, okc))
subprocess.run('rm -rf /tmp/mutout_%s; cp -r %s/out /tmp/mutout_%s' % (os.path.basename(wt), wt, os.path.basename(wt)), shell=True)   # kept until the coordinator has looked at the unverified ones
subprocess.run(['git', '-C', '/repo', 'worktree', 'remove', '--force', wt])
subprocess.run(['git', '-C', '/repo', 'worktree', 'prune'])
print('kept:', ' '.join(kept))
