#!/usr/bin/env python3
"""Run the seeded breaking changes against the checks and record which check catches which change.
usage: tools/seeded_matrix.py [-j N] [--tier quick] [Cxx ...]    (no id = all seeded dirs)
For each seeded/<name>/patch.diff the property's check is run through tools/mutant_run.sh (scratch
worktree of /repo + scratch copy of /verif).  Result is stored in seeded/<name>/meta.json
('detected_by') and summarised in seeded/RESULTS.md."""
import json, os, re, subprocess, sys, time
from concurrent.futures import ThreadPoolExecutor
ROOT = os.path.join(os.path.dirname(os.path.abspath(__file__)), '..')
args = sys.argv[1:]
jobs, tier, only, sub, esc = 3, 'quick', [], None, '0'
while args:
    a = args.pop(0)
    if a == '-j': jobs = int(args.pop(0))
    elif a == '--tier': tier = args.pop(0)
    elif a == '--only': sub = args.pop(0)
    elif a == '--escalate': esc = '1'   # let the quick tier use the thorough budget on changed sources (what a user's run does)
    else: only.append(a.upper())
SD = os.path.join(ROOT, 'seeded')
REVERT = {'revert-F1': ['C17'], 'revert-F2': ['C11'], 'revert-F3': ['C06', 'C09'], 'revert-F4': ['C12']}
def props_of(name, meta):
    if name in REVERT: return REVERT[name]
    m = re.match(r'(C\d\d)', name)
    ps = [m.group(1)] if m else []
    for extra in meta.get('also_check', []):
        if extra not in ps: ps.append(extra)
    return ps
jobs_list = []
for name in sorted(os.listdir(SD)):
    d = os.path.join(SD, name)
    if not os.path.isfile(os.path.join(d, 'patch.diff')): continue
    if sub and sub not in name: continue
    mp = os.path.join(d, 'meta.json')
    meta = json.load(open(mp)) if os.path.exists(mp) else {}
    for pid in props_of(name, meta):
        if only and pid not in only: continue
        if not os.path.exists(os.path.join(ROOT, 'checks', pid.lower() + '.py')): continue
        jobs_list.append((name, pid, meta.get('raw_patch', False), 'harmless' in name or meta.get('harmless', False)))
def one(job):
    name, pid, raw, harmless = job
    t0 = time.time()
    env = dict(os.environ); env['RAW'] = '1' if raw else '0'; env['VERIF_ESCALATE'] = esc
    p = subprocess.run([os.path.join(ROOT, 'tools', 'mutant_run.sh'), os.path.join(SD, name, 'patch.diff'), pid, tier],
                       stdout=subprocess.PIPE, stderr=subprocess.STDOUT, text=True, env=env)
    out = p.stdout
    viol = [l for l in out.splitlines() if l.startswith('VIOLATION')]
    m = re.search(r'"what": "(.*?)",?\n', out)
    if 'PATCH DOES NOT APPLY' in out: verdict = 'patch-does-not-apply'
    elif 'CHECK-ERROR' in out: verdict = 'check-error'
    elif viol and all('no-failing-input-found' in v for v in viol): verdict = 'broken-tie-no-failing-input'
    elif viol: verdict = 'violation-with-failing-input'
    elif p.returncode == 0: verdict = 'not-detected'
    else: verdict = 'rc=%d' % p.returncode
    return name, pid, harmless, verdict, (m.group(1)[:300] if m else ''), round(time.time() - t0, 1), out[-1500:]
with ThreadPoolExecutor(jobs) as ex:
    res = list(ex.map(one, jobs_list))
for name, pid, harmless, verdict, what, dt, tail in res:
    mp = os.path.join(SD, name, 'meta.json')
    meta = json.load(open(mp)) if os.path.exists(mp) else {}
    det = meta.get('detected_by') if isinstance(meta.get('detected_by'), dict) else {}
    if verdict == 'patch-does-not-apply' and isinstance(det.get(pid), dict) and det[pid].get('verdict') not in (None, 'patch-does-not-apply'):
        # the repository moved on (a later fix commit rewrote the patched lines): keep the verdict recorded
        # when the patch still applied, marked as historical
        det[pid]['historical'] = 'patch no longer applies to the current /repo HEAD; verdict recorded at an earlier HEAD'
        meta['detected_by'] = det
        json.dump(meta, open(mp, 'w'), indent=1)
        print('ok  %-45s %s %-32s (historical: %s)' % (name, pid, 'patch-does-not-apply', det[pid]['verdict']))
        continue
    det[pid] = {'tier': tier + ('+escalated' if esc == '1' and tier == 'quick' else ''), 'verdict': verdict, 'what': what, 'wall_s': dt}
    meta['detected_by'] = det
    json.dump(meta, open(mp, 'w'), indent=1)
    flag = 'ok ' if (verdict.startswith('violation') or verdict.startswith('broken')) != harmless or (harmless and verdict in ('not-detected', 'broken-tie-no-failing-input')) else 'BAD'
    print('%s %-45s %s %-32s %5.0fs %s' % (flag, name, pid, verdict, dt, what[:110]))
    if verdict in ('check-error', 'patch-does-not-apply') or verdict.startswith('rc='):
        print(tail)
# summary file over all seeded dirs
rows = []
for name in sorted(os.listdir(SD)):
    mp = os.path.join(SD, name, 'meta.json')
    if not os.path.exists(mp): continue
    meta = json.load(open(mp))
    det = meta.get('detected_by')
    if isinstance(det, dict):
        for pid, r in sorted(det.items()):
            rows.append('| %s | %s | %s%s | %s |' % (name, pid, r['verdict'], ' (historical)' if r.get('historical') else '', str(r.get('what') or '').replace('|', '/')[:160]))
open(os.path.join(SD, 'RESULTS.md'), 'w').write('# Seeded changes vs checks (generated by tools/seeded_matrix.py)\n\n| change | check | verdict | reported |\n|---|---|---|---|\n' + '\n'.join(rows) + '\n')
