#!/usr/bin/env python3
"""usage: tools/coqmake.py [Target ...]   e.g. tools/coqmake.py SortedProofs Properties_C17
Builds coq/theories/<Target>.vo (and what it depends on) under the shared build lock, after
regenerating _CoqProject/Makefile if the set of files changed.  No target = everything (-k)."""
import os, sys
sys.path.insert(0, os.path.join(os.path.dirname(os.path.abspath(__file__)), '..'))
import vlib
rc, out, err = vlib.coq_make(['theories/%s.vo' % t.replace('.vo', '').replace('.v', '') for t in sys.argv[1:]])
sys.stdout.write(out[-6000:]); sys.stderr.write(err[-6000:])
sys.exit(rc)
