#!/usr/bin/env python3
"""run every check of MANIFEST.json (quick by default) sequentially or N at a time; print a summary table
usage: tools/run_all.py [quick|thorough] [-j N] [Cxx ...]"""
import json, os, subprocess, sys, time
from concurrent.futures import ThreadPoolExecutor
ROOT = os.path.join(os.path.dirname(os.path.abspath(__file__)), '..')
args = sys.argv[1:]
tier = 'quick'; jobs = 1; only = []
while args:
    a = args.pop(0)
    if a in ('quick', 'thorough'): tier = a
    elif a == '-j': jobs = int(args.pop(0))
    else: only.append(a.upper())
man = json.load(open(os.path.join(ROOT, 'MANIFEST.json')))
checks = [c for c in man['checks'] if not only or c['property_id'] in only]
def one(c):
    t0 = time.time()
    cmd = c['quick_cmd'] if tier == 'quick' else c.get('thorough_cmd', c['quick_cmd'])
    p = subprocess.run(cmd, shell=True, cwd=ROOT, stdout=subprocess.PIPE, stderr=subprocess.STDOUT, text=True)
    return c['property_id'], p.returncode, time.time() - t0, p.stdout
with ThreadPoolExecutor(jobs) as ex:
    res = list(ex.map(one, checks))
bad = 0
for pid, rc, dt, out in res:
    lines = [l for l in out.splitlines() if l.startswith(('VIOLATION', 'KNOWN-FINDING', 'CHECK-ERROR'))]
    print('%-4s rc=%d %6.1fs  %s' % (pid, rc, dt, ' | '.join(lines)[:200] or out.strip().splitlines()[-1][:160] if out.strip() else ''))
    bad += rc != 0
print('%d checks, %d non-zero' % (len(res), bad))
sys.exit(1 if bad else 0)
