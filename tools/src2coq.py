#!/usr/bin/env python3
"""src2coq: regenerate the source-derived parts of the Coq model from /repo's working tree.

Each generator (tools/s2c/<area>.py, function generate() -> {file name: text}) reads anchored
spots of the C++ source and produces `Src<Area>.v` files written to coq/theories (git-ignored:
rebuilt on every run).  A missing anchor makes the generator raise AnchorError
("ANCHOR NOT FOUND: ..."): the caller then reports the translator tie as broken.

usage: src2coq.py [--repo /repo] [--out coq/theories] [area ...]      (no area = all)
prints one JSON object {area: {ok, files | error}}; exit 2 if any area failed.
"""
import glob, importlib, json, os, sys

HERE = os.path.dirname(os.path.abspath(__file__))
sys.path.insert(0, HERE)
from s2c import common

OUT = os.path.join(HERE, '..', 'coq', 'theories')


def write_if_changed(path, text):
    try:
        if open(path, encoding='utf-8').read() == text:
            return False
    except FileNotFoundError:
        pass
    with open(path, 'w', encoding='utf-8') as f:
        f.write(text)
    return True


def main(argv):
    global OUT
    args = list(argv)
    while args and args[0].startswith('--'):
        k = args.pop(0)
        if k == '--repo':
            common.REPO = args.pop(0)
        elif k == '--out':
            OUT = args.pop(0)
    all_areas = sorted(os.path.basename(p)[:-3] for p in glob.glob(os.path.join(HERE, 's2c', '*.py'))
                       if os.path.basename(p) not in ('__init__.py', 'common.py'))
    areas = args or all_areas
    status, rc = {}, 0
    for a in areas:
        try:
            files = importlib.import_module('s2c.' + a).generate()
            for name, text in files.items():
                write_if_changed(os.path.join(OUT, name), text)
            status[a] = {'ok': True, 'files': sorted(files)}
        except common.AnchorError as e:
            status[a] = {'ok': False, 'error': str(e)}
            rc = 2
        except Exception as e:  # a crash of a generator is a broken tie as well
            status[a] = {'ok': False, 'error': 'generator crashed: %r' % (e,)}
            rc = 2
    print(json.dumps(status))
    return rc


if __name__ == '__main__':
    sys.exit(main(sys.argv[1:]))
